(* For each of the five grammars of Model/Grammar.v:
     X_parse_print : wf a -> blanks ws -> parse_X (print_X a ws) = Some a
     X_parse_sound : parse_X s = Some a -> wf a /\ exists ws, blanks ws /\ s = print_X a ws
   (X = eq, dir, rt, st, lv), from the tokenizer theorems of LexProofs.v and token-level
   soundness/completeness of the recursive-descent parsers. *)
From Coq Require Import String Ascii List Bool Arith NArith ZArith Lia.
Require Import TV.Model.Lex TV.Model.Show TV.Model.Grammar TV.Proofs.LexProofs.
Import ListNotations.
Open Scope string_scope.
Open Scope list_scope.

(* ------------------------------------------------------------------ tokens and token lists *)

Lemma sym_eqb_eq a b : sym_eqb a b = true -> a = b.
Proof. destruct a, b; simpl; intros H; try discriminate; reflexivity. Qed.
Lemma sym_eqb_refl a : sym_eqb a a = true.
Proof. destruct a; reflexivity. Qed.
Lemma tok_eqb_eq a b : tok_eqb a b = true -> a = b.
Proof.
  destruct a, b; simpl; intros H; try discriminate; try reflexivity;
    try (apply String.eqb_eq in H; now subst).
  apply sym_eqb_eq in H. now subst.
Qed.
Lemma tok_eqb_refl a : tok_eqb a a = true.
Proof. destruct a; simpl; try apply String.eqb_refl; try reflexivity. apply sym_eqb_refl. Qed.

Lemma join_cons sep (x : list token) l : l <> [] -> join sep (x :: l) = x ++ sep :: join sep l.
Proof. destruct l; [congruence|reflexivity]. Qed.

Lemma join_head sep (x : list token) l r : exists r', join sep (x :: l) ++ r = x ++ r'.
Proof.
  destruct l.
  - exists r. reflexivity.
  - exists (sep :: join sep (l :: l0) ++ r). rewrite join_cons by congruence. now rewrite <- app_assoc.
Qed.

Lemma join_length sep (xs : list (list token)) : Forall (fun x => x <> []) xs -> List.length xs <= List.length (join sep xs).
Proof.
  induction xs as [|x xs IH]; intros H; [simpl; lia|].
  inversion H; subst. destruct xs as [|y xs].
  - simpl. destruct x; [congruence|simpl; lia].
  - rewrite join_cons by congruence. rewrite app_length. simpl List.length in *.
    specialize (IH H3). destruct x; [congruence|]. simpl. lia.
Qed.

Lemma forallb_join (f : token -> bool) sep xs : f sep = true -> forallb f (join sep xs) = forallb (forallb f) xs.
Proof.
  intros Hs. induction xs as [|x xs IH]; [reflexivity|].
  destruct xs as [|y xs].
  - simpl. now rewrite andb_true_r.
  - rewrite join_cons by congruence. rewrite forallb_app. cbn [forallb] in *. rewrite Hs, IH. reflexivity.
Qed.

(* no-glue condition, compositionally *)
Definition safe_follower (t : token) : bool := negb (starts_word t) && negb (tok_eqb t (TSym SLPar)).
Definition head_safe (ts : list token) : bool := match ts with [] => true | t :: _ => safe_follower t end.
Definition nonleader (t : token) : bool := match t with TName _ | TNum _ | TDotW _ => false | _ => true end.

Lemma glue_safe t1 t2 : safe_follower t2 = true -> glue_bad t1 t2 = false.
Proof.
  unfold safe_follower. intros H. apply andb_prop in H. destruct H as [H1 H2].
  apply negb_true_iff in H1, H2. destruct t1; simpl; auto. now rewrite H1, H2.
Qed.

Lemma sepfree_cons t ts : sepfree (t :: ts) = match ts with [] => true | t2 :: _ => negb (glue_bad t t2) && sepfree ts end.
Proof. destruct ts; reflexivity. Qed.

Lemma sepfree_nonleader t ts : nonleader t = true -> sepfree (t :: ts) = sepfree ts.
Proof. rewrite sepfree_cons. destruct ts; [reflexivity|]. destruct t; simpl; try discriminate; auto. Qed.

Lemma sepfree_app a b : sepfree a = true -> sepfree b = true -> head_safe b = true -> sepfree (a ++ b) = true.
Proof.
  induction a as [|t a IH]; intros Ha Hb Hh; [exact Hb|].
  destruct a as [|t2 a].
  - simpl app. rewrite sepfree_cons. destruct b as [|t3 b]; [reflexivity|]. simpl in Hh.
    rewrite (glue_safe t _ Hh). exact Hb.
  - rewrite sepfree_cons in Ha. apply andb_prop in Ha. destruct Ha as [Hg Ha].
    simpl app. rewrite sepfree_cons. rewrite Hg. simpl andb. apply (IH Ha Hb Hh).
Qed.

Lemma sepfree_join y xs : safe_follower (TSym y) = true -> forallb sepfree xs = true -> sepfree (join (TSym y) xs) = true.
Proof.
  intros Hy. induction xs as [|x xs IH]; intros H; [reflexivity|].
  cbn [forallb] in H. apply andb_prop in H. destruct H as [Hx Hxs].
  destruct xs as [|x2 xs]; [exact Hx|].
  rewrite join_cons by congruence. apply sepfree_app; auto.
  rewrite sepfree_nonleader by reflexivity. auto.
Qed.

(* ------------------------------------------------------------------ separated lists *)

Section SepProofs.
  Context {A : Type}.
  Variable p : list token -> option (A * list token).
  Variable pr : A -> list token.
  Variable sep : token.
  Variable cont : list token -> bool.
  Variable wfA : A -> bool.
  Variable okts : list token -> bool.

  Hypothesis p_sound : forall ts a r, okts ts = true -> p ts = Some (a, r) ->
    ts = pr a ++ r /\ wfA a = true /\ okts r = true.
  Hypothesis okts_tail : forall t r, okts (t :: r) = true -> okts r = true.

  Lemma p_sep_aux_sound : forall fuel ts l r, okts ts = true -> p_sep_aux p sep cont fuel ts = Some (l, r) ->
    ts = join sep (map pr l) ++ r /\ l <> [] /\ forallb wfA l = true /\ okts r = true.
  Proof.
    induction fuel as [|f fuel IH]; intros ts l r Hok H; [discriminate|].
    simpl in H. destruct (p ts) as [[a r0]|] eqn:Hp; [|discriminate].
    destruct (p_sound _ _ _ Hok Hp) as (E & Hwf & Hok0).
    destruct r0 as [|t r1].
    - inversion H; subst. simpl. rewrite Hwf. repeat split; auto. congruence.
    - destruct (tok_eqb t sep && cont r1) eqn:Hc.
      + apply andb_prop in Hc. destruct Hc as [Ht _]. apply tok_eqb_eq in Ht. subst t.
        destruct (p_sep_aux p sep cont fuel r1) as [[l' r'']|] eqn:Hrec; [|discriminate].
        inversion H; subst. destruct (IH _ _ _ (okts_tail _ _ Hok0) Hrec) as (E' & Hne & Hwf' & Hok').
        repeat split; auto; [|congruence|simpl; now rewrite Hwf, Hwf'].
        cbn [map]. rewrite join_cons by (destruct l'; [congruence|discriminate]).
        rewrite <- app_assoc. simpl. now rewrite <- E'.
      + inversion H; subst. simpl. rewrite Hwf. repeat split; auto. congruence.
  Qed.

  Lemma p_sep_sound ts l r : okts ts = true -> p_sep p sep cont ts = Some (l, r) ->
    ts = join sep (map pr l) ++ r /\ l <> [] /\ forallb wfA l = true /\ okts r = true.
  Proof. apply p_sep_aux_sound. Qed.

  Variable fol : list token -> bool.
  Hypothesis p_complete : forall a r, wfA a = true -> fol r = true -> p (pr a ++ r) = Some (a, r).
  Hypothesis fol_sep : forall r, fol (sep :: r) = true.
  Hypothesis cont_pr : forall a r, wfA a = true -> cont (pr a ++ r) = true.
  Hypothesis pr_nonempty : forall a, wfA a = true -> pr a <> [].

  Definition stop (r : list token) : bool :=
    match r with [] => true | t :: r' => negb (tok_eqb t sep && cont r') end.

  Lemma p_sep_aux_complete : forall l r fuel, l <> [] -> forallb wfA l = true -> fol r = true -> stop r = true ->
    List.length l <= List.length fuel -> p_sep_aux p sep cont fuel (join sep (map pr l) ++ r) = Some (l, r).
  Proof.
    induction l as [|a l IH]; intros r fuel Hne Hwf Hf Hs Hlen; [congruence|].
    cbn [forallb] in Hwf. apply andb_prop in Hwf. destruct Hwf as [Ha Hl].
    destruct fuel as [|f fuel]; [simpl in Hlen; lia|].
    destruct l as [|b l].
    - simpl. rewrite (p_complete _ _ Ha Hf). destruct r as [|t r']; [reflexivity|].
      simpl in Hs. apply negb_true_iff in Hs. now rewrite Hs.
    - change (map pr (a :: b :: l)) with (pr a :: map pr (b :: l)).
      rewrite join_cons by (simpl; discriminate). rewrite <- app_assoc.
      change ((sep :: join sep (map pr (b :: l))) ++ r) with (sep :: join sep (map pr (b :: l)) ++ r).
      cbn [p_sep_aux]. rewrite (p_complete _ _ Ha (fol_sep _)).
      rewrite tok_eqb_refl.
      assert (Hb : wfA b = true) by (cbn [forallb] in Hl; apply andb_prop in Hl; tauto).
      assert (Hcont : cont (join sep (map pr (b :: l)) ++ r) = true).
      { destruct (join_head sep (pr b) (map pr l) r) as [r' Hr']. cbn [map]. rewrite Hr'. now apply cont_pr. }
      rewrite Hcont. simpl andb.
      rewrite (IH r fuel); auto; [discriminate|simpl in *; lia].
  Qed.

  Lemma p_sep_complete l r : l <> [] -> forallb wfA l = true -> fol r = true -> stop r = true ->
    p_sep p sep cont (join sep (map pr l) ++ r) = Some (l, r).
  Proof.
    intros Hne Hwf Hf Hs. unfold p_sep. apply p_sep_aux_complete; auto.
    rewrite app_length.
    assert (List.length l <= List.length (join sep (map pr l))).
    { rewrite <- (map_length pr l). apply join_length. apply Forall_forall. intros x Hx.
      apply in_map_iff in Hx. destruct Hx as (a & <- & Ha). apply pr_nonempty.
      rewrite forallb_forall in Hwf. auto. }
    lia.
  Qed.
End SepProofs.

Definition okp (ts : list token) : bool := forallb (tok_ok MPlain) ts.
Lemma okp_tail t r : okp (t :: r) = true -> okp r = true.
Proof. unfold okp. simpl. intros H. apply andb_prop in H. tauto. Qed.
Lemma okp_app a b : okp (a ++ b) = okp a && okp b.
Proof. apply forallb_app. Qed.

Ltac bsplit := repeat match goal with
  | H : _ && _ = true |- _ => apply andb_prop in H; destruct H
  | |- _ && _ = true => apply andb_true_intro; split
  end.

Ltac crunch H := repeat (match type of H with
   | context [match ?x with _ => _ end] => let E := fresh "E" in destruct x eqn:E; try discriminate
   | context [if ?x then _ else _] => let E := fresh "E" in destruct x eqn:E; try discriminate
   end).

Ltac crunchv H := repeat (first [ progress (cbv iota beta in H) | discriminate H |
   match type of H with
   | context [match ?x with _ => _ end] => is_var x; destruct x
   end ]).

(* ------------------------------------------------------------------ Einsum expressions: soundness *)

Lemma p_iterm_sound ts t r : okp ts = true -> p_iterm ts = Some (t, r) ->
  ts = toks_iterm t ++ r /\ wf_iterm t = true /\ okp r = true.
Proof.
  intros Hok H. unfold p_iterm in H. crunch H; inversion H; subst; unfold okp in *; simpl in *; bsplit; repeat split; auto; bsplit; auto.
Qed.

Lemma p_iexpr_sound ts e r : okp ts = true -> p_iexpr ts = Some (e, r) ->
  ts = toks_iexpr e ++ r /\ wf_iexpr e = true /\ okp r = true.
Proof.
  intros Hok H. unfold p_iexpr in H.
  destruct (p_sep_sound p_iterm toks_iterm (TSym SPlus) always wf_iterm okp p_iterm_sound okp_tail _ _ _ Hok H) as (E & Hne & Hwf & Hr).
  repeat split; auto. unfold wf_iexpr. rewrite Hwf. destruct e; [congruence|reflexivity].
Qed.

Lemma p_ranks_inv ts rs r : p_ranks ts = Some (rs, r) ->
  (ts = TSym SLBrack :: TSym SRBrack :: r /\ rs = []) \/
  (exists r0, ts = TSym SLBrack :: r0 /\ p_sep p_iexpr (TSym SComma) always r0 = Some (rs, TSym SRBrack :: r)).
Proof.
  intros H. unfold p_ranks in H.
  destruct ts as [|t r0]; [discriminate|]. destruct t as [| | | | |y]; try discriminate. destruct y; try discriminate.
  destruct r0 as [|t2 r1].
  - crunch H.
  - destruct t2 as [x|x|x|x| |y2]; try (right; eexists; split; [reflexivity|]; crunch H; inversion H; subst; first [assumption|reflexivity]).
    destruct y2; try (right; eexists; split; [reflexivity|]; crunch H; inversion H; subst; first [assumption|reflexivity]).
    left. inversion H; subst. auto.
Qed.

Lemma p_ranks_sound ts rs r : okp ts = true -> p_ranks ts = Some (rs, r) ->
  ts = toks_ranks rs ++ r /\ wf_ranks rs = true /\ okp r = true.
Proof.
  intros Hok H. apply p_ranks_inv in H. destruct H as [[-> ->]|(r0 & -> & H)].
  - apply okp_tail in Hok. apply okp_tail in Hok. repeat split; auto.
  - apply okp_tail in Hok.
    destruct (p_sep_sound p_iexpr toks_iexpr (TSym SComma) always wf_iexpr okp p_iexpr_sound okp_tail _ _ _ Hok H) as (E & Hne & Hwf & Hr).
    subst r0. apply okp_tail in Hr. repeat split; auto.
    unfold toks_ranks. simpl. rewrite <- app_assoc. reflexivity.
Qed.

Lemma p_factor_inv ts f r' : p_factor ts = Some (f, r') ->
  exists x r, ts = TName x :: r /\
    ((exists rs, p_ranks r = Some (rs, r') /\ f = FTensor x rs) \/ (f = FVar x /\ r' = r)).
Proof.
  intros H. unfold p_factor in H.
  destruct ts as [|t r]; [discriminate|]. destruct t as [x| | | | |]; try discriminate.
  exists x, r. split; [reflexivity|].
  destruct r as [|t2 r2]; [right; inversion H; auto|].
  destruct t2 as [| | | | |y]; try (right; inversion H; auto; fail).
  destruct y; try (right; inversion H; auto; fail).
  left. destruct (p_ranks (TSym SLBrack :: r2)) as [[rs r3]|] eqn:E; [|discriminate].
  inversion H; subst. eauto.
Qed.

Lemma p_factor_sound ts f r : okp ts = true -> p_factor ts = Some (f, r) ->
  ts = toks_factor f ++ r /\ wf_factor f = true /\ okp r = true.
Proof.
  intros Hok H. apply p_factor_inv in H. destruct H as (x & r0 & -> & [(rs & H & ->)|[-> ->]]).
  - pose proof (okp_tail _ _ Hok) as Hok0.
    destruct (p_ranks_sound _ _ _ Hok0 H) as (E & Hwf & Hr). subst r0.
    unfold okp in Hok. simpl in Hok. bsplit. repeat split; auto. simpl. bsplit; auto.
  - unfold okp in *. simpl in *. bsplit. repeat split; auto.
Qed.

Lemma p_term_inv ts t r' : p_term ts = Some (t, r') ->
  (exists r fs d, ts = TKw "take" :: r /\
      p_sep p_factor (TSym SComma) cont_take r = Some (fs, TSym SComma :: TNum d :: TSym SRPar :: r') /\ t = TTake fs d) \/
  (exists fs, p_sep p_factor (TSym SStar) always ts = Some (fs, r') /\ t = TTimes fs).
Proof.
  intros H. unfold p_term in H.
  destruct ts as [|t0 r]; [right; crunch H; inversion H; subst; eauto|].
  destruct t0 as [x|x|k|x| |y]; try (right; crunch H; inversion H; subst; eauto; fail).
  left. destruct (String.eqb_spec k "take"); [|discriminate]. subst k.
  crunch H. inversion H; subst. do 3 eexists. eauto.
Qed.

Lemma p_term_sound ts t r : okp ts = true -> p_term ts = Some (t, r) ->
  ts = toks_term t ++ r /\ wf_term t = true /\ okp r = true.
Proof.
  intros Hok H. apply p_term_inv in H. destruct H as [(r0 & fs & d & -> & H & ->)|(fs & H & ->)].
  - pose proof (okp_tail _ _ Hok) as Hok0.
    destruct (p_sep_sound p_factor toks_factor (TSym SComma) cont_take wf_factor okp p_factor_sound okp_tail _ _ _ Hok0 H) as (E & Hne & Hwf & Hr).
    subst r0. unfold okp in Hr. simpl in Hr. bsplit. repeat split; auto.
    + simpl. rewrite <- app_assoc. reflexivity.
    + simpl. rewrite Hwf. destruct fs; [congruence|]. simpl. assumption.
  - destruct (p_sep_sound p_factor toks_factor (TSym SStar) always wf_factor okp p_factor_sound okp_tail _ _ _ Hok H) as (E & Hne & Hwf & Hr).
    repeat split; auto. simpl. rewrite Hwf. destruct fs; [congruence|reflexivity].
Qed.

Lemma p_einsum_inv ts e : p_einsum ts = Some e ->
  exists z r rs r' tms, ts = TName z :: r /\ p_ranks r = Some (rs, TSym SEq :: r') /\
    p_sep p_term (TSym SPlus) always r' = Some (tms, []) /\ e = mkEinsum z rs tms.
Proof.
  intros H. unfold p_einsum in H.
  destruct ts as [|t r]; [discriminate|]. destruct t as [z| | | | |]; try discriminate.
  destruct (p_ranks r) as [[rs r0]|] eqn:E1; [|discriminate].
  destruct r0 as [|t0 r']; [discriminate|]. destruct t0 as [| | | | |y]; try discriminate. destruct y; try discriminate.
  destruct (p_sep p_term (TSym SPlus) always r') as [[tms r1]|] eqn:E2; [|discriminate].
  destruct r1; [|discriminate]. inversion H; subst. do 5 eexists. eauto.
Qed.

Lemma p_einsum_sound ts e : okp ts = true -> p_einsum ts = Some e -> ts = toks_einsum e /\ wf_einsum e = true.
Proof.
  intros Hok H. apply p_einsum_inv in H. destruct H as (z & r & rs & r' & tms & -> & H1 & H2 & ->).
  pose proof (okp_tail _ _ Hok) as Hok0.
  destruct (p_ranks_sound _ _ _ Hok0 H1) as (E & Hwf & Hr). subst r.
  pose proof (okp_tail _ _ Hr) as Hr'.
  destruct (p_sep_sound p_term toks_term (TSym SPlus) always wf_term okp p_term_sound okp_tail _ _ _ Hr' H2) as (E' & Hne & Hwf' & _).
  subst r'. rewrite app_nil_r. split; [reflexivity|].
  unfold okp in Hok. simpl in Hok. bsplit. unfold wf_einsum. simpl. bsplit; auto.
  destruct tms; [congruence|reflexivity].
Qed.

(* ------------------------------------------------------------------ Einsum expressions: completeness *)

Definition not_head (y : sym) (r : list token) : bool :=
  match r with TSym y' :: _ => negb (sym_eqb y' y) | _ => true end.

Lemma p_iterm_complete t r : p_iterm (toks_iterm t ++ r) = Some (t, r).
Proof. destruct t as [x|[] ds x]; reflexivity. Qed.

Lemma toks_iterm_nonempty t : toks_iterm t <> [].
Proof. destruct t as [x|[] ds x]; discriminate. Qed.

Lemma stop_always sep r : not_head sep r = true -> stop (TSym sep) always r = true.
Proof.
  destruct r as [|t r]; [reflexivity|]. simpl. unfold always. rewrite andb_true_r.
  destruct t; simpl; auto.
Qed.

Lemma p_iexpr_complete e r : wf_iexpr e = true -> not_head SPlus r = true -> p_iexpr (toks_iexpr e ++ r) = Some (e, r).
Proof.
  intros Hwf Hr. unfold wf_iexpr in Hwf. bsplit. unfold p_iexpr, toks_iexpr.
  apply (p_sep_complete p_iterm toks_iterm (TSym SPlus) always wf_iterm (fun _ => true)); auto.
  - intros. apply p_iterm_complete.
  - intros. apply toks_iterm_nonempty.
  - destruct e; [discriminate|congruence].
  - now apply stop_always.
Qed.

(* the first token of an index expression *)
Definition starts_iterm (ts : list token) : bool :=
  match ts with TName _ :: _ | TNum _ :: _ | TSym SMinus :: _ => true | _ => false end.
Lemma toks_iexpr_starts e r : wf_iexpr e = true -> starts_iterm (toks_iexpr e ++ r) = true.
Proof.
  unfold wf_iexpr. intros H. bsplit. destruct e as [|t e]; [discriminate|].
  unfold toks_iexpr. cbn [map]. destruct (join_head (TSym SPlus) (toks_iterm t) (map toks_iterm e) r) as [r' ->].
  destruct t as [x|[] ds x]; reflexivity.
Qed.
Lemma toks_iexpr_nonempty e : wf_iexpr e = true -> toks_iexpr e <> [].
Proof.
  intros H E. pose proof (toks_iexpr_starts e [] H) as S. rewrite app_nil_r, E in S. discriminate.
Qed.

Lemma p_ranks_complete rs r : wf_ranks rs = true -> p_ranks (toks_ranks rs ++ r) = Some (rs, r).
Proof.
  intros Hwf. destruct rs as [|e rs]; [reflexivity|].
  unfold toks_ranks. rewrite <- app_comm_cons. rewrite <- app_assoc.
  set (J := join (TSym SComma) (map toks_iexpr (e :: rs))).
  assert (HJ : p_sep p_iexpr (TSym SComma) always (J ++ [TSym SRBrack] ++ r) = Some (e :: rs, [TSym SRBrack] ++ r)).
  { apply (p_sep_complete p_iexpr toks_iexpr (TSym SComma) always wf_iexpr (not_head SPlus)); auto.
    - intros. now apply p_iexpr_complete.
    - intros. now apply toks_iexpr_nonempty.
    - discriminate. }
  assert (HS : starts_iterm (J ++ [TSym SRBrack] ++ r) = true).
  { unfold J. cbn [map]. destruct (join_head (TSym SComma) (toks_iexpr e) (map toks_iexpr rs) ([TSym SRBrack] ++ r)) as [r' ->].
    apply toks_iexpr_starts. unfold wf_ranks in Hwf. cbn [forallb] in Hwf. bsplit. assumption. }
  unfold p_ranks. destruct (J ++ [TSym SRBrack] ++ r) as [|t0 rest] eqn:EJ; [discriminate|].
  destruct t0 as [x|x|x|x| |y]; try discriminate; try (rewrite HJ; reflexivity).
  destruct y; try discriminate. rewrite HJ. reflexivity.
Qed.

Lemma p_factor_complete f r : wf_factor f = true -> not_head SLBrack r = true -> p_factor (toks_factor f ++ r) = Some (f, r).
Proof.
  intros Hwf Hr. destruct f as [x|x rs].
  - simpl. destruct r as [|t r]; [reflexivity|]. destruct t as [| | | | |y]; try reflexivity. destruct y; try reflexivity. discriminate.
  - simpl in Hwf. bsplit. simpl toks_factor. rewrite <- app_comm_cons.
    unfold p_factor. pose proof (p_ranks_complete rs r H0) as HR.
    unfold toks_ranks in *. rewrite <- app_comm_cons in *. rewrite HR. reflexivity.
Qed.

Lemma toks_factor_nonempty f : toks_factor f <> [].
Proof. destruct f; discriminate. Qed.

Definition starts_kw (ts : list token) : bool := match ts with TKw _ :: _ => true | _ => false end.
Lemma p_term_nokw ts : starts_kw ts = false ->
  p_term ts = match p_sep p_factor (TSym SStar) always ts with Some (fs, r) => Some (TTimes fs, r) | None => None end.
Proof. destruct ts as [|t ts]; [reflexivity|]. destruct t; try reflexivity. discriminate. Qed.

Definition fol_term (r : list token) : bool := not_head SLBrack r && not_head SStar r.

Lemma p_term_complete t r : wf_term t = true -> fol_term r = true -> p_term (toks_term t ++ r) = Some (t, r).
Proof.
  intros Hwf Hr. unfold fol_term in Hr. bsplit. destruct t as [fs|fs sel]; simpl in Hwf; bsplit.
  - assert (HP : p_sep p_factor (TSym SStar) always (toks_term (TTimes fs) ++ r) = Some (fs, r)).
    { apply (p_sep_complete p_factor toks_factor (TSym SStar) always wf_factor (not_head SLBrack)); auto.
      - intros. now apply p_factor_complete.
      - intros. apply toks_factor_nonempty.
      - destruct fs; [discriminate|congruence].
      - now apply stop_always. }
    rewrite p_term_nokw, HP; [reflexivity|].
    destruct fs as [|f fs]; [discriminate|]. unfold toks_term. cbn [map].
    destruct (join_head (TSym SStar) (toks_factor f) (map toks_factor fs) r) as [r' ->].
    destruct f; reflexivity.
  - simpl toks_term. rewrite <- app_comm_cons. rewrite <- app_assoc.
    assert (HP : p_sep p_factor (TSym SComma) cont_take (join (TSym SComma) (map toks_factor fs) ++ [TSym SComma; TNum sel; TSym SRPar] ++ r)
                 = Some (fs, [TSym SComma; TNum sel; TSym SRPar] ++ r)).
    { apply (p_sep_complete p_factor toks_factor (TSym SComma) cont_take wf_factor (not_head SLBrack)); auto.
      - intros. now apply p_factor_complete.
      - intros a r0 _. destruct a; reflexivity.
      - intros. apply toks_factor_nonempty.
      - destruct fs; [discriminate|congruence]. }
    unfold p_term. simpl String.eqb. rewrite HP. reflexivity.
Qed.

Lemma toks_term_nonempty t : wf_term t = true -> toks_term t <> [].
Proof.
  destruct t as [fs|fs sel]; simpl; intros H; bsplit; [|discriminate].
  destruct fs as [|f fs]; [discriminate|]. cbn [map].
  destruct (join_head (TSym SStar) (toks_factor f) (map toks_factor fs) []) as [r' Hr']. rewrite app_nil_r in Hr'.
  rewrite Hr'. destruct f; discriminate.
Qed.

Lemma p_einsum_cons z r : p_einsum (TName z :: r) =
  match p_ranks r with
  | Some (rs, TSym SEq :: r') =>
      match p_sep p_term (TSym SPlus) always r' with Some (tms, []) => Some (mkEinsum z rs tms) | _ => None end
  | _ => None
  end.
Proof. reflexivity. Qed.

Lemma p_einsum_complete e : wf_einsum e = true -> p_einsum (toks_einsum e) = Some e.
Proof.
  destruct e as [z rs tms]. intros H. unfold wf_einsum in H. simpl in H. bsplit.
  change (toks_einsum (mkEinsum z rs tms)) with (TName z :: toks_ranks rs ++ TSym SEq :: join (TSym SPlus) (map toks_term tms)).
  rewrite p_einsum_cons. rewrite (p_ranks_complete rs _ H2).
  rewrite <- (app_nil_r (join (TSym SPlus) (map toks_term tms))).
  rewrite (p_sep_complete p_term toks_term (TSym SPlus) always wf_term fol_term); auto.
  - intros. now apply p_term_complete.
  - intros. now apply toks_term_nonempty.
  - destruct tms; [discriminate|congruence].
Qed.

(* ------------------------------------------------------------------ printed token lists are lexable *)

Definition good (m : lmode) (ts : list token) : bool := forallb (tok_ok m) ts && sepfree ts.

Lemma good_app m a b : good m a = true -> good m b = true -> head_safe b = true -> good m (a ++ b) = true.
Proof.
  unfold good. intros Ha Hb Hh. bsplit.
  - rewrite forallb_app. now bsplit.
  - now apply sepfree_app.
Qed.

Lemma good_cons m t b : tok_ok m t = true -> nonleader t = true -> good m b = true -> good m (t :: b) = true.
Proof.
  unfold good. intros Ht Hn Hb. bsplit.
  - simpl. now bsplit.
  - now rewrite sepfree_nonleader.
Qed.

Lemma good_join m y xs : tok_ok m (TSym y) = true -> safe_follower (TSym y) = true ->
  forallb (good m) xs = true -> good m (join (TSym y) xs) = true.
Proof.
  intros Hy Hs H. unfold good. bsplit.
  - rewrite forallb_join by assumption. rewrite forallb_forall in *. intros x Hx. specialize (H x Hx). unfold good in H. now bsplit.
  - apply sepfree_join; auto. rewrite forallb_forall in *. intros x Hx. specialize (H x Hx). unfold good in H. now bsplit.
Qed.

Lemma forallb_map_impl {A B} (f : A -> bool) (g : B -> bool) (h : A -> B) l :
  (forall a, f a = true -> g (h a) = true) -> forallb f l = true -> forallb g (map h l) = true.
Proof.
  intros Hi. induction l as [|a l IH]; simpl; auto. intros H. bsplit; auto.
Qed.

Lemma good_iterm t : wf_iterm t = true -> good MPlain (toks_iterm t) = true.
Proof.
  destruct t as [x|[] ds x]; simpl; intros H; bsplit; unfold good; simpl; repeat (rewrite ?H, ?H0); reflexivity.
Qed.

Lemma good_iexpr e : wf_iexpr e = true -> good MPlain (toks_iexpr e) = true.
Proof.
  unfold wf_iexpr. intros H. bsplit. apply good_join; try reflexivity.
  eapply forallb_map_impl; [|eassumption]. apply good_iterm.
Qed.

Lemma good_ranks rs : wf_ranks rs = true -> good MPlain (toks_ranks rs) = true.
Proof.
  intros H. unfold toks_ranks. apply good_cons; try reflexivity. apply good_app; try reflexivity.
  apply good_join; try reflexivity. eapply forallb_map_impl; [|eassumption]. apply good_iexpr.
Qed.

Lemma good_factor f : wf_factor f = true -> good MPlain (toks_factor f) = true.
Proof.
  destruct f as [x|x rs]; simpl; intros H.
  - unfold good. simpl. now rewrite H.
  - bsplit. change (TName x :: toks_ranks rs) with ([TName x] ++ toks_ranks rs). apply good_app; try reflexivity.
    + unfold good. simpl. now rewrite H.
    + now apply good_ranks.
Qed.

Lemma good_term t : wf_term t = true -> good MPlain (toks_term t) = true.
Proof.
  destruct t as [fs|fs sel]; simpl; intros H; bsplit.
  - apply good_join; try reflexivity. eapply forallb_map_impl; [|eassumption]. apply good_factor.
  - apply good_cons; try reflexivity. apply good_app; try reflexivity.
    + apply good_join; try reflexivity. eapply forallb_map_impl; [|eassumption]. apply good_factor.
    + unfold good. simpl. now rewrite H0.
Qed.

Lemma good_einsum e : wf_einsum e = true -> good MPlain (toks_einsum e) = true.
Proof.
  destruct e as [z rs tms]. unfold wf_einsum. simpl. intros H. bsplit.
  change (toks_einsum (mkEinsum z rs tms)) with ([TName z] ++ toks_ranks rs ++ TSym SEq :: join (TSym SPlus) (map toks_term tms)).
  apply good_app; try reflexivity.
  - unfold good. simpl. now rewrite H.
  - apply good_app; try reflexivity; [now apply good_ranks|].
    apply good_cons; try reflexivity. apply good_join; try reflexivity.
    eapply forallb_map_impl; [|eassumption]. apply good_term.
Qed.

(* ------------------------------------------------------------------ the two theorems, per grammar *)

Section TopLevel.
  Context {A : Type}.
  Variables (m : lmode) (toks : A -> list token) (p : list token -> option A) (wf : A -> bool).
  Hypothesis Hgood : forall a, wf a = true -> good m (toks a) = true.
  Hypothesis Hcomplete : forall a, wf a = true -> p (toks a) = Some a.
  Hypothesis Hsound : forall ts a, forallb (tok_ok m) ts = true -> p ts = Some a -> ts = toks a /\ wf a = true.

  Lemma top_parse_print a ws : wf a = true -> blanks ws = true -> obind (lex m (render (toks a) ws)) p = Some a.
  Proof.
    intros Hwf Hb. pose proof (Hgood _ Hwf) as Hg. unfold good in Hg. bsplit.
    rewrite lex_render by assumption. simpl. now apply Hcomplete.
  Qed.

  Lemma top_parse_sound s a : obind (lex m s) p = Some a ->
    wf a = true /\ exists ws, blanks ws = true /\ List.length ws = S (List.length (toks a)) /\ s = render (toks a) ws.
  Proof.
    intros H. destruct (lex m s) as [ts|] eqn:El; [|discriminate]. simpl in H.
    destruct (lex_sound _ _ _ El) as (ws & Hb & Hlen & E & Hok).
    destruct (Hsound _ _ Hok H) as [-> Hwf]. split; auto. exists ws. auto.
  Qed.
End TopLevel.

Theorem eq_parse_print e ws : wf_einsum e = true -> blanks ws = true -> parse_eq (print_eq e ws) = Some e.
Proof. apply (top_parse_print MPlain toks_einsum p_einsum wf_einsum good_einsum p_einsum_complete). Qed.

Theorem eq_parse_sound s e : parse_eq s = Some e ->
  wf_einsum e = true /\ exists ws, blanks ws = true /\ List.length ws = S (List.length (toks_einsum e)) /\ s = print_eq e ws.
Proof. apply (top_parse_sound MPlain toks_einsum p_einsum wf_einsum). exact p_einsum_sound. Qed.

(* ------------------------------------------------------------------ partitioning directives *)

Lemma p_dir_complete d : wf_dir d = true -> p_dir (toks_dir d) = Some d.
Proof. intros _. destruct d as [[]|l []|[]| |l]; reflexivity. Qed.

Lemma good_dir d : wf_dir d = true -> good MPlain (toks_dir d) = true.
Proof.
  destruct d as [[ds|x]|l [ds|x]|[ds|x]| |l]; simpl; intros H; bsplit; unfold good; simpl;
    repeat match goal with E : _ = true |- _ => rewrite E; clear E end; reflexivity.
Qed.

Lemma p_dir_sound ts d : forallb (tok_ok MPlain) ts = true -> p_dir ts = Some d -> ts = toks_dir d /\ wf_dir d = true.
Proof.
  intros Hok H. unfold p_dir in H.
  destruct ts as [|t r]; [discriminate|]. destruct t as [| |k| | |]; try discriminate.
  unfold option_map, p_size in H.
  destruct (String.eqb_spec k "nway_shape"); [subst k|
  destruct (String.eqb_spec k "uniform_occupancy"); [subst k|
  destruct (String.eqb_spec k "uniform_shape"); [subst k|
  destruct (String.eqb_spec k "flatten"); [subst k|
  destruct (String.eqb_spec k "follow"); [subst k|discriminate]]]]];
  crunchv H; inversion H; subst; simpl in Hok; bsplit; (split; [reflexivity|simpl; bsplit; auto]).
Qed.

Theorem dir_parse_print d ws : wf_dir d = true -> blanks ws = true -> parse_dir (print_dir d ws) = Some d.
Proof. apply (top_parse_print MPlain toks_dir p_dir wf_dir good_dir p_dir_complete). Qed.

Theorem dir_parse_sound s d : parse_dir s = Some d ->
  wf_dir d = true /\ exists ws, blanks ws = true /\ List.length ws = S (List.length (toks_dir d)) /\ s = print_dir d ws.
Proof. apply (top_parse_sound MPlain toks_dir p_dir wf_dir). exact p_dir_sound. Qed.

(* ------------------------------------------------------------------ spacetime stamps *)

Lemma p_st_complete a : wf_st a = true -> p_st (toks_st a) = Some a.
Proof. intros _. destruct a; reflexivity. Qed.

Lemma good_st a : wf_st a = true -> good MDot (toks_st a) = true.
Proof. destruct a; simpl; intros H; unfold good; simpl; rewrite H; reflexivity. Qed.

Lemma p_st_sound ts a : forallb (tok_ok MDot) ts = true -> p_st ts = Some a -> ts = toks_st a /\ wf_st a = true.
Proof.
  intros Hok H. unfold p_st in H.
  destruct ts as [|t r]; [discriminate|]. destruct t as [x| | | | |]; try discriminate.
  destruct r as [|t2 r2].
  - inversion H; subst. simpl in Hok. bsplit. auto.
  - destruct t2 as [| | |w| |]; try discriminate. destruct r2; [|discriminate].
    simpl in Hok. bsplit.
    destruct (String.eqb_spec w "pos"); [subst w; inversion H; subst; auto|].
    destruct (String.eqb_spec w "coord"); [subst w; inversion H; subst; auto|discriminate].
Qed.

Theorem st_parse_print a ws : wf_st a = true -> blanks ws = true -> parse_st (print_st a ws) = Some a.
Proof. apply (top_parse_print MDot toks_st p_st wf_st good_st p_st_complete). Qed.

Theorem st_parse_sound s a : parse_st s = Some a ->
  wf_st a = true /\ exists ws, blanks ws = true /\ List.length ws = S (List.length (toks_st a)) /\ s = print_st a ws.
Proof. apply (top_parse_sound MDot toks_st p_st wf_st). exact p_st_sound. Qed.

(* ------------------------------------------------------------------ level names *)

Lemma p_lv_complete a : wf_lv a = true -> p_lv (toks_lv a) = Some a.
Proof. intros _. destruct a; reflexivity. Qed.

Lemma good_lv a : wf_lv a = true -> good MRange (toks_lv a) = true.
Proof. destruct a; simpl; intros H; bsplit; unfold good; simpl; repeat match goal with E : _ = true |- _ => rewrite E; clear E end; reflexivity. Qed.

Lemma p_lv_sound ts a : forallb (tok_ok MRange) ts = true -> p_lv ts = Some a -> ts = toks_lv a /\ wf_lv a = true.
Proof.
  intros Hok H. unfold p_lv in H. crunch H; inversion H; subst; simpl in Hok; bsplit; (split; [reflexivity|simpl; bsplit; auto]).
Qed.

Theorem lv_parse_print a ws : wf_lv a = true -> blanks ws = true -> parse_lv (print_lv a ws) = Some a.
Proof. apply (top_parse_print MRange toks_lv p_lv wf_lv good_lv p_lv_complete). Qed.

Theorem lv_parse_sound s a : parse_lv s = Some a ->
  wf_lv a = true /\ exists ws, blanks ws = true /\ List.length ws = S (List.length (toks_lv a)) /\ s = print_lv a ws.
Proof. apply (top_parse_sound MRange toks_lv p_lv wf_lv). exact p_lv_sound. Qed.

(* ------------------------------------------------------------------ rank tuples *)

Definition toks_names (xs : list string) : list token := join (TSym SComma) (map (fun x => [TName x]) xs).

Lemma p_names_complete xs : xs <> [] -> p_names (toks_names xs ++ [TSym SRPar]) = Some xs.
Proof.
  induction xs as [|x xs IH]; intros Hne; [congruence|].
  destruct xs as [|y xs]; [reflexivity|].
  unfold toks_names in *. change (map (fun x => [TName x]) (x :: y :: xs)) with ([TName x] :: map (fun x => [TName x]) (y :: xs)).
  rewrite join_cons by (simpl; discriminate).
  change (([TName x] ++ TSym SComma :: join (TSym SComma) (map (fun x0 => [TName x0]) (y :: xs))) ++ [TSym SRPar])
    with (TName x :: TSym SComma :: (join (TSym SComma) (map (fun x0 => [TName x0]) (y :: xs)) ++ [TSym SRPar])).
  cbn [p_names]. rewrite IH by discriminate. reflexivity.
Qed.

Lemma p_names_sound n : forall ts xs, List.length ts <= n -> p_names ts = Some xs ->
  ts = toks_names xs ++ [TSym SRPar] /\ xs <> [].
Proof.
  induction n as [|n IH]; intros ts xs Hn H.
  - destruct ts; [discriminate|simpl in Hn; lia].
  - destruct ts as [|t r]; [discriminate|]. destruct t as [x| | | | |]; try discriminate.
    destruct r as [|t2 r2]; [discriminate|]. destruct t2 as [| | | | |y]; try discriminate.
    destruct y; try discriminate.
    + (* , *)
      cbn [p_names] in H. destruct (p_names r2) as [l|] eqn:E; [|discriminate]. simpl in H. inversion H; subst.
      destruct (IH r2 l) as [E' Hne]; auto; [simpl in Hn; lia|]. subst r2. split; [|discriminate].
      unfold toks_names. change (map (fun x0 => [TName x0]) (x :: l)) with ([TName x] :: map (fun x0 => [TName x0]) l).
      rewrite join_cons by (destruct l; [congruence|simpl; discriminate]). reflexivity.
    + (* ) *)
      destruct r2; [|discriminate]. inversion H; subst. split; [reflexivity|discriminate].
Qed.

Lemma p_rt_complete a : wf_rt a = true -> p_rt (toks_rt a) = Some a.
Proof.
  destruct a as [x|xs]; [reflexivity|]. simpl. intros H. bsplit.
  change (join (TSym SComma) (map (fun x => [TName x]) xs)) with (toks_names xs).
  destruct xs as [|x [|y xs]]; try discriminate.
  rewrite p_names_complete by discriminate. reflexivity.
Qed.

Lemma good_names xs : forallb is_ident xs = true -> good MPlain (toks_names xs) = true.
Proof.
  intros H. apply good_join; try reflexivity. eapply forallb_map_impl; [|eassumption].
  intros x Hx. unfold good. simpl. now rewrite Hx.
Qed.

Lemma good_rt a : wf_rt a = true -> good MPlain (toks_rt a) = true.
Proof.
  destruct a as [x|xs]; simpl; intros H.
  - unfold good. simpl. now rewrite H.
  - bsplit. apply good_cons; try reflexivity. apply good_app; try reflexivity. now apply good_names.
Qed.

Lemma okp_names xs : okp (toks_names xs) = true -> forallb is_ident xs = true.
Proof.
  unfold okp, toks_names. rewrite forallb_join by reflexivity.
  induction xs as [|x xs IH]; simpl; auto. intros H. bsplit; auto.
Qed.

Lemma p_rt_sound ts a : forallb (tok_ok MPlain) ts = true -> p_rt ts = Some a -> ts = toks_rt a /\ wf_rt a = true.
Proof.
  intros Hok H. unfold p_rt in H.
  destruct ts as [|t r]; [discriminate|]. destruct t as [x| | | | |y]; try discriminate.
  - destruct r; [|discriminate]. inversion H; subst. simpl in Hok. bsplit. auto.
  - destruct y; try discriminate.
    destruct (p_names r) as [xs|] eqn:E; [|discriminate].
    destruct (p_names_sound _ _ _ (le_n _) E) as [-> Hne].
    destruct xs as [|x [|y xs]]; try discriminate. inversion H; subst.
    apply okp_tail in Hok. rewrite okp_app in Hok. apply andb_prop in Hok. destruct Hok as [Hok _].
    apply okp_names in Hok. split; [reflexivity|]. simpl. exact Hok.
Qed.

Theorem rt_parse_print a ws : wf_rt a = true -> blanks ws = true -> parse_rt (print_rt a ws) = Some a.
Proof. apply (top_parse_print MPlain toks_rt p_rt wf_rt good_rt p_rt_complete). Qed.

Theorem rt_parse_sound s a : parse_rt s = Some a ->
  wf_rt a = true /\ exists ws, blanks ws = true /\ List.length ws = S (List.length (toks_rt a)) /\ s = print_rt a ws.
Proof. apply (top_parse_sound MPlain toks_rt p_rt wf_rt). exact p_rt_sound. Qed.

(* ------------------------------------------------------------------ consequences (any grammar) *)

Section Consequences.
  Context {A : Type}.
  Variables (parse : string -> option A) (print : A -> list string -> string) (wf : A -> bool).
  Hypothesis parse_print : forall a ws, wf a = true -> blanks ws = true -> parse (print a ws) = Some a.
  Hypothesis parse_sound : forall s a, parse s = Some a -> wf a = true /\ exists ws, blanks ws = true /\ s = print a ws.

  (* insignificant whitespace is insignificant *)
  Lemma ws_independent a ws1 ws2 : wf a = true -> blanks ws1 = true -> blanks ws2 = true ->
    parse (print a ws1) = parse (print a ws2).
  Proof. intros. rewrite !parse_print; auto. Qed.

  (* two different structures are never written the same way: the text determines the structure *)
  Lemma print_injective a b ws1 ws2 : wf a = true -> wf b = true -> blanks ws1 = true -> blanks ws2 = true ->
    print a ws1 = print b ws2 -> a = b.
  Proof.
    intros Ha Hb H1 H2 E. pose proof (parse_print a ws1 Ha H1) as P. rewrite E, parse_print in P; auto. now inversion P.
  Qed.

  (* text that is not the writing of a well-formed structure is rejected (nothing is partially parsed) *)
  Lemma outside_rejected s : (forall a ws, wf a = true -> blanks ws = true -> s <> print a ws) -> parse s = None.
  Proof.
    intros H. destruct (parse s) as [a|] eqn:E; auto.
    destruct (parse_sound _ _ E) as (Hwf & ws & Hb & Es). exfalso. eapply H; eauto.
  Qed.

  (* accepted text is exactly the image of print *)
  Lemma accepted_iff s a : parse s = Some a <-> (wf a = true /\ exists ws, blanks ws = true /\ s = print a ws).
  Proof.
    split; [apply parse_sound|]. intros (Hwf & ws & Hb & ->). now apply parse_print.
  Qed.
End Consequences.

Lemma drop_len {A} (parse : string -> option A) (print : A -> list string -> string) (wf : A -> bool) (toks : A -> list token) :
  (forall s a, parse s = Some a -> wf a = true /\ exists ws, blanks ws = true /\ List.length ws = S (List.length (toks a)) /\ s = print a ws) ->
  forall s a, parse s = Some a -> wf a = true /\ exists ws, blanks ws = true /\ s = print a ws.
Proof. intros H s a E. destruct (H s a E) as (Hw & ws & Hb & _ & Es). eauto. Qed.

Definition eq_sound' := drop_len _ _ _ _ eq_parse_sound.
Definition dir_sound' := drop_len _ _ _ _ dir_parse_sound.
Definition rt_sound' := drop_len _ _ _ _ rt_parse_sound.
Definition st_sound' := drop_len _ _ _ _ st_parse_sound.
Definition lv_sound' := drop_len _ _ _ _ lv_parse_sound.

Definition eq_accepted_iff := accepted_iff parse_eq print_eq wf_einsum eq_parse_print eq_sound'.
Definition dir_accepted_iff := accepted_iff parse_dir print_dir wf_dir dir_parse_print dir_sound'.
Definition rt_accepted_iff := accepted_iff parse_rt print_rt wf_rt rt_parse_print rt_sound'.
Definition st_accepted_iff := accepted_iff parse_st print_st wf_st st_parse_print st_sound'.
Definition lv_accepted_iff := accepted_iff parse_lv print_lv wf_lv lv_parse_print lv_sound'.

Definition eq_ws_independent := ws_independent parse_eq print_eq wf_einsum eq_parse_print.
Definition dir_ws_independent := ws_independent parse_dir print_dir wf_dir dir_parse_print.
Definition rt_ws_independent := ws_independent parse_rt print_rt wf_rt rt_parse_print.
Definition st_ws_independent := ws_independent parse_st print_st wf_st st_parse_print.
Definition lv_ws_independent := ws_independent parse_lv print_lv wf_lv lv_parse_print.

Definition eq_print_injective := print_injective parse_eq print_eq wf_einsum eq_parse_print.
Definition dir_print_injective := print_injective parse_dir print_dir wf_dir dir_parse_print.
Definition rt_print_injective := print_injective parse_rt print_rt wf_rt rt_parse_print.
Definition st_print_injective := print_injective parse_st print_st wf_st st_parse_print.
Definition lv_print_injective := print_injective parse_lv print_lv wf_lv lv_parse_print.

Definition eq_outside_rejected := outside_rejected parse_eq print_eq wf_einsum eq_sound'.
Definition dir_outside_rejected := outside_rejected parse_dir print_dir wf_dir dir_sound'.
Definition rt_outside_rejected := outside_rejected parse_rt print_rt wf_rt rt_sound'.
Definition st_outside_rejected := outside_rejected parse_st print_st wf_st st_sound'.
Definition lv_outside_rejected := outside_rejected parse_lv print_lv wf_lv lv_sound'.

(* ------------------------------------------------------------------ what the views (the code's rewrites) mean *)

(* negative coefficients: "-" NUMBER is the negated integer; the sign of zero and leading zeros do not matter *)
Lemma coef_neg ds x : coef (ITimes true ds x) = (- coef (ITimes false ds x))%Z.
Proof. reflexivity. Qed.
Lemma coef_leading_zeros neg z ds x : all_chars (fun c => Ascii.eqb c "0"%char) z = true ->
  coef (ITimes neg (z ++ ds)%string x) = coef (ITimes neg ds x).
Proof. intros H. destruct neg; simpl; now rewrite value_leading_zeros. Qed.

(* the view of an index term determines the variable and the signed coefficient, never the spelling *)
Lemma view_iterm_spec t : view_iterm t = match t with IJust x => x | ITimes _ _ x => (show_Z (coef t) ++ "*" ++ x)%string end.
Proof. destruct t; reflexivity. Qed.

(* default style = pos *)
Lemma st_default_pos x : view_st (StBare x) = view_st (StPos x) /\ st_is_coord (StBare x) = false.
Proof. split; reflexivity. Qed.
Lemma st_view_coord a : st_is_coord a = true <-> exists x, a = StCoord x.
Proof. destruct a; simpl; split; intros H; try discriminate; eauto; destruct H as [y H]; discriminate. Qed.

(* instance count: NAME -> 1, NAME[0..N] -> N + 1 *)
Lemma lv_instances_spec a : lv_instances a = match a with LSingle _ => 1%N | LMultiple _ ds => (value ds + 1)%N end.
Proof. destruct a; reflexivity. Qed.
Lemma lv_instances_pos a : (1 <= lv_instances a)%N.
Proof. destruct a; simpl; lia. Qed.

(* ------------------------------------------------------------------ the hypotheses are satisfiable *)

Definition tb : string := String (ascii_of_nat 9) EmptyString.

Definition ex_einsum : einsum :=
  mkEinsum "Z" [[IJust "m"]; [ITimes false "2" "n"; ITimes true "03" "k"]]
    [TTimes [FTensor "A" [[ITimes true "0" "k"; IJust "m"]; [IJust "n"]]; FVar "take"];
     TTake [FTensor "take" [[IJust "m"]]; FTensor "B" []; FVar "b"] "007"].
Definition ex_ws : list string := [" "; ""; tb; ""; " " ++ tb; ""; ""; ""; " "; ""; ""; ""; "  "; " "]%string.

Example ex_einsum_wf : wf_einsum ex_einsum = true /\ blanks ex_ws = true.
Proof. split; reflexivity. Qed.
Example ex_einsum_roundtrip : parse_eq (print_eq ex_einsum ex_ws) = Some ex_einsum.
Proof. apply eq_parse_print; reflexivity. Qed.
Example ex_einsum_view :
  option_map view_einsum (parse_eq (print_eq ex_einsum ex_ws)) = Some "Z[m,2*n+-3*k]=A[0*k+m,n]*take+take(take[m],B[],b,7)".
Proof. vm_compute. reflexivity. Qed.
Example ex_take_needs_paren : parse_eq "Z[m] = take (A[m], B[m], 1)" = None /\ parse_eq "Z[m] = take(A[m], B[m], 1)" <> None.
Proof. split; vm_compute; [reflexivity|discriminate]. Qed.
Example ex_float_rejected : parse_eq "Z[m] = A[2.5*m]" = None /\ parse_dir "uniform_shape(4.5)" = None /\ parse_lv "PE[0..1e1]" = None.
Proof. repeat split; vm_compute; reflexivity. Qed.
Example ex_dir : parse_dir (print_dir (DUOcc "A" (SzInt "016")) [" "; " "; tb; ""; ""; " "]) = Some (DUOcc "A" (SzInt "016")).
Proof. apply dir_parse_print; reflexivity. Qed.
Example ex_rt : parse_rt (print_rt (RTuple ["K"; "M1"; "_n"]) [""; " "; ""; tb; ""; ""; ""; " "]) = Some (RTuple ["K"; "M1"; "_n"]).
Proof. apply rt_parse_print; reflexivity. Qed.
Example ex_st : parse_st (print_st (StCoord "coord") [tb; " "; " "]) = Some (StCoord "coord") /\ parse_st "K. pos" = None.
Proof. split; [apply st_parse_print; reflexivity|vm_compute; reflexivity]. Qed.
Example ex_lv : parse_lv (print_lv (LMultiple "PE" "015") [""; " "; " "; ""; " "]) = Some (LMultiple "PE" "015")
               /\ lv_instances (LMultiple "PE" "015") = 16%N /\ parse_lv "PE[0 ..15]" = None.
Proof. split; [apply lv_parse_print; reflexivity|split; vm_compute; reflexivity]. Qed.
