(* Proofs about Model/RankTy.v (C07, static half): the checker `chk` / `rankty_ok` is sound for
   the all-paths rank-id semantics `sem`:

     chk_sound         : chk C s = ROk C' -> for every state S that C describes (le S C), no path of
                         s from S goes bad, and every path that ends, ends in a state C' describes;
     rankty_sound      : rankty_ok ctx p = true -> no execution of p from the initial state goes bad and
                         every terminating execution ends in a state satisfying `post ctx`;
     sem_frame         : on every path that does not go bad, every user-supplied tensor object keeps its
                         rank ids (whatever the checker says);
     run_path_sem      : the deterministic path runner only produces paths of `sem` (for the examples).

   The join / loop-invariant candidates (`widen`) are NOT trusted: only `leb` is, and leb_sound is proved.
   Everything is closed under the global context. *)
From Coq Require Import String List Bool PArith ZArith FMapPositive Lia.
Require Import TV.Model.Py TV.Model.RankTy TV.Proofs.ClosedProofs.
Import ListNotations.

(* ------------------------------------------------------------------------------------ *)
(* 0. the result monad                                                                   *)

Lemma rbind_ok : forall A B (r : rres A) (f : A -> rres B) b,
  rbind r f = ROk b -> exists a, r = ROk a /\ f a = ROk b.
Proof. intros A B [a|w|x] f b H; simpl in H; try discriminate. eauto. Qed.

(* s may do what c does, or stop at an unbound name *)
Definition mono {A} (s c : rres A) : Prop :=
  forall r, c = ROk r -> s = ROk r \/ exists y, s = RUnbound y.

Lemma mono_refl : forall A (r : rres A), mono r r.
Proof. intros A r x H. left. exact H. Qed.

Lemma mono_bind : forall A B (s c : rres A) (f g : A -> rres B),
  mono s c -> (forall a, mono (f a) (g a)) -> mono (rbind s f) (rbind c g).
Proof.
  intros A B s c f g Hm Hf r H. apply rbind_ok in H. destruct H as [a [Hc Hg]].
  destruct (Hm a Hc) as [Hs|[y Hs]]; rewrite Hs; simpl.
  - apply (Hf a r Hg).
  - right. eauto.
Qed.

Lemma mono_bind_same : forall A B (s c : rres A) (f : A -> rres B),
  mono s c -> mono (rbind s f) (rbind c f).
Proof. intros. apply mono_bind; [assumption|intros; apply mono_refl]. Qed.

(* ------------------------------------------------------------------------------------ *)
(* 1. decidable equalities                                                               *)

Lemma prov_eqb_eq : forall a b, prov_eqb a b = true -> a = b.
Proof. intros [] []; simpl; congruence. Qed.

Section PvalInd.
  Variable P : pval -> Prop.
  Hypothesis HFib : forall p, P (PvFib p).
  Hypothesis HOther : P PvOther.
  Hypothesis HTup : forall l, Forall P l -> P (PvTup l).
  Fixpoint pval_ind' (v : pval) : P v :=
    match v as v0 return P v0 with
    | PvFib p => HFib p
    | PvOther => HOther
    | PvTup l => HTup l ((fix go (l : list pval) : Forall P l :=
                            match l with
                            | [] => Forall_nil P
                            | x :: l' => Forall_cons x (pval_ind' x) (go l')
                            end) l)
    end.
End PvalInd.

Lemma pval_eqb_eq : forall a b, pval_eqb a b = true -> a = b.
Proof.
  induction a as [p| |l IH] using pval_ind'; intros b H; destruct b as [q|m|]; simpl in H; try discriminate.
  - apply prov_eqb_eq in H. congruence.
  - reflexivity.
  - f_equal. revert m H. induction IH as [|x l Hx _ IHl]; intros m H; destruct m as [|y m]; try discriminate.
    + reflexivity.
    + apply andb_true_iff in H. destruct H as [H1 H2]. f_equal; [apply Hx; exact H1|apply IHl; exact H2].
Qed.

Lemma strs_eqb_eq : forall a b, strs_eqb a b = true -> a = b.
Proof.
  induction a as [|x a IH]; intros [|y b] H; simpl in H; try discriminate.
  - reflexivity.
  - apply andb_true_iff in H. destruct H as [H1 H2]. apply String.eqb_eq in H1. f_equal; [exact H1|apply IH; exact H2].
Qed.

Lemma tobj_eqb_eq : forall a b, tobj_eqb a b = true -> a = b.
Proof.
  intros [i1 o1 d1] [i2 o2 d2] H. unfold tobj_eqb in H. simpl in H.
  apply andb_true_iff in H. destruct H as [H H3]. apply andb_true_iff in H. destruct H as [H1 H2].
  apply strs_eqb_eq in H1. apply prov_eqb_eq in H2. apply prov_eqb_eq in H3. congruence.
Qed.

Lemma aval_eqb_nt_eq : forall a b, aval_eqb_nt a b = true -> a = b.
Proof.
  intros [c|p|p|p|g|] [c'|q|q|q|h|] H; simpl in H; try discriminate;
    try (apply pval_eqb_eq in H; congruence).
  apply String.eqb_eq in H. congruence.
Qed.

(* ------------------------------------------------------------------------------------ *)
(* 2. the order on states                                                                *)

Definition wf (A : st) : Prop :=
  (forall x b c, PM.find x (env A) = Some (b, ATensor c) -> PM.find c (heap A) <> None) /\
  (forall c o, PM.find c (heap A) = Some o -> Pos.lt c (next A)).

Definition vle (hA hB : PM.t tobj) (v w : aval) : Prop :=
  w = ATop \/
  match v, w with
  | ATensor ca, ATensor cb => exists o, PM.find ca hA = Some o /\ PM.find cb hB = Some o
  | ATensor _, _ | _, ATensor _ => False
  | _, _ => v = w
  end.

(* A <= B: every claim of B holds of A.  absent in B: unbound in A; (must, w) in B: if must then
   bound in A, and if bound in A then its value is w (or w is ATop); two tensor variables of B
   that are both tensor variables of A refer to the same object in A iff they do in B *)
Definition le (A B : st) : Prop :=
  wf A /\ wf B /\
  (forall x, match PM.find x (env B) with
             | None => PM.find x (env A) = None
             | Some (mb, w) => match PM.find x (env A) with
                               | None => mb = false
                               | Some (ma, v) => (mb = true -> ma = true) /\ vle (heap A) (heap B) v w
                               end
             end) /\
  (forall x y ba ca ba' ca' bb cb bb' cb',
      PM.find x (env A) = Some (ba, ATensor ca) -> PM.find y (env A) = Some (ba', ATensor ca') ->
      PM.find x (env B) = Some (bb, ATensor cb) -> PM.find y (env B) = Some (bb', ATensor cb') ->
      (ca = ca' <-> cb = cb')).

Lemma wfb_wf : forall A, wfb A = true -> wf A.
Proof.
  intros A H. unfold wfb in H. apply andb_true_iff in H. destruct H as [H1 H2].
  rewrite forallb_forall in H1, H2. split.
  - intros x b c Hx. apply PM.elements_correct in Hx. specialize (H1 _ Hx). simpl in H1.
    destruct (PM.find c (heap A)); [discriminate|discriminate H1].
  - intros c o Hc. apply PM.elements_correct in Hc. specialize (H2 _ Hc). simpl in H2.
    apply Pos.ltb_lt. exact H2.
Qed.

Lemma vleb_vle : forall A B v w, vleb A B v w = true -> vle (heap A) (heap B) v w.
Proof.
  intros A B v w H. unfold vleb in H. unfold vle.
  destruct w as [cb|p|p|p|g|].
  - right. destruct v as [ca|p|p|p|g|]; try discriminate.
    destruct (PM.find ca (heap A)) as [oa|]; [|discriminate].
    destruct (PM.find cb (heap B)) as [ob|]; [|discriminate].
    apply tobj_eqb_eq in H. subst ob. exists oa. split; reflexivity.
  - right. apply aval_eqb_nt_eq in H. subst v. reflexivity.
  - right. apply aval_eqb_nt_eq in H. subst v. reflexivity.
  - right. apply aval_eqb_nt_eq in H. subst v. reflexivity.
  - right. apply aval_eqb_nt_eq in H. subst v. reflexivity.
  - left. reflexivity.
Qed.

Lemma in_tensor_vars : forall A x b c, PM.find x (env A) = Some (b, ATensor c) -> In (x, c) (tensor_vars A).
Proof.
  intros A x b c H. apply PM.elements_correct in H. unfold tensor_vars. apply in_flat_map.
  exists (x, (b, ATensor c)). split; [exact H|simpl; left; reflexivity].
Qed.

Lemma leb_sound : forall A B, leb A B = true -> le A B.
Proof.
  intros A B H. unfold leb in H.
  apply andb_true_iff in H. destruct H as [H H5]. apply andb_true_iff in H. destruct H as [H H4].
  apply andb_true_iff in H. destruct H as [H H3]. apply andb_true_iff in H. destruct H as [H1 H2].
  rewrite forallb_forall in H3, H4, H5.
  split; [apply wfb_wf; exact H1|]. split; [apply wfb_wf; exact H2|]. split.
  - intros x. destruct (PM.find x (env B)) as [[mb w]|] eqn:EB.
    + apply PM.elements_correct in EB. specialize (H4 _ EB). simpl in H4.
      destruct (PM.find x (env A)) as [[ma v]|].
      * apply andb_true_iff in H4. destruct H4 as [Hi Hv]. split.
        -- intros Hm. subst mb. simpl in Hi. exact Hi.
        -- apply vleb_vle. exact Hv.
      * destruct mb; [discriminate H4|reflexivity].
    + destruct (PM.find x (env A)) as [v|] eqn:EA; [|reflexivity].
      apply PM.elements_correct in EA. specialize (H3 _ EA). simpl in H3. rewrite EB in H3. discriminate.
  - intros x y ba ca ba' ca' bb cb bb' cb' Ax Ay Bx By.
    pose proof (in_tensor_vars _ _ _ _ Bx) as Ix. pose proof (in_tensor_vars _ _ _ _ By) as Iy.
    specialize (H5 _ Ix). rewrite forallb_forall in H5. specialize (H5 _ Iy). simpl in H5.
    rewrite Ax, Ay in H5. apply Bool.eqb_prop in H5.
    split; intros E.
    + apply Pos.eqb_eq. rewrite <- H5. apply Pos.eqb_eq. exact E.
    + apply Pos.eqb_eq. rewrite H5. apply Pos.eqb_eq. exact E.
Qed.

Lemma vle_refl : forall h v, (forall c, v = ATensor c -> PM.find c h <> None) -> vle h h v v.
Proof.
  intros h v H. unfold vle. destruct v as [c|p|p|p|g|]; try (right; reflexivity).
  right. destruct (PM.find c h) as [o|] eqn:E; [exists o; split; reflexivity|].
  exfalso. apply (H c eq_refl). exact E.
Qed.

Lemma le_refl : forall A, wf A -> le A A.
Proof.
  intros A W. split; [exact W|]. split; [exact W|]. split.
  - intros x. destruct (PM.find x (env A)) as [[m v]|] eqn:E; [|reflexivity]. split; [tauto|].
    apply vle_refl. intros c Hc. subst v. destruct W as [W1 _]. eapply W1. exact E.
  - intros x y ba ca ba' ca' bb cb bb' cb' Ax Ay Bx By. rewrite Ax in Bx. rewrite Ay in By.
    inversion Bx. inversion By. subst. tauto.
Qed.

Lemma vle_trans : forall hA hB hC u v w, vle hA hB u v -> vle hB hC v w -> vle hA hC u w.
Proof.
  unfold vle. intros hA hB hC u v w [H1|H1] [H2|H2]; try (left; exact H2).
  - subst v. destruct w; try (destruct H2; fail); try discriminate H2. left; reflexivity.
  - right.
    destruct u as [ca|p|p|p|g|]; destruct v as [cb|q|q|q|h|]; try (destruct H1; fail); try discriminate H1;
      destruct w as [cc|r|r|r|k|]; try (destruct H2; fail); try discriminate H2; try congruence.
    destruct H1 as [o [Ha Hb]]. destruct H2 as [o' [Hb' Hc]]. rewrite Hb in Hb'. inversion Hb'. subst o'.
    exists o. split; assumption.
Qed.

Lemma le_trans : forall A B C, le A B -> le B C -> le A C.
Proof.
  intros A B C [WA [WB [P1 Q1]]] [_ [WC [P2 Q2]]].
  split; [exact WA|]. split; [exact WC|]. split.
  - intros x. specialize (P1 x). specialize (P2 x).
    destruct (PM.find x (env C)) as [[mc w]|].
    + destruct (PM.find x (env B)) as [[mb v]|].
      * destruct (PM.find x (env A)) as [[ma u]|].
        -- destruct P1 as [M1 V1]. destruct P2 as [M2 V2]. split; [tauto|]. eapply vle_trans; eassumption.
        -- destruct P2 as [M2 _]. destruct mc; [|reflexivity]. rewrite (M2 eq_refl) in P1. discriminate.
      * rewrite P1. exact P2.
    + rewrite P2 in P1. exact P1.
  - intros x y ba ca ba' ca' bc cc bc' cc' Ax Ay Cx Cy.
    pose proof (P1 x) as P1x. pose proof (P2 x) as P2x. pose proof (P1 y) as P1y. pose proof (P2 y) as P2y.
    rewrite Ax in P1x. rewrite Cx in P2x. rewrite Ay in P1y. rewrite Cy in P2y.
    destruct (PM.find x (env B)) as [[mbx vx]|] eqn:Bx; [|discriminate P1x].
    destruct (PM.find y (env B)) as [[mby vy]|] eqn:By; [|discriminate P1y].
    destruct P1x as [_ V1x]. destruct P2x as [_ V2x]. destruct P1y as [_ V1y]. destruct P2y as [_ V2y].
    assert (Tx : exists cb, vx = ATensor cb).
    { unfold vle in V1x, V2x. destruct V2x as [E|V2x]; [discriminate E|].
      destruct vx as [cb|p|p|p|g|]; try (destruct V2x; fail); try discriminate V2x. eauto. }
    assert (Ty : exists cb, vy = ATensor cb).
    { unfold vle in V1y, V2y. destruct V2y as [E|V2y]; [discriminate E|].
      destruct vy as [cb|p|p|p|g|]; try (destruct V2y; fail); try discriminate V2y. eauto. }
    destruct Tx as [cbx Ex]. destruct Ty as [cby Ey]. subst vx vy.
    rewrite (Q1 x y _ _ _ _ _ _ _ _ Ax Ay Bx By). apply (Q2 x y _ _ _ _ _ _ _ _ Bx By Cx Cy).
Qed.

(* ------------------------------------------------------------------------------------ *)
(* 3. expression evaluation is monotone in the lookup function                           *)

Fixpoint aevaldict (rh : positive -> rres rval) (l : list (expr * expr)) : rres (list rval) :=
  match l with
  | [] => ROk []
  | (k, v) :: l' => dor vk <- aeval rh k; dor vv <- aeval rh v; dor r <- aevaldict rh l'; ROk (vk :: vv :: r)
  end.

Lemma aeval_inner_evals : forall rh l,
  (fix go (l : list expr) : rres (list rval) :=
     match l with
     | [] => ROk []
     | e :: l' => dor v <- aeval rh e; dor vs <- go l'; ROk (v :: vs)
     end) l = aevals rh l.
Proof.
  induction l as [|e l IH]; simpl; [reflexivity|].
  destruct (aeval rh e); simpl; try reflexivity. rewrite IH. reflexivity.
Qed.

Lemma aeval_inner_kw : forall rh l,
  (fix go (l : list (string * expr)) : rres (list (string * rval)) :=
     match l with
     | [] => ROk []
     | (k, e) :: l' => dor v <- aeval rh e; dor vs <- go l'; ROk ((k, v) :: vs)
     end) l = aevalkw rh l.
Proof.
  induction l as [|[k e] l IH]; simpl; [reflexivity|].
  destruct (aeval rh e); simpl; try reflexivity. rewrite IH. reflexivity.
Qed.

Lemma aeval_inner_dict : forall rh l,
  (fix go (l : list (expr * expr)) : rres (list rval) :=
     match l with
     | [] => ROk []
     | (k, v) :: l' => dor vk <- aeval rh k; dor vv <- aeval rh v; dor r <- go l'; ROk (vk :: vv :: r)
     end) l = aevaldict rh l.
Proof.
  induction l as [|[k v] l IH]; simpl; [reflexivity|].
  destruct (aeval rh k); simpl; try reflexivity.
  destruct (aeval rh v); simpl; try reflexivity. rewrite IH. reflexivity.
Qed.

Definition call_fun (vf : rval) (kw : list (string * expr)) (vs : list rval) (kvs : list (string * rval)) : rres rval :=
  match vf with
  | RGlob g =>
      if String.eqb g "Tensor" then
        match kw_find "rank_ids" kw with
        | Some ie => match lit_ids ie with
                     | Some ids => ROk (RTensor (mkT ids Prog Prog))
                     | None => RBad "rank_ids is not a literal list of strings" end
        | None => RBad "Tensor: rank_ids missing"
        end
      else global_call g vs kvs
  | RP PvOther => ROk (RP PvOther)
  | _ => RBad "call of a non-function"
  end.

Lemma aeval_call_attr_eq : forall rh re m args kw,
  aeval rh (ECall (EAttr re m) args kw) =
  (dor vr <- aeval rh re; dor vs <- aevals rh args; dor kvs <- aevalkw rh kw; method_call vr m vs kvs).
Proof. intros. simpl. rewrite aeval_inner_evals, aeval_inner_kw. reflexivity. Qed.

Lemma aeval_call_other_eq : forall rh f args kw,
  (forall re m, f <> EAttr re m) ->
  aeval rh (ECall f args kw) =
  (dor vf <- aeval rh f; dor vs <- aevals rh args; dor kvs <- aevalkw rh kw; call_fun vf kw vs kvs).
Proof.
  intros rh f args kw H. destruct f; try (exfalso; eapply H; reflexivity);
    simpl; rewrite ?aeval_inner_evals, ?aeval_inner_kw; reflexivity.
Qed.

Lemma aeval_tuple_eq : forall rh l,
  aeval rh (ETuple l) =
  (dor vs <- aevals rh l;
   if forallb rinert vs then ROk (RP PvOther) else RBad "a tensor / fiber / payload is stored in a tuple or list").
Proof. intros. simpl. rewrite aeval_inner_evals. reflexivity. Qed.

Lemma aeval_list_eq : forall rh l,
  aeval rh (EList l) =
  (dor vs <- aevals rh l;
   if forallb rinert vs then ROk (RP PvOther) else RBad "a tensor / fiber / payload is stored in a tuple or list").
Proof. intros. simpl. rewrite aeval_inner_evals. reflexivity. Qed.

Lemma aeval_dict_eq : forall rh l,
  aeval rh (EDict l) =
  (dor vs <- aevaldict rh l;
   if forallb rinert vs then ROk (RP PvOther) else RBad "a tensor / fiber / payload is stored in a dict").
Proof. intros. simpl. rewrite aeval_inner_dict. reflexivity. Qed.

Section Mono.
  Variables rS rC : positive -> rres rval.
  Hypothesis Hr : forall x, mono (rS x) (rC x).

  Let P (e : expr) : Prop := mono (aeval rS e) (aeval rC e).

  Lemma aevals_mono_F : forall l, Forall P l -> mono (aevals rS l) (aevals rC l).
  Proof.
    induction 1 as [|e l He _ IH]; simpl; [apply mono_refl|].
    apply mono_bind; [exact He|]. intros v. apply mono_bind; [exact IH|]. intros; apply mono_refl.
  Qed.

  Lemma aevalkw_mono_F : forall l, Forall (fun p => P (snd p)) l -> mono (aevalkw rS l) (aevalkw rC l).
  Proof.
    induction 1 as [|[k e] l He _ IH]; simpl; [apply mono_refl|].
    apply mono_bind; [exact He|]. intros v. apply mono_bind; [exact IH|]. intros; apply mono_refl.
  Qed.

  Lemma aevaldict_mono_F : forall l, Forall (fun p => P (fst p) /\ P (snd p)) l -> mono (aevaldict rS l) (aevaldict rC l).
  Proof.
    induction 1 as [|[k v] l [Hk Hv] _ IH]; simpl; [apply mono_refl|].
    apply mono_bind; [exact Hk|]. intros vk. apply mono_bind; [exact Hv|]. intros vv.
    apply mono_bind; [exact IH|]. intros; apply mono_refl.
  Qed.

  Lemma aeval_mono_aux : forall e, P e /\ (forall re m, e = EAttr re m -> P re).
  Proof.
    induction e using expr_ind'; (split; [|try (intros re m' E; discriminate E)]); unfold P in *.
    - simpl. apply Hr.
    - simpl. apply mono_refl.
    - simpl. apply mono_refl.
    - simpl. apply mono_refl.
    - simpl. apply mono_refl.
    - (* EBin *) simpl. destruct IHe1 as [I1 _]. destruct IHe2 as [I2 _].
      apply mono_bind; [exact I1|]. intros va. apply mono_bind; [exact I2|]. intros vb. apply mono_refl.
    - simpl. destruct IHe as [I _]. apply mono_bind_same. exact I.
    - simpl. destruct IHe1 as [I1 _]. destruct IHe2 as [I2 _].
      apply mono_bind; [exact I1|]. intros va. apply mono_bind_same. exact I2.
    - (* ECall *)
      assert (HA : Forall (fun e => mono (aeval rS e) (aeval rC e)) args).
      { eapply Forall_impl; [|exact H]. intros a [Ha _]. exact Ha. }
      assert (HK : Forall (fun p => mono (aeval rS (snd p)) (aeval rC (snd p))) kw).
      { eapply Forall_impl; [|exact H0]. intros a [Ha _]. exact Ha. }
      destruct IHe as [If Ire].
      assert (D : (exists re m, e = EAttr re m) \/ (forall re m, e <> EAttr re m)).
      { destruct e; try (right; intros re m' E; discriminate E). left. eauto. }
      destruct D as [[re [m E]]|D].
      + subst e. rewrite !aeval_call_attr_eq.
        apply mono_bind; [apply (Ire re m eq_refl)|]. intros vr.
        apply mono_bind; [apply aevals_mono_F; exact HA|]. intros vs.
        apply mono_bind_same. apply aevalkw_mono_F. exact HK.
      + rewrite !(aeval_call_other_eq _ _ _ _ D).
        apply mono_bind; [exact If|]. intros vf.
        apply mono_bind; [apply aevals_mono_F; exact HA|]. intros vs.
        apply mono_bind_same. apply aevalkw_mono_F. exact HK.
    - (* EAttr *) simpl. destruct IHe as [I _]. apply mono_bind_same. exact I.
    - intros re m' E. inversion E. subst. destruct IHe as [I _]. exact I.
    - (* ESub *) simpl. destruct IHe1 as [I1 _]. destruct IHe2 as [I2 _].
      apply mono_bind; [exact I1|]. intros va. apply mono_bind_same. exact I2.
    - rewrite !aeval_tuple_eq. apply mono_bind_same. apply aevals_mono_F.
      eapply Forall_impl; [|exact H]. intros a [Ha _]. exact Ha.
    - rewrite !aeval_list_eq. apply mono_bind_same. apply aevals_mono_F.
      eapply Forall_impl; [|exact H]. intros a [Ha _]. exact Ha.
    - rewrite !aeval_dict_eq. apply mono_bind_same. apply aevaldict_mono_F.
      eapply Forall_impl; [|exact H]. intros a [[Ha _] [Hb _]]. split; assumption.
    - simpl. apply mono_refl.
    - simpl. apply mono_refl.
  Qed.

  Lemma aeval_mono : forall e, mono (aeval rS e) (aeval rC e).
  Proof. intros e. apply aeval_mono_aux. Qed.

  Lemma aevals_mono : forall l, mono (aevals rS l) (aevals rC l).
  Proof. intros l. apply aevals_mono_F. apply Forall_forall. intros e _. apply aeval_mono. Qed.

  Lemma aevalkw_mono : forall l, mono (aevalkw rS l) (aevalkw rC l).
  Proof. intros l. apply aevalkw_mono_F. apply Forall_forall. intros e _. apply aeval_mono. Qed.

  Lemma alloc_form_mono : forall e, mono (alloc_form rS e) (alloc_form rC e).
  Proof.
    intros e. destruct e; try apply mono_refl.
    destruct e; try apply mono_refl.
    - (* ECall (EName g) *) simpl. apply mono_bind; [apply Hr|]. intros vg.
      destruct vg; try apply mono_refl. match goal with |- mono (if ?b then _ else _) _ => destruct b end; [|apply mono_refl].
      apply mono_bind; [apply aevals_mono|]. intros _. apply mono_bind_same. apply aevalkw_mono.
    - (* ECall (EAttr e m) *) destruct e; try apply mono_refl.
      simpl. apply mono_bind; [apply Hr|]. intros vy.
      destruct vy; try apply mono_refl.
      + match goal with |- mono (if ?b then _ else _) _ => destruct b end; [|apply mono_refl].
        apply mono_bind; [apply aevals_mono|]. intros _. apply mono_bind_same. apply aevalkw_mono.
      + match goal with |- mono (if ?b then _ else _) _ => destruct b end; [|apply mono_refl].
        apply mono_bind; [apply aevals_mono|]. intros _. apply mono_bind_same. apply aevalkw_mono.
  Qed.

  Lemma assign_sub_chk_mono : forall a i e, mono (assign_sub_chk rS a i e) (assign_sub_chk rC a i e).
  Proof.
    intros. unfold assign_sub_chk. apply mono_bind; [apply aeval_mono|]. intros va.
    apply mono_bind; [apply aeval_mono|]. intros _. apply mono_bind_same. apply aeval_mono.
  Qed.

  Lemma aug_chk_mono : forall op t e, mono (aug_chk rS op t e) (aug_chk rC op t e).
  Proof.
    intros. unfold aug_chk. apply mono_bind; [apply aeval_mono|]. intros v. destruct t.
    - apply mono_bind_same. apply Hr.
    - apply mono_bind; [apply aeval_mono|]. intros va. apply mono_bind_same. apply aeval_mono.
  Qed.

  Lemma setrank_ids_mono : forall args kw, mono (setrank_ids rS args kw) (setrank_ids rC args kw).
  Proof.
    intros. unfold setrank_ids. apply mono_bind; [apply aevals_mono|]. intros _.
    apply mono_bind_same. apply aevalkw_mono.
  Qed.
End Mono.

(* ------------------------------------------------------------------------------------ *)
(* 4. the state operations preserve the order                                            *)

Lemma rho_mono : forall S C, le S C -> forall x, mono (rho S x) (rho C x).
Proof.
  intros S C [WS [WC [Pw _]]] x r H. unfold rho in *. specialize (Pw x).
  destruct (PM.find x (env C)) as [[mb w]|]; [|discriminate].
  destruct (PM.find x (env S)) as [[ma v]|]; [|right; eauto].
  destruct Pw as [_ V]. left. destruct V as [E|V].
  - subst w. discriminate.
  - destruct v as [ca|p|p|p|g|]; destruct w as [cb|q|q|q|h|];
      try (destruct V; fail); try discriminate V; try (inversion V; subst; exact H).
    destruct V as [o [Ha Hb]]. rewrite Ha. rewrite Hb in H. exact H.
Qed.

Lemma le_bind_gen : forall S C x v w,
  le S C ->
  vle (heap S) (heap C) v w ->
  (forall cs, v = ATensor cs -> PM.find cs (heap S) <> None) ->
  (forall cc, w = ATensor cc -> PM.find cc (heap C) <> None) ->
  (forall cs cc z bz cz bz' cz', v = ATensor cs -> w = ATensor cc ->
      PM.find z (env S) = Some (bz, ATensor cz) -> PM.find z (env C) = Some (bz', ATensor cz') ->
      (cs = cz <-> cc = cz')) ->
  le (bind x v S) (bind x w C).
Proof.
  intros S C x v w [WS [WC [Pw Al]]] V HS HC HA.
  split; [|split; [|split]].
  - destruct WS as [W1 W2]. split; simpl.
    + intros x' b c F. destruct (Pos.eq_dec x' x) as [E|N].
      * subst x'. rewrite PM.gss in F. inversion F. subst. apply HS. reflexivity.
      * rewrite PM.gso in F by exact N. eapply W1. exact F.
    + exact W2.
  - destruct WC as [W1 W2]. split; simpl.
    + intros x' b c F. destruct (Pos.eq_dec x' x) as [E|N].
      * subst x'. rewrite PM.gss in F. inversion F. subst. apply HC. reflexivity.
      * rewrite PM.gso in F by exact N. eapply W1. exact F.
    + exact W2.
  - intros x'. simpl. destruct (Pos.eq_dec x' x) as [E|N].
    + subst x'. rewrite !PM.gss. split; [tauto|exact V].
    + rewrite !PM.gso by exact N. apply Pw.
  - intros x1 x2 ba ca ba' ca' bb cb bb' cb'. simpl. intros A1 A2 B1 B2.
    destruct (Pos.eq_dec x1 x) as [E1|N1]; destruct (Pos.eq_dec x2 x) as [E2|N2].
    + subst x1 x2. rewrite PM.gss in A1, A2, B1, B2.
      assert (ca = ca') by congruence. assert (cb = cb') by congruence. tauto.
    + subst x1. rewrite PM.gss in A1, B1. rewrite PM.gso in A2, B2 by exact N2.
      inversion A1. inversion B1. subst. eapply HA; try reflexivity; eassumption.
    + subst x2. rewrite PM.gss in A2, B2. rewrite PM.gso in A1, B1 by exact N1.
      inversion A2. inversion B2. subst.
      pose proof (HA ca' cb' x1 ba ca bb cb eq_refl eq_refl A1 B1) as I.
      split; intros E; symmetry; apply I; symmetry; exact E.
    + rewrite PM.gso in A1, B1 by exact N1. rewrite PM.gso in A2, B2 by exact N2.
      eapply Al; eassumption.
Qed.

Definition nontensor (a : aval) : Prop := match a with ATensor _ => False | _ => True end.

Lemma le_bind_nt : forall S C x a, le S C -> nontensor a -> le (bind x a S) (bind x a C).
Proof.
  intros S C x a L N. apply le_bind_gen; try exact L.
  - unfold vle. destruct a; try (right; reflexivity). destruct N.
  - intros cs E. subst a. destruct N.
  - intros cs E. subst a. destruct N.
  - intros cs cc z bz cz bz' cz' E. subst a. destruct N.
Qed.

Lemma le_copy : forall S C x y ma v mb w,
  le S C -> PM.find y (env S) = Some (ma, v) -> PM.find y (env C) = Some (mb, w) ->
  le (bind x v S) (bind x w C).
Proof.
  intros S C x y ma v mb w L FS FC. pose proof L as [WS [WC [Pw Al]]].
  apply le_bind_gen; try exact L.
  - specialize (Pw y). rewrite FC, FS in Pw. apply Pw.
  - intros cs E. subst v. destruct WS as [W1 _]. eapply W1. exact FS.
  - intros cc E. subst w. destruct WC as [W1 _]. eapply W1. exact FC.
  - intros cs cc z bz cz bz' cz' Ev Ew Z1 Z2. subst v w. eapply Al; eassumption.
Qed.

Lemma le_alloc : forall S C o, le S C -> le (snd (alloc o S)) (snd (alloc o C)).
Proof.
  intros S C o [WS [WC [Pw Al]]]. unfold alloc. simpl.
  assert (WX : forall X, wf X -> wf (mkS (env X) (PM.add (next X) o (heap X)) (Pos.succ (next X)))).
  { intros X [W1 W2]. split; simpl.
    - intros x b c F. destruct (Pos.eq_dec c (next X)) as [E|N].
      + subst c. rewrite PM.gss. discriminate.
      + rewrite PM.gso by exact N. eapply W1. exact F.
    - intros c o' F. destruct (Pos.eq_dec c (next X)) as [E|N].
      + subst c. lia.
      + rewrite PM.gso in F by exact N. specialize (W2 _ _ F). lia. }
  split; [apply WX; exact WS|]. split; [apply WX; exact WC|]. split; simpl.
  - intros x. specialize (Pw x). destruct (PM.find x (env C)) as [[mb w]|]; [|exact Pw].
    destruct (PM.find x (env S)) as [[ma v]|]; [|exact Pw]. destruct Pw as [M V]. split; [exact M|].
    destruct V as [E|V]; [left; exact E|right].
    destruct v as [ca|p|p|p|g|]; destruct w as [cb|q|q|q|h|]; try exact V.
    destruct V as [o' [Ha Hb]]. exists o'. destruct WS as [_ WS2]. destruct WC as [_ WC2].
    pose proof (WS2 _ _ Ha). pose proof (WC2 _ _ Hb).
    rewrite !PM.gso by lia. split; assumption.
  - exact Al.
Qed.

Lemma le_alloc_bind : forall S C x o,
  le S C -> le (bind x (ATensor (next S)) (snd (alloc o S))) (bind x (ATensor (next C)) (snd (alloc o C))).
Proof.
  intros S C x o L. pose proof L as [WS [WC _]]. pose proof (le_alloc S C o L) as L1.
  apply le_bind_gen; try exact L1.
  - unfold vle. right. exists o. unfold alloc. simpl. rewrite !PM.gss. split; reflexivity.
  - intros cs E. inversion E. subst cs. unfold alloc. simpl. rewrite PM.gss. discriminate.
  - intros cs E. inversion E. subst cs. unfold alloc. simpl. rewrite PM.gss. discriminate.
  - intros cs cc z bz cz bz' cz' Ev Ew Z1 Z2. inversion Ev. inversion Ew. subst cs cc.
    unfold alloc in Z1, Z2. simpl in Z1, Z2.
    destruct WS as [WS1 WS2]. destruct WC as [WC1 WC2].
    assert (cz < next S)%positive.
    { destruct (PM.find cz (heap S)) as [o'|] eqn:F; [eapply WS2; exact F|]. exfalso. eapply WS1; eassumption. }
    assert (cz' < next C)%positive.
    { destruct (PM.find cz' (heap C)) as [o'|] eqn:F; [eapply WC2; exact F|]. exfalso. eapply WC1; eassumption. }
    split; intros E'; exfalso; lia.
Qed.

Lemma le_hset : forall S C y ma cs mb cc o,
  le S C -> PM.find y (env S) = Some (ma, ATensor cs) -> PM.find y (env C) = Some (mb, ATensor cc) ->
  le (hset cs o S) (hset cc o C).
Proof.
  intros S C y ma cs mb cc o [WS [WC [Pw Al]]] FS FC.
  assert (WX : forall X c, wf X -> PM.find c (heap X) <> None -> wf (hset c o X)).
  { intros X c [W1 W2] Hc. split; simpl.
    - intros x b c' F. destruct (Pos.eq_dec c' c) as [E|N].
      + subst c'. rewrite PM.gss. discriminate.
      + rewrite PM.gso by exact N. eapply W1. exact F.
    - intros c' o' F. destruct (Pos.eq_dec c' c) as [E|N].
      + subst c'. destruct (PM.find c (heap X)) as [o''|] eqn:G; [eapply W2; exact G|exfalso; apply Hc; reflexivity].
      + rewrite PM.gso in F by exact N. eapply W2. exact F. }
  split; [apply WX; [exact WS|destruct WS as [W1 _]; eapply W1; exact FS]|].
  split; [apply WX; [exact WC|destruct WC as [W1 _]; eapply W1; exact FC]|].
  split; simpl.
  - intros x. pose proof (Pw x) as Px. destruct (PM.find x (env C)) as [[mbx w]|] eqn:FCx; [|exact Px].
    destruct (PM.find x (env S)) as [[max v]|] eqn:FSx; [|exact Px]. destruct Px as [M V]. split; [exact M|].
    destruct V as [E|V]; [left; exact E|right].
    destruct v as [ca|p|p|p|g|]; destruct w as [cb|q|q|q|h|]; try exact V.
    destruct V as [o' [Ha Hb]].
    pose proof (Al x y _ _ _ _ _ _ _ _ FSx FS FCx FC) as I.
    destruct (Pos.eq_dec ca cs) as [E|N].
    + subst ca. assert (cb = cc) by (apply I; reflexivity). subst cb. exists o. rewrite !PM.gss. split; reflexivity.
    + assert (cb <> cc) by (intros E; apply N; apply I; exact E).
      exists o'. rewrite !PM.gso by assumption. split; assumption.
  - exact Al.
Qed.

Lemma le_bind_all : forall bs S C, le S C -> le (bind_all bs S) (bind_all bs C).
Proof.
  induction bs as [|[x v] bs IH]; intros S C L; simpl; [exact L|].
  apply IH. apply le_bind_nt; [exact L|exact I].
Qed.

Lemma bind_pat_mono : forall p v S C C', le S C -> bind_pat p v C = ROk C' ->
  exists S', bind_pat p v S = ROk S' /\ le S' C'.
Proof.
  intros p v S C C' L H. unfold bind_pat in *. apply rbind_ok in H. destruct H as [bs [Hb Hc]].
  inversion Hc. subst C'. rewrite Hb. simpl. eexists. split; [reflexivity|]. apply le_bind_all. exact L.
Qed.

Lemma for_elem_mono : forall S C e, le S C -> mono (for_elem S e) (for_elem C e).
Proof.
  intros S C e L. unfold for_elem. apply mono_bind_same. apply aeval_mono. apply rho_mono. exact L.
Qed.

(* ------------------------------------------------------------------------------------ *)
(* 5. one simple statement                                                               *)

Definition assign_gen (s : st) (x : positive) (e : expr) : rres st :=
  dor r <- alloc_form (rho s) e;
  match r with
  | Some o => ROk (bind x (ATensor (next s)) (snd (alloc o s)))
  | None =>
      dor v <- aeval (rho s) e;
      match rv_to_aval v with
      | Some a => ROk (bind x a s)
      | None => RBad "a tensor flows through an untracked expression"
      end
  end.

Lemma assign_name_eq : forall s x e,
  assign_name s x e =
  match e with
  | EName y => match PM.find y (env s) with None => RUnbound y | Some (_, v) => ROk (bind x v s) end
  | _ => assign_gen s x e
  end.
Proof. intros s x e. destruct e; reflexivity. Qed.

Lemma rv_to_aval_nt : forall v a, rv_to_aval v = Some a -> nontensor a.
Proof. intros [o|p|p|p|g] a H; simpl in H; inversion H; exact I. Qed.

Definition step_res (S : st) (r : rres st) (C' : st) : Prop :=
  (exists y, r = RUnbound y) \/ (exists S', r = ROk S' /\ le S' C').

Lemma assign_gen_mono : forall S C x e C', le S C -> assign_gen C x e = ROk C' -> step_res S (assign_gen S x e) C'.
Proof.
  intros S C x e C' L H. unfold assign_gen in *. apply rbind_ok in H. destruct H as [r [Hr H]].
  destruct (alloc_form_mono _ _ (rho_mono _ _ L) e r Hr) as [Hs|[y Hs]]; rewrite Hs; simpl;
    [|left; eauto].
  destruct r as [o|].
  - inversion H. subst C'. right. eexists. split; [reflexivity|]. apply le_alloc_bind. exact L.
  - apply rbind_ok in H. destruct H as [v [Hv H]].
    destruct (aeval_mono _ _ (rho_mono _ _ L) e v Hv) as [Hs'|[y Hs']]; rewrite Hs'; simpl; [|left; eauto].
    destruct (rv_to_aval v) as [a|] eqn:Ea; [|discriminate]. inversion H. subst C'.
    right. eexists. split; [reflexivity|]. apply le_bind_nt; [exact L|eapply rv_to_aval_nt; exact Ea].
Qed.

Lemma step_mono : forall S C s C', le S C -> step C s = ROk C' -> step_res S (step S s) C'.
Proof.
  intros S C s C' L H. destruct s as [t e|op t e|e|p e body|c a b]; simpl in *; try discriminate.
  - destruct t as [x|a i].
    + rewrite assign_name_eq in *. destruct e; try (eapply assign_gen_mono; eassumption).
      destruct (PM.find x0 (env C)) as [[mb w]|] eqn:FC; [|discriminate]. inversion H. subst C'.
      destruct (PM.find x0 (env S)) as [[ma v]|] eqn:FS; [|left; eauto].
      right. eexists. split; [reflexivity|]. eapply le_copy; eassumption.
    + apply rbind_ok in H. destruct H as [u [Hu H]]. inversion H. subst C'.
      destruct (assign_sub_chk_mono _ _ (rho_mono _ _ L) a i e u Hu) as [Hs|[y Hs]]; rewrite Hs; simpl.
      * right. eexists. split; [reflexivity|exact L].
      * left. eauto.
  - apply rbind_ok in H. destruct H as [u [Hu H]]. inversion H. subst C'.
    destruct (aug_chk_mono _ _ (rho_mono _ _ L) op t e u Hu) as [Hs|[y Hs]]; rewrite Hs; simpl.
    + right. eexists. split; [reflexivity|exact L].
    + left. eauto.
  - unfold expr_stmt in *. destruct (setrank_syntax e) as [[[y args] kw]|].
    + apply rbind_ok in H. destruct H as [ids [Hi H]].
      destruct (setrank_ids_mono _ _ (rho_mono _ _ L) args kw ids Hi) as [Hs|[z Hs]]; rewrite Hs; simpl; [|left; eauto].
      destruct (PM.find y (env C)) as [[mb w]|] eqn:FC; [|discriminate].
      destruct w as [cc|p|p|p|g|]; try discriminate.
      destruct (PM.find cc (heap C)) as [o|] eqn:HC; [|discriminate].
      destruct (t_oprov o) eqn:EP; [discriminate|].
      destruct (Nat.eqb (length ids) (length (t_ids o))) eqn:EL; [|discriminate].
      inversion H. subst C'.
      pose proof L as [_ [_ [Pw _]]]. specialize (Pw y). rewrite FC in Pw.
      destruct (PM.find y (env S)) as [[ma v]|] eqn:FS; [|left; eauto].
      destruct Pw as [_ [E|V]]; [discriminate E|].
      destruct v as [cs|p|p|p|g|]; try (destruct V; fail); try discriminate V.
      destruct V as [o' [Ha Hb]]. rewrite HC in Hb. inversion Hb. subst o'.
      rewrite Ha, EP, EL. right. eexists. split; [reflexivity|]. eapply le_hset; eassumption.
    + apply rbind_ok in H. destruct H as [v [Hv H]]. inversion H. subst C'.
      destruct (aeval_mono _ _ (rho_mono _ _ L) e v Hv) as [Hs|[y Hs]]; rewrite Hs; simpl.
      * right. eexists. split; [reflexivity|exact L].
      * left. eauto.
Qed.

(* ------------------------------------------------------------------------------------ *)
(* 6. the checker is sound for the all-paths semantics                                   *)

Lemma chk_inner_block_eq : forall ss c,
  (fix go (c : st) (ss : list stmt) {struct ss} : rres st :=
     match ss with
     | [] => ROk c
     | s :: ss' => dor c' <- chk c s; go c' ss'
     end) c ss = chk_block c ss.
Proof.
  induction ss as [|s ss IH]; intros c; simpl; [reflexivity|].
  destruct (chk c s); simpl; try reflexivity; apply IH.
Qed.

Lemma find_inv_ext : forall run1 run2, (forall i, run1 i = run2 i) ->
  forall k c inv, find_inv run1 k c inv = find_inv run2 k c inv.
Proof.
  intros run1 run2 E. induction k as [|k IH]; intros c inv; simpl; [reflexivity|].
  rewrite E. destruct (run2 inv); try reflexivity.
  destruct (leb c inv && leb a inv); [reflexivity|apply IH].
Qed.

Lemma find_inv_spec : forall run k c inv r, find_inv run k c inv = ROk r ->
  leb c r = true /\ exists c1, run r = ROk c1 /\ leb c1 r = true.
Proof.
  intros run. induction k as [|k IH]; intros c inv r H; simpl in H; [discriminate|].
  destruct (run inv) as [c1|w|x] eqn:R; try discriminate.
  destruct (leb c inv && leb c1 inv) eqn:B.
  - inversion H. subst r. apply andb_true_iff in B. destruct B as [B1 B2]. split; [exact B1|]. eauto.
  - eapply IH. exact H.
Qed.

Definition run_body (p : pat) (el : pval) (body : list stmt) (i : st) : rres st :=
  dor i' <- bind_pat p el i; chk_block i' body.

Lemma chk_for_eq : forall c p e body,
  chk c (SFor p e body) = (dor el <- for_elem c e; find_inv (run_body p el body) rounds c c).
Proof.
  intros c p e body. simpl. destruct (for_elem c e) as [el|w|x]; simpl; reflexivity.
Qed.

Lemma chk_if_eq : forall c cnd a b,
  chk c (SIf cnd a b) =
  (dor _ <- aeval (rho c) cnd; dor ca <- chk_block c a; dor cb <- chk_block c b;
   let j := widen ca cb in
   if leb ca j && leb cb j then ROk j else RBad "the two branches of an if cannot be joined").
Proof. intros. simpl. rewrite !chk_inner_block_eq. reflexivity. Qed.

Definition sound_stmt (s : stmt) : Prop :=
  forall C C', chk C s = ROk C' -> forall S, le S C ->
  (forall w, ~ sem S s (OBad w)) /\ (forall S', sem S s (OFine S') -> le S' C').

Definition sound_block (ss : list stmt) : Prop :=
  forall C C', chk_block C ss = ROk C' -> forall S, le S C ->
  (forall w, ~ sem_block S ss (OBad w)) /\ (forall S', sem_block S ss (OFine S') -> le S' C').

Lemma block_sound : forall ss, Forall sound_stmt ss -> sound_block ss.
Proof.
  induction 1 as [|s ss Hs _ IH]; intros C C' H S L.
  - simpl in H. inversion H. subst C'. split.
    + intros w B. inversion B.
    + intros S' F. inversion F. subst. exact L.
  - simpl in H. apply rbind_ok in H. destruct H as [C1 [H1 H2]].
    destruct (Hs _ _ H1 _ L) as [NB1 F1]. split.
    + intros w B. inversion B; subst.
      * destruct (IH _ _ H2 _ (F1 _ H4)) as [NB2 _]. eapply NB2. eassumption.
      * eapply NB1. eassumption.
    + intros S' F. inversion F; subst. destruct (IH _ _ H2 _ (F1 _ H4)) as [_ F2]. apply F2. assumption.
Qed.

Lemma simple_sound : forall s, is_simple s = true -> sound_stmt s.
Proof.
  intros s Hs C C' H S L.
  assert (E : chk C s = step C s) by (destruct s; try discriminate Hs; reflexivity).
  rewrite E in H. pose proof (step_mono _ _ _ _ L H) as R. split.
  - intros w B. inversion B; subst; try discriminate Hs.
    destruct R as [[y R]|[S' [R _]]]; congruence.
  - intros S' F. inversion F; subst; try discriminate Hs.
    destruct R as [[y R]|[S'' [R L']]]; [congruence|]. assert (S'' = S') by congruence. subst. exact L'.
Qed.

Lemma loop_sound : forall p el body inv i' c1,
  sound_block body -> bind_pat p el inv = ROk i' -> chk_block i' body = ROk c1 -> le c1 inv ->
  forall S o, sem_loop S p el body o -> le S inv ->
  match o with OBad _ => False | OFine S' => le S' inv end.
Proof.
  intros p el body inv i' c1 HB Hb Hc Hl S o H.
  induction H as [s p el body|s p el body w Hbad|s p el body s1 w Hbind Hbody|s p el body s1 s2 o Hbind Hbody Hrest IH]; intros L.
  - exact L.
  - destruct (bind_pat_mono _ _ _ _ _ L Hb) as [S' [E _]]. rewrite E in Hbad. discriminate.
  - destruct (bind_pat_mono _ _ _ _ _ L Hb) as [S' [E L']]. rewrite E in Hbind. inversion Hbind. subst S'.
    destruct (HB _ _ Hc _ L') as [NB _]. eapply NB. eassumption.
  - destruct (bind_pat_mono _ _ _ _ _ L Hb) as [S' [E L']]. rewrite E in Hbind. inversion Hbind. subst S'.
    destruct (HB _ _ Hc _ L') as [_ F]. apply IH; try assumption.
    eapply le_trans; [apply F; eassumption|exact Hl].
Qed.

Ltac nosimple := match goal with H : is_simple _ = true |- _ => simpl in H; discriminate H end.

Theorem chk_sound : forall s, sound_stmt s.
Proof.
  induction s as [t e|op t e|e|p e body IHb|cnd a b IHa IHb] using stmt_ind';
    try (apply simple_sound; reflexivity).
  - (* for *)
    intros C C' H S L. rewrite chk_for_eq in H. apply rbind_ok in H. destruct H as [el [He H]].
    apply find_inv_spec in H. destruct H as [Hin [c1 [Hrun Hc1]]].
    unfold run_body in Hrun. apply rbind_ok in Hrun. destruct Hrun as [i' [Hb Hc]].
    apply leb_sound in Hin. apply leb_sound in Hc1.
    pose proof (block_sound _ IHb) as HB.
    pose proof (for_elem_mono _ _ e L el He) as M.
    assert (LS : le S C') by (eapply le_trans; eassumption).
    split.
    + intros w B. inversion B; subst; try nosimple.
      * destruct M as [M|[y M]]; congruence.
      * assert (el0 = el) by (destruct M as [M|[y M]]; congruence). subst el0.
        apply (loop_sound _ _ _ _ _ _ HB Hb Hc Hc1 _ _ H5 LS).
    + intros S' F. inversion F; subst; try nosimple.
      assert (el0 = el) by (destruct M as [M|[y M]]; congruence). subst el0.
      apply (loop_sound _ _ _ _ _ _ HB Hb Hc Hc1 _ _ H5 LS).
  - (* if *)
    intros C C' H S L. rewrite chk_if_eq in H.
    apply rbind_ok in H. destruct H as [v [Hv H]].
    apply rbind_ok in H. destruct H as [ca [Ha H]].
    apply rbind_ok in H. destruct H as [cb [Hb H]]. simpl in H.
    destruct (leb ca (widen ca cb) && leb cb (widen ca cb)) eqn:B; [|discriminate].
    inversion H. subst C'. apply andb_true_iff in B. destruct B as [B1 B2].
    apply leb_sound in B1. apply leb_sound in B2.
    pose proof (aeval_mono _ _ (rho_mono _ _ L) cnd v Hv) as M.
    destruct (block_sound _ IHa _ _ Ha _ L) as [NBa Fa].
    destruct (block_sound _ IHb _ _ Hb _ L) as [NBb Fb].
    split.
    + intros w Bd. inversion Bd; subst; try nosimple.
      * destruct M as [M|[y M]]; congruence.
      * eapply NBa. eassumption.
      * eapply NBb. eassumption.
    + intros S' F. inversion F; subst; try nosimple.
      * eapply le_trans; [apply Fa; eassumption|exact B1].
      * eapply le_trans; [apply Fb; eassumption|exact B2].
Qed.

Theorem chk_block_sound : forall ss, sound_block ss.
Proof. intros ss. apply block_sound. apply Forall_forall. intros s _. apply chk_sound. Qed.

(* ------------------------------------------------------------------------------------ *)
(* 7. user-supplied objects are never renamed on a path that does not go bad             *)

Definition hwf (s : st) : Prop := forall c o, PM.find c (heap s) = Some o -> Pos.lt c (next s).

Definition keeps (s s' : st) : Prop :=
  hwf s -> hwf s' /\ (forall l o, PM.find l (heap s) = Some o -> t_oprov o = User -> PM.find l (heap s') = Some o).

Lemma keeps_refl : forall s, keeps s s.
Proof. intros s H. split; [exact H|auto]. Qed.

Lemma keeps_trans : forall a b c, keeps a b -> keeps b c -> keeps a c.
Proof.
  intros a b c H1 H2 Ha. destruct (H1 Ha) as [Hb K1]. destruct (H2 Hb) as [Hc K2]. split; [exact Hc|].
  intros l o F U. apply K2; [apply K1; assumption|exact U].
Qed.

Lemma keeps_same_heap : forall s s', heap s' = heap s -> next s' = next s -> keeps s s'.
Proof.
  intros s s' Eh En H. split.
  - intros c o F. rewrite Eh in F. rewrite En. eapply H. exact F.
  - intros l o F _. rewrite Eh. exact F.
Qed.

Lemma keeps_alloc_bind : forall s x v o, keeps s (bind x v (snd (alloc o s))).
Proof.
  intros s x v o H. unfold alloc, bind. simpl. split.
  - intros c o' F. simpl in *. destruct (Pos.eq_dec c (next s)) as [E|N].
    + subst c. lia.
    + rewrite PM.gso in F by exact N. specialize (H _ _ F). lia.
  - intros l o' F _. simpl. pose proof (H _ _ F). rewrite PM.gso by lia. exact F.
Qed.

Lemma bind_all_heap : forall bs s, heap (bind_all bs s) = heap s /\ next (bind_all bs s) = next s.
Proof.
  induction bs as [|b bs IH]; intros s; simpl; [split; reflexivity|].
  destruct (IH (bind (fst b) (AP (snd b)) s)) as [E1 E2]. rewrite E1, E2. split; reflexivity.
Qed.

Lemma bind_pat_keeps : forall p v s s', bind_pat p v s = ROk s' -> keeps s s'.
Proof.
  intros p v s s' H. unfold bind_pat in H. apply rbind_ok in H. destruct H as [bs [_ H]]. inversion H.
  destruct (bind_all_heap bs s) as [E1 E2]. apply keeps_same_heap; assumption.
Qed.

Lemma step_keeps : forall s c s', step s c = ROk s' -> keeps s s'.
Proof.
  intros s c s' H. destruct c as [t e|op t e|e|p e body|cnd a b]; simpl in H; try discriminate.
  - destruct t as [x|a i].
    + rewrite assign_name_eq in H.
      assert (G : assign_gen s x e = ROk s' -> keeps s s').
      { clear H. intros H. unfold assign_gen in H. apply rbind_ok in H. destruct H as [r [_ H]]. destruct r as [o|].
        - inversion H. apply keeps_alloc_bind.
        - apply rbind_ok in H. destruct H as [v [_ H]]. destruct (rv_to_aval v); [|discriminate].
          inversion H. apply keeps_same_heap; reflexivity. }
      destruct e; try (apply G; exact H).
      destruct (PM.find x0 (env s)) as [[m v]|]; [|discriminate]. inversion H. apply keeps_same_heap; reflexivity.
    + apply rbind_ok in H. destruct H as [u [_ H]]. inversion H. apply keeps_refl.
  - apply rbind_ok in H. destruct H as [u [_ H]]. inversion H. apply keeps_refl.
  - unfold expr_stmt in H. destruct (setrank_syntax e) as [[[y args] kw]|].
    + apply rbind_ok in H. destruct H as [ids [_ H]].
      destruct (PM.find y (env s)) as [[m v]|]; [|discriminate].
      destruct v as [c|p|p|p|g|]; try discriminate.
      destruct (PM.find c (heap s)) as [o|] eqn:HC; [|discriminate].
      destruct (t_oprov o) eqn:EP; [discriminate|].
      destruct (Nat.eqb (length ids) (length (t_ids o))); [|discriminate].
      inversion H. intros W. unfold hset. simpl. split.
      * intros c' o' F. simpl in *. destruct (Pos.eq_dec c' c) as [E|N].
        -- subst c'. eapply W. exact HC.
        -- rewrite PM.gso in F by exact N. eapply W. exact F.
      * intros l o' F U. simpl. destruct (Pos.eq_dec l c) as [E|N].
        -- subst l. rewrite HC in F. inversion F. subst o'. rewrite EP in U. discriminate.
        -- rewrite PM.gso by exact N. exact F.
    + apply rbind_ok in H. destruct H as [v [_ H]]. inversion H. apply keeps_refl.
Qed.

Scheme sem_mut := Minimality for sem Sort Prop
  with sem_loop_mut := Minimality for sem_loop Sort Prop
  with sem_block_mut := Minimality for sem_block Sort Prop.
Combined Scheme sem_mutind from sem_mut, sem_loop_mut, sem_block_mut.

Definition fine_keeps (s : st) (o : outcome) : Prop := forall s', o = OFine s' -> keeps s s'.

Lemma sem_keeps_all :
  (forall s c o, sem s c o -> fine_keeps s o) /\
  (forall s p el body o, sem_loop s p el body o -> fine_keeps s o) /\
  (forall s ss o, sem_block s ss o -> fine_keeps s o).
Proof.
  apply sem_mutind; unfold fine_keeps; intros; try discriminate.
  - inversion H1. subst. eapply step_keeps. eassumption.
  - apply H1. assumption.
  - apply H1. assumption.
  - apply H1. assumption.
  - inversion H. apply keeps_refl.
  - eapply keeps_trans; [eapply bind_pat_keeps; eassumption|].
    eapply keeps_trans; [apply H1; reflexivity|]. apply H3. assumption.
  - inversion H. apply keeps_refl.
  - eapply keeps_trans; [apply H0; reflexivity|]. apply H2. assumption.
Qed.

Theorem sem_frame : forall s ss s', sem_block s ss (OFine s') -> hwf s ->
  forall l o, PM.find l (heap s) = Some o -> t_oprov o = User -> PM.find l (heap s') = Some o.
Proof.
  intros s ss s' H W. destruct sem_keeps_all as [_ [_ K]]. destruct (K _ _ _ H s' eq_refl W) as [_ F]. exact F.
Qed.

(* ------------------------------------------------------------------------------------ *)
(* 8. the initial state; the verdict                                                      *)

Definition all_user (s : st) : Prop := forall l o, PM.find l (heap s) = Some o -> t_oprov o = User.

Lemma fold_left_inv : forall A (I : st -> Prop) (f : st -> A -> st) (l : list A),
  (forall s x, I s -> I (f s x)) -> forall s, I s -> I (fold_left f l s).
Proof. intros A I f l Hf. induction l as [|x l IH]; intros s Hs; simpl; [exact Hs|]. apply IH. apply Hf. exact Hs. Qed.

Lemma init_all_user : forall c, all_user (init c).
Proof.
  intros c. unfold init. apply fold_left_inv.
  - intros s i Hs l o F. unfold bind, alloc in F. simpl in F.
    destruct (Pos.eq_dec l (next s)) as [E|N].
    + subst l. rewrite PM.gss in F. inversion F. reflexivity.
    + rewrite PM.gso in F by exact N. eapply Hs. exact F.
  - apply fold_left_inv; [intros s x Hs; exact Hs|].
    apply fold_left_inv; [intros s x Hs; exact Hs|].
    intros l o F. simpl in F. rewrite PM.gempty in F. discriminate.
Qed.

Lemma name_okb_sound : forall S C n, le S C -> name_okb C n = true -> name_ok S n.
Proof.
  intros S C n [_ [_ [Pw _]]] H b v F. unfold name_okb in H. specialize (Pw (fst n)). rewrite F in Pw.
  destruct (PM.find (fst n) (env C)) as [[mb w]|]; [|discriminate Pw].
  destruct Pw as [_ V].
  destruct w as [cb|p|p|p|g|]; try discriminate.
  destruct (PM.find cb (heap C)) as [o|] eqn:HC; [|discriminate].
  apply andb_true_iff in H. destruct H as [H1 H2]. apply String.eqb_eq in H1.
  destruct V as [E|V]; [discriminate E|].
  destruct v as [ca|p|p|p|g|]; try (destruct V; fail); try discriminate V.
  destruct V as [o' [Ha Hb]]. rewrite HC in Hb. inversion Hb. subst o'.
  exists ca, o. split; [reflexivity|]. split; [exact Ha|]. split; [exact H1|].
  intros l El. rewrite El in H2. apply strs_eqb_eq. exact H2.
Qed.

Lemma required_okb_sound : forall S C x, le S C -> required_okb C x = true -> PM.find x (env S) <> None.
Proof.
  intros S C x [_ [_ [Pw _]]] H. unfold required_okb in H. specialize (Pw x).
  destruct (PM.find x (env C)) as [[mb w]|]; [|discriminate]. destruct mb; [|discriminate].
  destruct (PM.find x (env S)) as [[ma v]|]; [discriminate|discriminate Pw].
Qed.

Theorem rankty_sound : forall c p, rankty_ok c p = true ->
  (forall w, ~ sem_block (init c) p (OBad w)) /\
  (forall s', sem_block (init c) p (OFine s') -> post c s').
Proof.
  intros c p H. unfold rankty_ok in H. apply andb_true_iff in H. destruct H as [W H].
  apply wfb_wf in W.
  destruct (chk_block (init c) p) as [C'|w|x] eqn:E; try discriminate.
  apply andb_true_iff in H. destruct H as [HN HR]. rewrite forallb_forall in HN, HR.
  destruct (chk_block_sound p _ _ E _ (le_refl _ W)) as [NB F]. split; [exact NB|].
  intros s' Hs. pose proof (F _ Hs) as L. split; [|split].
  - intros n In. eapply name_okb_sound; [exact L|]. apply HN. exact In.
  - intros x In. eapply required_okb_sound; [exact L|]. apply HR. exact In.
  - intros l o Fl. eapply sem_frame; [exact Hs| |exact Fl|eapply init_all_user; exact Fl].
    destruct W as [_ W2]. exact W2.
Qed.

(* ------------------------------------------------------------------------------------ *)
(* 9. the deterministic path runner produces paths of the semantics                      *)

Lemma run_inner_block_eq : forall n ss c,
  (fix go (c : st) (ss : list stmt) {struct ss} : rres st :=
     match ss with
     | [] => ROk c
     | s :: ss' => dor c' <- run_path n c s; go c' ss'
     end) c ss = run_path_block n c ss.
Proof.
  induction ss as [|s ss IH]; intros c; simpl; [reflexivity|].
  destruct (run_path n c s); simpl; try reflexivity; apply IH.
Qed.

Fixpoint loop_path (run : st -> rres st) (k : nat) (c : st) : rres st :=
  match k with
  | O => ROk c
  | S k' => dor c2 <- run c; loop_path run k' c2
  end.

Lemma run_loop_eq : forall n p el body k c,
  (fix it (k : nat) (c : st) {struct k} : rres st :=
     match k with
     | O => ROk c
     | S k' =>
         dor c1 <- bind_pat p el c;
         dor c2 <- (fix go (c0 : st) (ss : list stmt) {struct ss} : rres st :=
                      match ss with
                      | [] => ROk c0
                      | s :: ss' => dor c' <- run_path n c0 s; go c' ss'
                      end) c1 body;
         it k' c2
     end) k c =
  loop_path (fun c => dor c1 <- bind_pat p el c; run_path_block n c1 body) k c.
Proof.
  intros n p el body. induction k as [|k IH]; intros c; simpl; [reflexivity|].
  destruct (bind_pat p el c) as [c1|w|x]; simpl; try reflexivity.
  rewrite run_inner_block_eq. destruct (run_path_block n c1 body); simpl; try reflexivity. apply IH.
Qed.

Lemma run_path_for_eq : forall n c p e body,
  run_path n c (SFor p e body) =
  (dor el <- for_elem c e; loop_path (fun c => dor c1 <- bind_pat p el c; run_path_block n c1 body) n c).
Proof.
  intros n c p e body. simpl. destruct (for_elem c e) as [el|w|x]; simpl; try reflexivity.
  apply run_loop_eq.
Qed.

Lemma run_path_if_eq : forall n c cnd a b,
  run_path n c (SIf cnd a b) = (dor _ <- aeval (rho c) cnd; run_path_block n c a).
Proof. intros. simpl. rewrite run_inner_block_eq. reflexivity. Qed.

Definition path_stmt (n : nat) (s : stmt) : Prop := forall c c', run_path n c s = ROk c' -> sem c s (OFine c').

Lemma path_block : forall n ss, Forall (path_stmt n) ss ->
  forall c c', run_path_block n c ss = ROk c' -> sem_block c ss (OFine c').
Proof.
  induction 1 as [|s ss Hs _ IH]; intros c c' H; simpl in H.
  - inversion H. constructor.
  - apply rbind_ok in H. destruct H as [c1 [H1 H2]]. econstructor; [apply Hs; exact H1|apply IH; exact H2].
Qed.

Lemma path_loop : forall n p el body, Forall (path_stmt n) body ->
  forall k c c', loop_path (fun c => dor c1 <- bind_pat p el c; run_path_block n c1 body) k c = ROk c' ->
  sem_loop c p el body (OFine c').
Proof.
  intros n p el body HB. induction k as [|k IH]; intros c c' H; simpl in H.
  - inversion H. constructor.
  - apply rbind_ok in H. destruct H as [c2 [H1 H2]]. apply rbind_ok in H1. destruct H1 as [c1 [Hb Hr]].
    eapply loop_iter; [exact Hb|eapply path_block; eassumption|apply IH; exact H2].
Qed.

Theorem run_path_sem : forall n s, path_stmt n s.
Proof.
  intros n. induction s as [t e|op t e|e|p e body IHb|cnd a b IHa IHb] using stmt_ind';
    try (intros c c' H; apply sem_step_ok; [reflexivity|exact H]).
  - intros c c' H. rewrite run_path_for_eq in H. apply rbind_ok in H. destruct H as [el [He H]].
    eapply sem_for; [exact He|]. eapply path_loop; eassumption.
  - intros c c' H. rewrite run_path_if_eq in H. apply rbind_ok in H. destruct H as [v [Hv H]].
    eapply sem_if_then; [exact Hv|]. eapply path_block; eassumption.
Qed.

Theorem run_path_block_sem : forall n ss c c', run_path_block n c ss = ROk c' -> sem_block c ss (OFine c').
Proof. intros n ss. apply path_block. apply Forall_forall. intros s _. apply run_path_sem. Qed.

(* ------------------------------------------------------------------------------------ *)
(* 10. on straight-line code the checker IS the semantics: it rejects nothing spuriously *)

Theorem straight_complete : forall ss c w,
  forallb is_simple ss = true -> chk_block c ss = RBad w -> sem_block c ss (OBad w).
Proof.
  induction ss as [|s ss IH]; intros c w Hs H; simpl in *; [discriminate|].
  apply andb_true_iff in Hs. destruct Hs as [H1 H2].
  assert (E : chk c s = step c s) by (destruct s; try discriminate H1; reflexivity).
  rewrite E in H. destruct (step c s) as [c1|w'|x] eqn:St; simpl in H; try discriminate.
  - eapply block_cons; [apply sem_step_ok; [exact H1|exact St]|]. apply IH; assumption.
  - inversion H. subst w'. apply block_bad. apply sem_step_bad; assumption.
Qed.

Lemma bad_prefix : forall l1 l2 c w, sem_block c l1 (OBad w) -> sem_block c (l1 ++ l2) (OBad w).
Proof.
  induction l1 as [|s l1 IH]; intros l2 c w H; inversion H; subst; simpl.
  - eapply block_cons; [eassumption|]. apply IH. assumption.
  - apply block_bad. assumption.
Qed.

Theorem straight_complete_prefix : forall n ss c w,
  forallb is_simple (firstn n ss) = true -> chk_block c (firstn n ss) = RBad w -> sem_block c ss (OBad w).
Proof.
  intros n ss c w H1 H2. rewrite <- (firstn_skipn n ss). apply bad_prefix. apply straight_complete; assumption.
Qed.

(* the decision of the post-condition is exact on the names *)
Lemma strs_eqb_refl : forall l, strs_eqb l l = true.
Proof. induction l as [|x l IH]; simpl; [reflexivity|]. rewrite String.eqb_refl. exact IH. Qed.

Lemma name_ok_okb : forall s n, name_ok s n -> name_okb s n = true.
Proof.
  intros s n H. unfold name_okb. destruct (PM.find (fst n) (env s)) as [[b v]|] eqn:F; [|reflexivity].
  destruct (H b v F) as [c [o [Hv [Hc [Hs He]]]]]. subst v. rewrite Hc. rewrite Hs, String.eqb_refl. simpl.
  destruct (snd (snd n)) as [l|]; [|reflexivity]. rewrite (He l eq_refl). apply strs_eqb_refl.
Qed.

Lemma post_names_okb : forall c s, post c s -> forallb (name_okb s) (x_names c) = true.
Proof. intros c s [N _]. apply forallb_forall. intros n In. apply name_ok_okb. apply N. exact In. Qed.
