(* Proofs about Model/TraceNames.v: the consumed names are the registered ones - when every active
   buffer binding is on the format selected for the loop nest - and are not otherwise (finding F8). *)
From Coq Require Import String List Bool Arith PeanoNat Ascii Lia.
Require Import TV.Model.XRef TV.Model.TraceNames TV.Proofs.XRefProofs.
Import ListNotations.
Open Scope string_scope.
Open Scope list_scope.

(* ------------------------------------------------------------------------------------------ *)
(* one binding: the name handed to the traffic model is the registered name                    *)
(* ------------------------------------------------------------------------------------------ *)

(* Collector.__get_trace against Collector.set_collecting, for every binding (lazy/eager; coord/payload/elem;
   read/write): the consumed file is the file of the label registered for the binding, or - payload of a
   filterable lazy trace - the output of the filter step emitted with it, whose inputs are the files of
   that label and of the loop's iter trace at the same rank. *)
Lemma get_trace_name : forall c b rd,
  (snd (get_trace c b rd) = [] /\ fst (get_trace c b rd) = fname (c_prefix c) (b_rank b) (label c b rd))
  \/ (b_root b = None /\ is_payload b = true /\ filterable (label c b rd) = true
      /\ snd (get_trace c b rd) = [Filter (fname (c_prefix c) (b_rank b) (label c b rd))
                                          (fname (c_prefix c) (b_rank b) "iter")
                                          (fst (get_trace c b rd))]).
Proof.
  intros c b rd. unfold get_trace, label. destruct (b_root b) as [root|].
  - left. split; reflexivity.
  - destruct (is_payload b) eqn:Ep; simpl.
    + destruct (filterable (ftrace c (b_tensor b) (b_rank b) rd)) eqn:Ef; simpl.
      * right. repeat split; reflexivity.
      * left. split; reflexivity.
    + left. split; reflexivity.
Qed.

(* ------------------------------------------------------------------------------------------ *)
(* list decompositions                                                                         *)
(* ------------------------------------------------------------------------------------------ *)

Lemma app_split : forall (A : Type) (l1 l2 a : list A) (e : A) (b : list A),
  l1 ++ l2 = a ++ e :: b ->
  (exists b0, l1 = a ++ e :: b0 /\ b = b0 ++ l2) \/ (exists a0, a = l1 ++ a0 /\ l2 = a0 ++ e :: b).
Proof.
  intros A l1. induction l1 as [|x l1 IH]; intros l2 a e b H; simpl in H.
  - right. exists a. split; [reflexivity|exact H].
  - destruct a as [|y a]; simpl in H; injection H as -> H.
    + left. exists l1. split; [reflexivity|symmetry; exact H].
    + destruct (IH l2 a e b H) as [[b0 [-> ->]]|[a0 [-> ->]]].
      * left. exists b0. split; reflexivity.
      * right. exists a0. split; reflexivity.
Qed.

Lemma flat_map_split : forall (A B : Type) (f : A -> list B) (l : list A) (a : list B) (e : B) (b : list B),
  flat_map f l = a ++ e :: b ->
  exists l1 x l2 a' b', l = l1 ++ x :: l2 /\ f x = a' ++ e :: b' /\ a = flat_map f l1 ++ a' /\ b = b' ++ flat_map f l2.
Proof.
  intros A B f l. induction l as [|x l IH]; intros a e b H; simpl in H.
  - destruct a; discriminate.
  - destruct (app_split _ _ _ _ _ _ H) as [[b0 [H1 H2]]|[a0 [H1 H2]]].
    + exists [], x, l, a, b0. simpl. repeat split; auto.
    + destruct (IH a0 e b H2) as [l1 [y [l2 [a' [b' [E1 [E2 [E3 E4]]]]]]]].
      exists (x :: l1), y, l2, a', b'. subst. simpl. rewrite <- app_assoc. repeat split; auto.
Qed.

(* ------------------------------------------------------------------------------------------ *)
(* the dictionary of traces only holds names computed by get_trace for active bindings         *)
(* ------------------------------------------------------------------------------------------ *)

Lemma dict_set_values : forall k v d x, In x (map snd (dict_set k v d)) -> x = v \/ In x (map snd d).
Proof.
  intros k v d. induction d as [|[k' v'] d IH]; simpl; intros x H.
  - destruct H as [<-|[]]. left. reflexivity.
  - destruct (tkey_eqb k k'); simpl in H.
    + destruct H as [<-|H]; [left; reflexivity|right; right; exact H].
    + destruct H as [<-|H]; [right; left; reflexivity|]. destruct (IH x H) as [->|H']; [left; reflexivity|right; right; exact H'].
Qed.

Lemma buffer_dict_values : forall c bf x,
  In x (map snd (buffer_dict c bf)) ->
  exists b rd, In b (active bf) /\ In rd (directions c b) /\ x = fst (get_trace c b rd).
Proof.
  intros c bf x. unfold buffer_dict.
  assert (G : forall bs d,
    In x (map snd (fold_left (fun d b => fold_left (fun d rd => dict_set (b_tensor b, b_rank b, b_type b, rd) (fst (get_trace c b rd)) d) (directions c b) d) bs d)) ->
    In x (map snd d) \/ exists b rd, In b bs /\ In rd (directions c b) /\ x = fst (get_trace c b rd)).
  { induction bs as [|b bs IH]; simpl; intros d H; [left; exact H|].
    destruct (IH _ H) as [H1|[b' [rd [Hb [Hr Hx]]]]].
    - assert (G2 : forall rds d0, In x (map snd (fold_left (fun d rd => dict_set (b_tensor b, b_rank b, b_type b, rd) (fst (get_trace c b rd)) d) rds d0)) ->
                   In x (map snd d0) \/ exists rd, In rd rds /\ x = fst (get_trace c b rd)).
      { induction rds as [|rd rds IH2]; simpl; intros d0 H0; [left; exact H0|].
        destruct (IH2 _ H0) as [H2|[rd' [Hr Hx]]].
        - destruct (dict_set_values _ _ _ _ H2) as [->|H3]; [right; exists rd; split; [left; reflexivity|reflexivity]|left; exact H3].
        - right. exists rd'. split; [right; exact Hr|exact Hx]. }
      destruct (G2 _ _ H1) as [H2|[rd [Hr Hx]]]; [left; exact H2|].
      right. exists b, rd. split; [left; reflexivity|split; assumption].
    - right. exists b', rd. split; [right; exact Hb|split; assumption]. }
  intros H. destruct (G _ _ H) as [[]|H']. exact H'.
Qed.

(* ------------------------------------------------------------------------------------------ *)
(* registration covers what an on-path binding consumes                                        *)
(* ------------------------------------------------------------------------------------------ *)

Lemma hyp_active : forall c bf b,
  hypb c = true -> In bf (c_buffers c) -> In b (active bf) -> on_path c bf b = true /\ coherent c b = true.
Proof.
  intros c bf b H Hbf Hb. unfold hypb in H. apply andb_true_iff in H. destruct H as [H _].
  rewrite forallb_forall in H. specialize (H bf Hbf). rewrite forallb_forall in H. specialize (H b Hb).
  apply andb_true_iff in H. exact H.
Qed.

Lemma active_in : forall bf b, In b (active bf) -> In b (buf_bindings bf).
Proof. intros bf b H. unfold active in H. apply filter_In in H. apply H. Qed.

Lemma registered_of_binding : forall c bf b p,
  In bf (c_buffers c) -> In b (buf_bindings bf) -> on_path c bf b = true -> In p (regs_of c b) -> In p (registered c).
Proof.
  intros c bf b p Hbf Hb Hp Hr. unfold registered. apply in_or_app. right. apply in_or_app. left.
  apply in_flat_map. exists bf. split; [exact Hbf|]. apply in_flat_map. exists b. split; [exact Hb|].
  rewrite Hp. exact Hr.
Qed.

Lemma regs_label : forall c b rd, In rd (directions c b) -> In (b_rank b, label c b rd) (regs_of c b).
Proof.
  intros c b rd H. unfold regs_of. apply in_or_app. left.
  apply in_map with (f := fun rd => (b_rank b, label c b rd)). exact H.
Qed.

Lemma filterable_read : forall c b rd,
  coherent c b = true -> b_root b = None -> In rd (directions c b) ->
  filterable (label c b rd) = true -> filterable (ftrace c (b_tensor b) (b_rank b) true) = true.
Proof.
  intros c b rd Hc Hr Hd Hf. unfold label in Hf. rewrite Hr in Hf. destruct rd; [exact Hf|].
  unfold coherent in Hc. rewrite Hr in Hc. unfold directions in Hd.
  destruct (is_out c (b_tensor b)) eqn:Eo.
  - rewrite orb_false_r in Hc. apply eqb_prop in Hc. rewrite Hc. exact Hf.
  - simpl in Hd. destruct Hd as [Hd|[]]. discriminate.
Qed.

Lemma regs_iter : forall c b rd,
  coherent c b = true -> b_root b = None -> is_payload b = true -> In rd (directions c b) ->
  filterable (label c b rd) = true -> In (b_rank b, "iter") (regs_of c b).
Proof.
  intros c b rd Hc Hr Hp Hd Hf. unfold regs_of. apply in_or_app. right. rewrite Hr, Hp.
  rewrite (filterable_read c b rd Hc Hr Hd Hf). simpl. left. reflexivity.
Qed.

(* ------------------------------------------------------------------------------------------ *)
(* main theorem of the model                                                                   *)
(* ------------------------------------------------------------------------------------------ *)

(* f is the file of a registered (rank, type) - or was written by a filter step among the events `a` *)
Definition name_produced (c : cfg) (a : list ev) (f : string) : Prop :=
  (exists r lab, In (r, lab) (registered c) /\ f = fname (c_prefix c) r lab)
  \/ (exists i fl, In (Filter i fl f) a).

Lemma buffer_events_split : forall c bf a e b,
  buffer_events c bf = a ++ e :: b ->
  (exists bd rd, In bd (active bf) /\ In rd (directions c bd) /\ In e (snd (get_trace c bd rd)))
  \/ (e = Traffic (map snd (buffer_dict c bf))
      /\ a = flat_map (fun b => flat_map (fun rd => snd (get_trace c b rd)) (directions c b)) (active bf)).
Proof.
  intros c bf a e b H. unfold buffer_events in H.
  destruct (app_split _ _ _ _ _ _ H) as [[b0 [H1 H2]]|[a0 [H1 H2]]].
  - left. assert (Hin : In e (flat_map (fun b => flat_map (fun rd => snd (get_trace c b rd)) (directions c b)) (active bf))).
    { rewrite H1. apply in_or_app. right. left. reflexivity. }
    apply in_flat_map in Hin. destruct Hin as [bd [Hbd Hin]]. apply in_flat_map in Hin. destruct Hin as [rd [Hrd Hin]].
    exists bd, rd. auto.
  - right. destruct a0 as [|x a0]; simpl in H2.
    + injection H2 as <- _. rewrite app_nil_r in H1. split; [reflexivity|exact H1].
    + injection H2 as _ H2. destruct a0; discriminate.
Qed.

Theorem model_consumed_registered : forall c,
  hypb c = true ->
  forall a e b q, dump_events c = a ++ e :: b -> In q (needs e) ->
  exists f, q = NFile f /\ name_produced c a f.
Proof.
  intros c Hh a e b q Heq Hq. unfold dump_events in Heq.
  destruct (app_split _ _ _ _ _ _ Heq) as [[b0 [H1 H2]]|[a0 [H1 H2]]].
  - (* a buffer's events *)
    destruct (flat_map_split _ _ _ _ _ _ _ H1) as [l1 [bf [l2 [a' [b' [E1 [E2 [E3 E4]]]]]]]].
    assert (Hbf : In bf (c_buffers c)) by (rewrite E1; apply in_or_app; right; left; reflexivity).
    destruct (buffer_events_split _ _ _ _ _ E2) as [[bd [rd [Hbd [Hrd Hin]]]]|[He Ha]].
    + (* a filter step *)
      destruct (hyp_active _ _ _ Hh Hbf Hbd) as [Hp Hc].
      destruct (get_trace_name c bd rd) as [[Hs _]|[Hr [Hpay [Hf Hs]]]]; rewrite Hs in Hin; [destruct Hin|].
      destruct Hin as [<-|[]]. simpl in Hq. destruct Hq as [<-|[<-|[]]].
      * eexists. split; [reflexivity|]. left. exists (b_rank bd), (label c bd rd). split; [|reflexivity].
        apply (registered_of_binding c bf bd _ Hbf (active_in _ _ Hbd) Hp). apply regs_label. exact Hrd.
      * eexists. split; [reflexivity|]. left. exists (b_rank bd), "iter". split; [|reflexivity].
        apply (registered_of_binding c bf bd _ Hbf (active_in _ _ Hbd) Hp). apply (regs_iter c bd rd); assumption.
    + (* the traffic call *)
      subst e. simpl in Hq. apply in_map_iff in Hq. destruct Hq as [f [<- Hf]].
      eexists. split; [reflexivity|].
      destruct (buffer_dict_values _ _ _ Hf) as [bd [rd [Hbd [Hrd ->]]]].
      destruct (hyp_active _ _ _ Hh Hbf Hbd) as [Hp Hc].
      destruct (get_trace_name c bd rd) as [[_ Hn]|[Hr [Hpay [Hfl Hs]]]].
      * left. exists (b_rank bd), (label c bd rd). split; [|exact Hn].
        apply (registered_of_binding c bf bd _ Hbf (active_in _ _ Hbd) Hp). apply regs_label. exact Hrd.
      * right. eexists. eexists. rewrite E3, Ha. apply in_or_app. right.
        apply in_flat_map. exists bd. split; [exact Hbd|]. apply in_flat_map. exists rd. split; [exact Hrd|].
        rewrite Hs. left. reflexivity.
  - (* a sequencer *)
    assert (Hin : In e (seq_events c)) by (rewrite H2; apply in_or_app; right; left; reflexivity).
    unfold seq_events in Hin. apply in_flat_map in Hin. destruct Hin as [rs [Hrs Hin]].
    apply in_map_iff in Hin. destruct Hin as [r [<- Hr]]. simpl in Hq. destruct Hq as [<-|[]].
    eexists. split; [reflexivity|]. left. exists r, "iter". split; [|reflexivity].
    unfold registered. apply in_or_app. left. apply in_flat_map. exists rs. split; [exact Hrs|].
    apply in_map with (f := fun r => (r, "iter")). exact Hr.
Qed.

(* what every intersector is fed is registered *)
Lemma str_in_iff : forall s l, str_in s l = true <-> In s l.
Proof.
  intros s l. unfold str_in. rewrite existsb_exists. split.
  - intros [x [Hx He]]. apply String.eqb_eq in He. subst. exact Hx.
  - intros H. exists s. split; [exact H|apply String.eqb_refl].
Qed.

Theorem model_fed_registered : forall c,
  hypb c = true -> forall r lab, In (Consume r lab) (feed_events c) -> In (r, lab) (registered c).
Proof.
  intros c Hh r lab Hin. unfold feed_events in Hin. apply in_flat_map in Hin. destruct Hin as [i [Hi Hin]].
  apply in_map_iff in Hin. destruct Hin as [[r' lab'] [Heq Hp]]. simpl in Heq. injection Heq as -> ->.
  unfold registered. apply in_or_app. right. apply in_or_app. right. apply in_flat_map. exists i. split; [exact Hi|].
  unfold isect_consumes in Hp. destruct (i_lf i) eqn:Elf; [|exact Hp].
  destruct Hp as [Hp|[]]. injection Hp as <- <-.
  unfold hypb in Hh. apply andb_true_iff in Hh. destruct Hh as [_ Hh]. rewrite forallb_forall in Hh. specialize (Hh i Hi).
  rewrite Elf in Hh. simpl in Hh. apply andb_true_iff in Hh. destruct Hh as [H1 H2].
  apply in_map with (f := fun t => (i_rank i, ftrace c t (i_rank i) true)).
  unfold isect_tensors. apply filter_In. split; [apply str_in_iff; exact H1|].
  rewrite Elf, String.eqb_refl, H2. reflexivity.
Qed.

(* ------------------------------------------------------------------------------------------ *)
(* the proposed repair of F8 (skip off-path bindings in __build_traffic) restores the property *)
(* ------------------------------------------------------------------------------------------ *)

Lemma on_path_sel : forall c bf b, on_path (sel_cfg c) (sel_buffer c bf) b = on_path c bf b.
Proof. intros c bf b. reflexivity. Qed.

Lemma coherent_sel : forall c b, coherent (sel_cfg c) b = coherent c b.
Proof. intros c b. reflexivity. Qed.

Theorem hyp_sel : forall c, hyp_rest c = true -> hypb (sel_cfg c) = true.
Proof.
  intros c H. unfold hyp_rest in H. apply andb_true_iff in H. destruct H as [H1 H2].
  unfold hypb. apply andb_true_iff. split; [|exact H2].
  simpl. rewrite forallb_forall. intros bf' Hbf'. apply in_map_iff in Hbf'. destruct Hbf' as [bf [<- Hbf]].
  rewrite forallb_forall in H1. specialize (H1 bf Hbf). rewrite forallb_forall in H1.
  rewrite forallb_forall. intros b Hb. unfold active in Hb. apply filter_In in Hb. destruct Hb as [Hb Hbits].
  simpl in Hb. apply filter_In in Hb. destruct Hb as [Hb Hsel]. rewrite Hbits in Hsel. simpl in Hsel.
  rewrite on_path_sel, coherent_sel, Hsel. simpl.
  assert (Ha : In b (active bf)) by (unfold active; apply filter_In; split; assumption).
  specialize (H1 b Ha). rewrite Hsel in H1. simpl in H1. exact H1.
Qed.

Theorem repaired_consumed_registered : forall c,
  hyp_rest c = true ->
  forall a e b q, dump_events (sel_cfg c) = a ++ e :: b -> In q (needs e) ->
  exists f, q = NFile f /\ name_produced (sel_cfg c) a f.
Proof. intros c H. apply model_consumed_registered. apply hyp_sel. exact H. Qed.

(* the repair does not change what is registered *)
Lemma registered_sel : forall c, registered (sel_cfg c) = registered c.
Proof.
  intros c. unfold registered. f_equal. f_equal. simpl.
  induction (c_buffers c) as [|bf l IH]; simpl; [reflexivity|]. rewrite IH. f_equal.
  induction (buf_bindings bf) as [|b bs IHb]; simpl; [reflexivity|].
  destruct (negb (b_bits b) || on_path c bf b) eqn:E; simpl.
  - rewrite on_path_sel, IHb. reflexivity.
  - rewrite IHb. apply orb_false_iff in E. destruct E as [_ E]. rewrite E. reflexivity.
Qed.

(* ------------------------------------------------------------------------------------------ *)
(* Examples                                                                                    *)
(* ------------------------------------------------------------------------------------------ *)

(* Z[m, n] = A[k, m] * B[k, n], loop order [M, K, N]; A is bound to a buffet and its only format is in
   the order [K, M] - which is NOT the order of the loop nest, so no format is selected for A.
   (This is the specification tools/props/c12.py compiles with the real compiler on every run.) *)
Definition f8_cfg : cfg :=
  mkCfg "tmp/Z" "Z" ["A"; "B"]
        [(("A", "K", true), "intersect_0"); (("B", "K", true), "intersect_1"); (("A", "M", true), "populate_1");
         (("Z", "M", true), "populate_read_0"); (("Z", "M", false), "populate_write_0")]
        [("Z", "default"); ("B", "default")]
        [(("A", "default"), ["K"; "M"]); (("B", "default"), ["K"; "N"]); (("Z", "default"), ["M"; "N"])]
        [mkBuf true [mkB "A" "K" Payload "default" None true]]
        [] [] [("A", ["M"; "K"]); ("B", ["K"; "N"])].

(* the same with A's format in loop order [M, K]: the hypothesis holds *)
Definition good_cfg : cfg :=
  mkCfg "tmp/Z" "Z" ["A"; "B"]
        [(("A", "K", true), "intersect_0"); (("B", "K", true), "intersect_1"); (("A", "M", true), "populate_1");
         (("Z", "M", true), "populate_read_0"); (("Z", "M", false), "populate_write_0")]
        [("Z", "default"); ("A", "default"); ("B", "default")]
        [(("A", "default"), ["M"; "K"]); (("B", "default"), ["K"; "N"]); (("Z", "default"), ["M"; "N"])]
        [mkBuf true [mkB "A" "K" Payload "default" None true; mkB "Z" "M" Coord "default" (Some "M") true]]
        [["M"; "K"]] [mkI true "A" "K"] [("A", ["M"; "K"]); ("B", ["K"; "N"])].

Example good_cfg_hyp : hypb good_cfg = true.
Proof. vm_compute. reflexivity. Qed.

Example good_cfg_events :
  dump_events good_cfg =
    [Filter "tmp/Z-K-intersect_0.csv" "tmp/Z-K-iter.csv" "tmp/Z-K-intersect_0_payload.csv";
     Traffic ["tmp/Z-K-intersect_0_payload.csv"; "tmp/Z-M-eager_z_m_read.csv"; "tmp/Z-M-eager_z_m_write.csv"];
     NumIters "tmp/Z-M-iter.csv"; NumIters "tmp/Z-K-iter.csv"].
Proof. vm_compute. reflexivity. Qed.

(* F8: without the hypothesis the conclusion fails - the filter step of A's binding reads two files
   that no registration names and no earlier filter step wrote *)
Theorem f8_refuted :
  hypb f8_cfg = false /\
  exists a e b f, dump_events f8_cfg = a ++ e :: b /\ In (NFile f) (needs e) /\ ~ name_produced f8_cfg a f.
Proof.
  split; [vm_compute; reflexivity|].
  exists [], (Filter "tmp/Z-K-intersect_0.csv" "tmp/Z-K-iter.csv" "tmp/Z-K-intersect_0_payload.csv"),
         [Traffic ["tmp/Z-K-intersect_0_payload.csv"]], "tmp/Z-K-intersect_0.csv".
  split; [vm_compute; reflexivity|]. split; [simpl; auto|].
  intros [[r [lab [Hin _]]]|[i [fl []]]]. vm_compute in Hin. exact Hin.
Qed.

Example f8_repaired : hyp_rest f8_cfg = true /\ dump_events (sel_cfg f8_cfg) = [Traffic []].
Proof. split; vm_compute; reflexivity. Qed.
