(* Specifications and proofs about Model/FlowOrder.v (property C10). *)
From Coq Require Import String List Bool PArith Arith Lia Permutation.
Require Import TV.Model.FlowOrder.
Import ListNotations.
Open Scope list_scope.

(* ------------------------------------------------------------------------- *)
(* Specification side                                                         *)
(* ------------------------------------------------------------------------- *)

(* a occurs before an occurrence of b *)
Fixpoint prec (l : list node) (a b : node) : Prop :=
  match l with
  | [] => False
  | x :: t => (x = a /\ In b t) \/ prec t a b
  end.

(* l is a topological order of g: no statement twice, every edge points forward *)
Definition topo (g : graph) (l : list node) : Prop :=
  NoDup l /\ forall a b, In (a, b) g -> prec l a b.

(* b transitively depends on a (one or more edges) *)
Inductive reach (g : graph) : node -> node -> Prop :=
| reach_edge : forall a b, In (a, b) g -> reach g a b
| reach_step : forall a b c, In (a, b) g -> reach g b c -> reach g a c.

(* ------------------------------------------------------------------------- *)
(* Booleans vs propositions                                                   *)
(* ------------------------------------------------------------------------- *)

Lemma memb_In : forall x l, memb x l = true <-> In x l.
Proof.
  intros x l. unfold memb. rewrite existsb_exists. split.
  - intros [y [Hy He]]. apply Pos.eqb_eq in He. subst. exact Hy.
  - intros H. exists x. split; [exact H | apply Pos.eqb_refl].
Qed.

Lemma memb_false : forall x l, memb x l = false <-> ~ In x l.
Proof.
  intros x l. rewrite <- memb_In. destruct (memb x l); split; intros; congruence.
Qed.

Lemma nodupb_iff : forall l, nodupb l = true <-> NoDup l.
Proof.
  induction l as [|x t IH]; simpl.
  - split; intros; [constructor | reflexivity].
  - rewrite andb_true_iff, negb_true_iff, memb_false, IH. split.
    + intros [H1 H2]. constructor; assumption.
    + intros H. inversion H; subst. split; assumption.
Qed.

Lemma precb_iff : forall l a b, precb l a b = true <-> prec l a b.
Proof.
  induction l as [|x t IH]; intros a b; simpl.
  - split; [discriminate | tauto].
  - rewrite orb_true_iff, andb_true_iff, Pos.eqb_eq, memb_In, IH. tauto.
Qed.

Lemma nodes_eqb_eq : forall a b, nodes_eqb a b = true <-> a = b.
Proof.
  induction a as [|x a IH]; destruct b as [|y b]; simpl; split; intros H; try discriminate; try reflexivity.
  - apply andb_true_iff in H. destruct H as [H1 H2]. apply Pos.eqb_eq in H1. apply IH in H2. subst. reflexivity.
  - inversion H; subst. rewrite Pos.eqb_refl. simpl. apply IH. reflexivity.
Qed.

(* ------------------------------------------------------------------------- *)
(* prec algebra                                                               *)
(* ------------------------------------------------------------------------- *)

Lemma prec_In : forall l a b, prec l a b -> In a l /\ In b l.
Proof.
  induction l as [|x t IH]; simpl; intros a b H; [tauto|].
  destruct H as [[H1 H2] | H].
  - subst. tauto.
  - apply IH in H. tauto.
Qed.

Lemma prec_app : forall x y a b,
  prec (x ++ y) a b <-> prec x a b \/ prec y a b \/ (In a x /\ In b y).
Proof.
  induction x as [|h x IH]; intros y a b; simpl.
  - tauto.
  - rewrite IH, in_app_iff. tauto.
Qed.

Lemma prec_cons : forall h t a b, prec (h :: t) a b <-> (h = a /\ In b t) \/ prec t a b.
Proof. intros. simpl. tauto. Qed.

Lemma prec_filter : forall f l a b,
  prec (filter f l) a b <-> prec l a b /\ f a = true /\ f b = true.
Proof.
  intros f. induction l as [|x t IH]; intros a b; simpl.
  - tauto.
  - destruct (f x) eqn:Hx; simpl.
    + rewrite IH, filter_In. split.
      * intros [[H1 [H2 H3]] | H]; [subst; tauto | tauto].
      * intros [[[H1 H2] | H] [Ha Hb]]; [left; tauto | right; tauto].
    + rewrite IH. split.
      * tauto.
      * intros [[[H1 H2] | H] [Ha Hb]]; [subst; congruence | tauto].
Qed.

Lemma prec_irrefl : forall l a, NoDup l -> ~ prec l a a.
Proof.
  induction l as [|x t IH]; simpl; intros a Hn H; [tauto|].
  inversion Hn as [|? ? Hx Ht]; subst. destruct H as [[E I] | H].
  - subst. tauto.
  - eapply IH; eassumption.
Qed.

Lemma prec_trans : forall l a b c, NoDup l -> prec l a b -> prec l b c -> prec l a c.
Proof.
  induction l as [|x t IH]; simpl; intros a b c Hn H1 H2; [tauto|].
  inversion Hn as [|? ? Hx Ht]; subst.
  destruct H1 as [[E1 I1] | H1].
  - subst. left. split; [reflexivity|].
    destruct H2 as [[E2 I2] | H2]; [exact I2 | apply prec_In in H2; tauto].
  - destruct H2 as [[E2 I2] | H2].
    + subst. apply prec_In in H1. tauto.
    + right. eapply IH; eassumption.
Qed.

Lemma prec_asym : forall l a b, NoDup l -> prec l a b -> ~ prec l b a.
Proof.
  intros l a b Hn H1 H2. eapply prec_irrefl; [exact Hn|]. eapply prec_trans; eassumption.
Qed.

(* in a duplicate-free list, a before x means a lies in the part in front of x *)
Lemma prec_split_front : forall l1 x l2 a, NoDup (l1 ++ x :: l2) -> prec (l1 ++ x :: l2) a x -> In a l1.
Proof.
  intros l1 x l2 a Hn H. apply prec_app in H. simpl in H.
  assert (Hx1 : ~ In x l1).
  { intros Hi. apply NoDup_remove_2 in Hn. apply Hn. apply in_app_iff. tauto. }
  assert (Hx2 : ~ In x l2).
  { intros Hi. apply NoDup_remove_2 in Hn. apply Hn. apply in_app_iff. tauto. }
  destruct H as [H | [[[E I] | H] | [H _]]].
  - apply prec_In in H. tauto.
  - tauto.
  - apply prec_In in H. tauto.
  - exact H.
Qed.

(* ------------------------------------------------------------------------- *)
(* topological orders                                                         *)
(* ------------------------------------------------------------------------- *)

Lemma topo_okb_iff : forall g l, topo_okb g l = true <-> topo g l.
Proof.
  intros g l. unfold topo_okb, topo. rewrite andb_true_iff, nodupb_iff, forallb_forall. split.
  - intros [Hn H]. split; [exact Hn|]. intros a b Hab. apply precb_iff. apply (H (a, b)). exact Hab.
  - intros [Hn H]. split; [exact Hn|]. intros [a b] Hab. simpl. apply precb_iff. apply H. exact Hab.
Qed.

Lemma reach_prec : forall g l a b, topo g l -> reach g a b -> prec l a b.
Proof.
  intros g l a b [Hn He] H. induction H.
  - apply He. assumption.
  - eapply prec_trans; [exact Hn | apply He; eassumption | exact IHreach].
Qed.

Lemma topo_acyclic : forall g l a, topo g l -> ~ reach g a a.
Proof.
  intros g l a Ht H. eapply prec_irrefl; [apply Ht|]. eapply reach_prec; eassumption.
Qed.

Lemma reach_trans : forall g a b c, reach g a b -> reach g b c -> reach g a c.
Proof.
  intros g a b c H. induction H; intros Hc.
  - eapply reach_step; eassumption.
  - eapply reach_step; [eassumption | apply IHreach; exact Hc].
Qed.

Lemma reach_snoc : forall g a b c, reach g a b -> In (b, c) g -> reach g a c.
Proof. intros. eapply reach_trans; [eassumption | apply reach_edge; assumption]. Qed.

Lemma reach_last : forall g a c, reach g a c -> In (a, c) g \/ exists b, reach g a b /\ In (b, c) g.
Proof.
  intros g a c H. induction H.
  - left. assumption.
  - right. destruct IHreach as [Hd | [m [Hm Hl]]].
    + exists b. split; [apply reach_edge; assumption | assumption].
    + exists m. split; [eapply reach_step; eassumption | assumption].
Qed.

(* ------------------------------------------------------------------------- *)
(* descendants by one pass along a topological order                          *)
(* ------------------------------------------------------------------------- *)

Definition desc_inv (g : graph) (r : node) (seen D : list node) : Prop :=
  forall y, In y D <-> y = r \/ (In y seen /\ reach g r y).

Lemma desc_test_iff : forall g x D,
  existsb (fun e => Pos.eqb (snd e) x && memb (fst e) D) g = true <-> exists p, In (p, x) g /\ In p D.
Proof.
  intros g x D. rewrite existsb_exists. split.
  - intros [[p q] [He Ht]]. simpl in Ht. apply andb_true_iff in Ht. destruct Ht as [Hq Hp].
    apply Pos.eqb_eq in Hq. apply memb_In in Hp. subst. exists p. tauto.
  - intros [p [He Hp]]. exists (p, x). split; [exact He|]. simpl.
    rewrite Pos.eqb_refl. simpl. apply memb_In. exact Hp.
Qed.

Lemma desc_pass_inv : forall g r l2 l1 D,
  topo g (l1 ++ l2) -> desc_inv g r l1 D -> desc_inv g r (l1 ++ l2) (desc_pass g l2 D).
Proof.
  intros g r. induction l2 as [|x t IH]; intros l1 D Ht Hinv.
  - rewrite app_nil_r. exact Hinv.
  - simpl.
    assert (Heq : l1 ++ x :: t = (l1 ++ [x]) ++ t) by (rewrite <- app_assoc; reflexivity).
    destruct (existsb (fun e => Pos.eqb (snd e) x && memb (fst e) D) g) eqn:Htest.
    + rewrite Heq. apply IH; [rewrite <- Heq; exact Ht|].
      apply desc_test_iff in Htest. destruct Htest as [p [Hpx HpD]].
      assert (Hrx : reach g r x).
      { apply Hinv in HpD. destruct HpD as [E | [_ Hr]].
        - subst. apply reach_edge. exact Hpx.
        - eapply reach_snoc; eassumption. }
      intros y. simpl. rewrite in_app_iff. simpl. split.
      * intros [E | Hy].
        -- subst. right. tauto.
        -- apply Hinv in Hy. tauto.
      * intros [E | [[Hy | [E | []]] Hr]].
        -- right. apply Hinv. tauto.
        -- right. apply Hinv. tauto.
        -- left. exact E.
    + rewrite Heq. apply IH; [rewrite <- Heq; exact Ht|].
      intros y. rewrite in_app_iff. simpl. split.
      * intros Hy. apply Hinv in Hy. tauto.
      * intros [E | [[Hy | [E | []]] Hr]].
        -- apply Hinv. tauto.
        -- apply Hinv. tauto.
        -- subst y. exfalso.
           assert (Hex : exists p, In (p, x) g /\ In p D).
           { destruct (reach_last _ _ _ Hr) as [Hd | [b [Hb Hbx]]].
             - exists r. split; [exact Hd | apply Hinv; tauto].
             - exists b. split; [exact Hbx|]. apply Hinv. right. split; [|exact Hb].
               destruct Ht as [Hn He]. eapply prec_split_front; [exact Hn | apply He; exact Hbx]. }
           apply desc_test_iff in Hex. congruence.
Qed.

Lemma desc_set_spec : forall g l r y, topo g l ->
  (In y (desc_set g l r) <-> y = r \/ (In y l /\ reach g r y)).
Proof.
  intros g l r y Ht. unfold desc_set.
  apply (desc_pass_inv g r l [] [r]); [exact Ht|].
  intros z. simpl. split; [intros [E|[]]; left; congruence | intros [E|[[] _]]; left; congruence].
Qed.

(* the one-pass computation IS nx.descendants on any topological order *)
Lemma descb_iff : forall g l r x, topo g l -> (descb g l r x = true <-> reach g r x).
Proof.
  intros g l r x Ht. unfold descb. rewrite andb_true_iff, negb_true_iff, Pos.eqb_neq, memb_In, desc_set_spec by exact Ht.
  split.
  - intros [Hne [E | [_ Hr]]]; [congruence | exact Hr].
  - intros Hr. split.
    + intros E. subst. eapply topo_acyclic; eassumption.
    + right. split; [|exact Hr]. eapply prec_In. eapply reach_prec; eassumption.
Qed.
