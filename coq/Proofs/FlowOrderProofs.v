(* Specifications and proofs about Model/FlowOrder.v (property C10). *)
From Coq Require Import String List Bool PArith Arith Lia Permutation.
Require Import TV.Model.FlowOrder.
Import ListNotations.
Open Scope list_scope.

(* ------------------------------------------------------------------------- *)
(* Specification side                                                         *)
(* ------------------------------------------------------------------------- *)

(* a occurs before an occurrence of b *)
Fixpoint prec (l : list node) (a b : node) : Prop :=
  match l with
  | [] => False
  | x :: t => (x = a /\ In b t) \/ prec t a b
  end.

(* l is a topological order of g: no statement twice, every edge points forward *)
Definition topo (g : graph) (l : list node) : Prop :=
  NoDup l /\ forall a b, In (a, b) g -> prec l a b.

(* b transitively depends on a (one or more edges) *)
Inductive reach (g : graph) : node -> node -> Prop :=
| reach_edge : forall a b, In (a, b) g -> reach g a b
| reach_step : forall a b c, In (a, b) g -> reach g b c -> reach g a c.

(* ------------------------------------------------------------------------- *)
(* Booleans vs propositions                                                   *)
(* ------------------------------------------------------------------------- *)

Lemma memb_In : forall x l, memb x l = true <-> In x l.
Proof.
  intros x l. unfold memb. rewrite existsb_exists. split.
  - intros [y [Hy He]]. apply Pos.eqb_eq in He. subst. exact Hy.
  - intros H. exists x. split; [exact H | apply Pos.eqb_refl].
Qed.

Lemma memb_false : forall x l, memb x l = false <-> ~ In x l.
Proof.
  intros x l. rewrite <- memb_In. destruct (memb x l); split; intros; congruence.
Qed.

Lemma nodupb_iff : forall l, nodupb l = true <-> NoDup l.
Proof.
  induction l as [|x t IH]; simpl.
  - split; intros; [constructor | reflexivity].
  - rewrite andb_true_iff, negb_true_iff, memb_false, IH. split.
    + intros [H1 H2]. constructor; assumption.
    + intros H. inversion H; subst. split; assumption.
Qed.

Lemma nodes_eqb_eq : forall a b, nodes_eqb a b = true <-> a = b.
Proof.
  induction a as [|x a IH]; destruct b as [|y b]; simpl; split; intros H; try discriminate; try reflexivity.
  - apply andb_true_iff in H. destruct H as [H1 H2]. apply Pos.eqb_eq in H1. apply IH in H2. subst. reflexivity.
  - inversion H; subst. rewrite Pos.eqb_refl. simpl. apply IH. reflexivity.
Qed.

(* ------------------------------------------------------------------------- *)
(* prec algebra                                                               *)
(* ------------------------------------------------------------------------- *)

Lemma prec_In : forall l a b, prec l a b -> In a l /\ In b l.
Proof.
  induction l as [|x t IH]; simpl; intros a b H; [tauto|].
  destruct H as [[H1 H2] | H].
  - subst. tauto.
  - apply IH in H. tauto.
Qed.

Lemma precb_iff : forall l a b, precb l a b = true <-> prec l a b.
Proof.
  induction l as [|x t IH]; intros a b; simpl.
  - split; [discriminate | tauto].
  - destruct (Pos.eqb x a) eqn:E.
    + apply Pos.eqb_eq in E. subst. rewrite memb_In. split; [tauto|].
      intros [[_ H] | H]; [exact H | apply (prec_In t a b H)].
    + apply Pos.eqb_neq in E. rewrite IH. tauto.
Qed.

Lemma prec_app : forall x y a b,
  prec (x ++ y) a b <-> prec x a b \/ prec y a b \/ (In a x /\ In b y).
Proof.
  induction x as [|h x IH]; intros y a b; simpl.
  - tauto.
  - rewrite IH, in_app_iff. tauto.
Qed.

Lemma prec_cons : forall h t a b, prec (h :: t) a b <-> (h = a /\ In b t) \/ prec t a b.
Proof. intros. simpl. tauto. Qed.

Lemma prec_filter : forall f l a b,
  prec (filter f l) a b <-> prec l a b /\ f a = true /\ f b = true.
Proof.
  intros f. induction l as [|x t IH]; intros a b; simpl.
  - tauto.
  - destruct (f x) eqn:Hx; simpl.
    + rewrite IH, filter_In. split.
      * intros [[H1 [H2 H3]] | H]; [subst; tauto | tauto].
      * intros [[[H1 H2] | H] [Ha Hb]]; [left; tauto | right; tauto].
    + rewrite IH. split.
      * tauto.
      * intros [[[H1 H2] | H] [Ha Hb]]; [subst; congruence | tauto].
Qed.

Lemma prec_irrefl : forall l a, NoDup l -> ~ prec l a a.
Proof.
  induction l as [|x t IH]; simpl; intros a Hn H; [tauto|].
  inversion Hn as [|? ? Hx Ht]; subst. destruct H as [[E I] | H].
  - subst. tauto.
  - eapply IH; eassumption.
Qed.

Lemma prec_trans : forall l a b c, NoDup l -> prec l a b -> prec l b c -> prec l a c.
Proof.
  induction l as [|x t IH]; simpl; intros a b c Hn H1 H2; [tauto|].
  inversion Hn as [|? ? Hx Ht]; subst.
  destruct H1 as [[E1 I1] | H1].
  - subst. left. split; [reflexivity|].
    destruct H2 as [[E2 I2] | H2]; [exact I2 | apply prec_In in H2; tauto].
  - destruct H2 as [[E2 I2] | H2].
    + subst. apply prec_In in H1. tauto.
    + right. eapply IH; eassumption.
Qed.

Lemma prec_asym : forall l a b, NoDup l -> prec l a b -> ~ prec l b a.
Proof.
  intros l a b Hn H1 H2. eapply prec_irrefl; [exact Hn|]. eapply prec_trans; eassumption.
Qed.

(* in a duplicate-free list, a before x means a lies in the part in front of x *)
Lemma prec_split_front : forall l1 x l2 a, NoDup (l1 ++ x :: l2) -> prec (l1 ++ x :: l2) a x -> In a l1.
Proof.
  intros l1 x l2 a Hn H. apply prec_app in H. simpl in H.
  assert (Hx1 : ~ In x l1).
  { intros Hi. apply NoDup_remove_2 in Hn. apply Hn. apply in_app_iff. tauto. }
  assert (Hx2 : ~ In x l2).
  { intros Hi. apply NoDup_remove_2 in Hn. apply Hn. apply in_app_iff. tauto. }
  destruct H as [H | [[[E I] | H] | [H _]]].
  - apply prec_In in H. tauto.
  - tauto.
  - apply prec_In in H. tauto.
  - exact H.
Qed.

(* ------------------------------------------------------------------------- *)
(* topological orders                                                         *)
(* ------------------------------------------------------------------------- *)

Lemma topo_okb_iff : forall g l, topo_okb g l = true <-> topo g l.
Proof.
  intros g l. unfold topo_okb, topo. rewrite andb_true_iff, nodupb_iff, forallb_forall. split.
  - intros [Hn H]. split; [exact Hn|]. intros a b Hab. apply precb_iff. apply (H (a, b)). exact Hab.
  - intros [Hn H]. split; [exact Hn|]. intros [a b] Hab. simpl. apply precb_iff. apply H. exact Hab.
Qed.

Lemma reach_prec : forall g l a b, topo g l -> reach g a b -> prec l a b.
Proof.
  intros g l a b [Hn He] H. induction H.
  - apply He. assumption.
  - eapply prec_trans; [exact Hn | apply He; eassumption | exact IHreach].
Qed.

Lemma topo_acyclic : forall g l a, topo g l -> ~ reach g a a.
Proof.
  intros g l a Ht H. eapply prec_irrefl; [apply Ht|]. eapply reach_prec; eassumption.
Qed.

Lemma reach_trans : forall g a b c, reach g a b -> reach g b c -> reach g a c.
Proof.
  intros g a b c H. induction H; intros Hc.
  - eapply reach_step; eassumption.
  - eapply reach_step; [eassumption | apply IHreach; exact Hc].
Qed.

Lemma reach_snoc : forall g a b c, reach g a b -> In (b, c) g -> reach g a c.
Proof. intros. eapply reach_trans; [eassumption | apply reach_edge; assumption]. Qed.

Lemma reach_last : forall g a c, reach g a c -> In (a, c) g \/ exists b, reach g a b /\ In (b, c) g.
Proof.
  intros g a c H. induction H.
  - left. assumption.
  - right. destruct IHreach as [Hd | [m [Hm Hl]]].
    + exists b. split; [apply reach_edge; assumption | assumption].
    + exists m. split; [eapply reach_step; eassumption | assumption].
Qed.

(* ------------------------------------------------------------------------- *)
(* descendants by one pass along a topological order                          *)
(* ------------------------------------------------------------------------- *)

Definition desc_inv (g : graph) (r : node) (seen D : list node) : Prop :=
  forall y, In y D <-> y = r \/ (In y seen /\ reach g r y).

Lemma desc_test_iff : forall g x D,
  existsb (fun e => if Pos.eqb (snd e) x then memb (fst e) D else false) g = true <-> exists p, In (p, x) g /\ In p D.
Proof.
  intros g x D. rewrite existsb_exists. split.
  - intros [[p q] [He Ht]]. simpl in Ht. destruct (Pos.eqb q x) eqn:Hq; [|discriminate].
    apply Pos.eqb_eq in Hq. apply memb_In in Ht. subst. exists p. tauto.
  - intros [p [He Hp]]. exists (p, x). split; [exact He|]. simpl.
    rewrite Pos.eqb_refl. apply memb_In. exact Hp.
Qed.

Lemma desc_pass_inv : forall g r l2 l1 D,
  topo g (l1 ++ l2) -> desc_inv g r l1 D -> desc_inv g r (l1 ++ l2) (desc_pass g l2 D).
Proof.
  intros g r. induction l2 as [|x t IH]; intros l1 D Ht Hinv.
  - rewrite app_nil_r. exact Hinv.
  - simpl.
    assert (Heq : l1 ++ x :: t = (l1 ++ [x]) ++ t) by (rewrite <- app_assoc; reflexivity).
    destruct (existsb (fun e => if Pos.eqb (snd e) x then memb (fst e) D else false) g) eqn:Htest.
    + rewrite Heq. apply IH; [rewrite <- Heq; exact Ht|].
      apply desc_test_iff in Htest. destruct Htest as [p [Hpx HpD]].
      assert (Hrx : reach g r x).
      { apply Hinv in HpD. destruct HpD as [E | [_ Hr]].
        - subst. apply reach_edge. exact Hpx.
        - eapply reach_snoc; eassumption. }
      intros y. simpl. rewrite in_app_iff. simpl. split.
      * intros [E | Hy].
        -- subst. right. tauto.
        -- apply Hinv in Hy. tauto.
      * intros [E | [[Hy | [E | []]] Hr]].
        -- right. apply Hinv. tauto.
        -- right. apply Hinv. tauto.
        -- left. exact E.
    + rewrite Heq. apply IH; [rewrite <- Heq; exact Ht|].
      intros y. rewrite in_app_iff. simpl. split.
      * intros Hy. apply Hinv in Hy. tauto.
      * intros [E | [[Hy | [E | []]] Hr]].
        -- apply Hinv. tauto.
        -- apply Hinv. tauto.
        -- subst y. exfalso.
           assert (Hex : exists p, In (p, x) g /\ In p D).
           { destruct (reach_last _ _ _ Hr) as [Hd | [b [Hb Hbx]]].
             - exists r. split; [exact Hd | apply Hinv; tauto].
             - exists b. split; [exact Hbx|]. apply Hinv. right. split; [|exact Hb].
               destruct Ht as [Hn He]. eapply prec_split_front; [exact Hn | apply He; exact Hbx]. }
           apply desc_test_iff in Hex. congruence.
Qed.

Lemma desc_set_spec : forall g l r y, topo g l ->
  (In y (desc_set g l r) <-> y = r \/ (In y l /\ reach g r y)).
Proof.
  intros g l r y Ht. unfold desc_set.
  apply (desc_pass_inv g r l [] [r]); [exact Ht|].
  intros z. simpl. split; [intros [E|[]]; left; congruence | intros [E|[[] _]]; left; congruence].
Qed.

(* the one-pass computation IS nx.descendants on any topological order *)
Lemma descb_iff : forall g l r x, topo g l -> (descb g l r x = true <-> reach g r x).
Proof.
  intros g l r x Ht. unfold descb, descb_in. rewrite andb_true_iff, negb_true_iff, Pos.eqb_neq, memb_In, desc_set_spec by exact Ht.
  split.
  - intros [Hne [E | [_ Hr]]]; [congruence | exact Hr].
  - intros Hr. split.
    + intros E. subst. eapply topo_acyclic; eassumption.
    + right. split; [|exact Hr]. eapply prec_In. eapply reach_prec; eassumption.
Qed.

(* ------------------------------------------------------------------------- *)
(* one hoisting step = a stable partition of the window behind the loop node  *)
(* ------------------------------------------------------------------------- *)

Lemma split_at_spec : forall r l p q, split_at r l = Some (p, q) -> l = p ++ r :: q /\ ~ In r p.
Proof.
  intros r. induction l as [|x t IH]; simpl; intros p q H; [discriminate|].
  destruct (Pos.eqb x r) eqn:E.
  - apply Pos.eqb_eq in E. inversion H; subst. simpl. tauto.
  - apply Pos.eqb_neq in E. destruct (split_at r t) as [[a b]|] eqn:Hs; [|discriminate].
    inversion H; subst. destruct (IH a q eq_refl) as [H1 H2]. subst t. simpl. split; [reflexivity|].
    intros [Hx | Hx]; [congruence | tauto].
Qed.

Lemma split_at_In : forall r l, In r l -> exists p q, split_at r l = Some (p, q).
Proof.
  intros r. induction l as [|x t IH]; simpl; intros H; [tauto|].
  destruct (Pos.eqb x r) eqn:E.
  - eexists. eexists. reflexivity.
  - apply Pos.eqb_neq in E. destruct H as [H | H]; [congruence|].
    destruct (IH H) as [p [q Hs]]. rewrite Hs. eexists. eexists. reflexivity.
Qed.

Definition lift (D : node -> bool) (pre : list node) (r : node) (mid post : list node) : list node :=
  pre ++ filter (fun x => negb (D x)) mid ++ r :: filter D mid ++ post.

Lemma filter_partition_perm : forall (f : node -> bool) l,
  Permutation (filter (fun x => negb (f x)) l ++ filter f l) l.
Proof.
  intros f. induction l as [|x t IH]; simpl; [constructor|].
  destruct (f x); simpl.
  - apply Permutation_sym. apply Permutation_cons_app. apply Permutation_sym. exact IH.
  - constructor. exact IH.
Qed.

Lemma lift_perm : forall D pre r mid post,
  Permutation (lift D pre r mid post) (pre ++ r :: mid ++ post).
Proof.
  intros. unfold lift. apply Permutation_app_head.
  apply Permutation_sym. apply Permutation_cons_app.
  rewrite app_assoc. apply Permutation_app_tail. apply Permutation_sym. apply filter_partition_perm.
Qed.

(* the relative order of a before b survives the step unless b is lifted (b in the window, not
   marked) and a stays behind (a is the loop node or a marked node of the window) *)
Lemma lift_prec_keep : forall D pre r mid post a b,
  prec (pre ++ r :: mid ++ post) a b ->
  ~ (In b mid /\ D b = false /\ (a = r \/ (In a mid /\ D a = true))) ->
  prec (lift D pre r mid post) a b.
Proof.
  intros D pre r mid post a b H Hn. unfold lift.
  repeat (rewrite ?prec_app, ?prec_cons, ?in_app_iff in H; simpl in H).
  repeat (rewrite ?prec_app, ?prec_cons, ?prec_filter, ?in_app_iff, ?filter_In; simpl).
  rewrite ?negb_true_iff.
  pose proof (prec_In mid a b) as Hmid.
  destruct (D a) eqn:Da; destruct (D b) eqn:Db; intuition congruence.
Qed.

Lemma hoist_one_shape : forall D r l e,
  In r l -> exists pre mid post,
    l = pre ++ r :: mid ++ post /\ ~ In r pre /\ fst (hoist_one D r l e) = lift D pre r mid post.
Proof.
  intros D r l e Hin. destruct (split_at_In r l Hin) as [p [q Hs]].
  unfold hoist_one. rewrite Hs. simpl.
  destruct (split_at_spec _ _ _ _ Hs) as [Hl Hp].
  exists p, (firstn (e - (length p + 1)) q), (skipn (e - (length p + 1)) q).
  rewrite firstn_skipn. unfold lift. tauto.
Qed.

Lemma hoist_one_absent : forall D r l e, ~ In r l -> fst (hoist_one D r l e) = l.
Proof.
  intros D r l e Hn. unfold hoist_one. destruct (split_at r l) as [[p q]|] eqn:Hs; [|reflexivity].
  exfalso. apply Hn. destruct (split_at_spec _ _ _ _ Hs) as [Hl _]. subst. apply in_app_iff. simpl. tauto.
Qed.

Lemma In_dec_node : forall (x : node) l, In x l \/ ~ In x l.
Proof. intros. destruct (memb x l) eqn:E; [left; apply memb_In; exact E | right; apply memb_false; exact E]. Qed.

Lemma hoist_one_perm : forall D r l e, Permutation (fst (hoist_one D r l e)) l.
Proof.
  intros D r l e. destruct (In_dec_node r l) as [Hin | Hn].
  - destruct (hoist_one_shape D r l e Hin) as [pre [mid [post [Hl [_ Hh]]]]]. rewrite Hh. rewrite Hl at 1. apply lift_perm.
  - rewrite hoist_one_absent by exact Hn. apply Permutation_refl.
Qed.

(* D marks at least the successors of r and of marked nodes *)
Definition succ_closed (g : graph) (r : node) (D : node -> bool) : Prop :=
  forall a b, In (a, b) g -> (a = r \/ D a = true) -> D b = true.

Lemma hoist_one_topo : forall g D r l e,
  succ_closed g r D -> topo g l -> topo g (fst (hoist_one D r l e)).
Proof.
  intros g D r l e Hc [Hn He]. split.
  - eapply Permutation_NoDup; [apply Permutation_sym; apply hoist_one_perm | exact Hn].
  - intros a b Hab. destruct (In_dec_node r l) as [Hin | Hnin].
    + destruct (hoist_one_shape D r l e Hin) as [pre [mid [post [Hl [_ Hh]]]]]. rewrite Hh.
      apply lift_prec_keep; [rewrite <- Hl; apply He; exact Hab|].
      intros [_ [Db Ha]]. assert (D b = true) by (apply (Hc a b Hab); tauto). congruence.
    + rewrite hoist_one_absent by exact Hnin. apply He. exact Hab.
Qed.

Lemma prec_total : forall l a b, In a l -> In b l -> a <> b -> prec l a b \/ prec l b a.
Proof.
  induction l as [|x t IH]; simpl; intros a b Ha Hb Hne; [tauto|].
  destruct Ha as [Ha | Ha]; destruct Hb as [Hb | Hb].
  - congruence.
  - left. left. tauto.
  - right. left. tauto.
  - destruct (IH a b Ha Hb Hne); tauto.
Qed.

(* an inversion produced by one step: the node that fell behind is the loop node or marked, the
   node that went up is unmarked (and is not the loop node) *)
Lemma hoist_one_inversion : forall D r l e a b,
  NoDup l -> prec l a b -> prec (fst (hoist_one D r l e)) b a ->
  (a = r \/ D a = true) /\ D b = false /\ b <> r.
Proof.
  intros D r l e a b Hn Hab Hba.
  destruct (In_dec_node r l) as [Hin | Hnin].
  - destruct (hoist_one_shape D r l e Hin) as [pre [mid [post [Hl [Hrp Hh]]]]].
    assert (Hn' : NoDup (lift D pre r mid post)).
    { eapply Permutation_NoDup; [apply Permutation_sym; apply lift_perm | rewrite <- Hl; exact Hn]. }
    rewrite Hh in Hba.
    destruct (In_dec_node b mid) as [Hbm | Hbm].
    + destruct (D b) eqn:Db.
      * exfalso. eapply prec_asym; [exact Hn' | exact Hba|].
        apply lift_prec_keep; [rewrite <- Hl; exact Hab | intros [_ [F _]]; congruence].
      * assert (Hbr : b <> r).
        { intros E. subst b. rewrite Hl in Hn. apply NoDup_remove_2 in Hn. apply Hn.
          rewrite !in_app_iff. tauto. }
        destruct (Pos.eq_dec a r) as [E | Hne]; [tauto|].
        destruct (D a) eqn:Da; [tauto|].
        exfalso. eapply prec_asym; [exact Hn' | exact Hba|].
        apply lift_prec_keep; [rewrite <- Hl; exact Hab|]. intros [_ [_ [E | [_ E]]]]; congruence.
    + exfalso. eapply prec_asym; [exact Hn' | exact Hba|].
      apply lift_prec_keep; [rewrite <- Hl; exact Hab | tauto].
  - rewrite hoist_one_absent in Hba by exact Hnin. exfalso. eapply prec_asym; eassumption.
Qed.

(* ------------------------------------------------------------------------- *)
(* the whole pass                                                             *)
(* ------------------------------------------------------------------------- *)

Lemma descb_closed : forall g l0 r, topo g l0 -> succ_closed g r (descb g l0 r).
Proof.
  intros g l0 r Ht a b Hab [E | Ha]; apply (descb_iff g l0 r b Ht).
  - subst. apply reach_edge. exact Hab.
  - apply (descb_iff g l0 r a Ht) in Ha. eapply reach_snoc; eassumption.
Qed.

Lemma hoist_loops_perm : forall g l0 rl l e, Permutation (hoist_loops g l0 rl l e) l.
Proof.
  intros g l0. induction rl as [|r rs IH]; simpl; intros l e; [apply Permutation_refl|].
  change (descb_in (desc_set g l0 r) r) with (descb g l0 r).
  destruct (hoist_one (descb g l0 r) r l e) as [l' e'] eqn:H.
  eapply perm_trans; [apply IH|].
  replace l' with (fst (hoist_one (descb g l0 r) r l e)) by (rewrite H; reflexivity).
  apply hoist_one_perm.
Qed.

Lemma hoist_loops_topo : forall g l0 rl l e, topo g l0 -> topo g l -> topo g (hoist_loops g l0 rl l e).
Proof.
  intros g l0. induction rl as [|r rs IH]; simpl; intros l e H0 Hl; [exact Hl|].
  change (descb_in (desc_set g l0 r) r) with (descb g l0 r).
  destruct (hoist_one (descb g l0 r) r l e) as [l' e'] eqn:H.
  apply IH; [exact H0|].
  replace l' with (fst (hoist_one (descb g l0 r) r l e)) by (rewrite H; reflexivity).
  apply hoist_one_topo; [apply descb_closed; exact H0 | exact Hl].
Qed.

Lemma hoist_loops_inversion : forall g l0 rl l e a b,
  topo g l0 -> NoDup l -> prec l a b -> prec (hoist_loops g l0 rl l e) b a ->
  exists r, In r rl /\ (a = r \/ reach g r a) /\ ~ reach g r b /\ b <> r.
Proof.
  intros g l0. induction rl as [|r rs IH]; simpl; intros l e a b H0 Hn Hab Hba.
  - exfalso. eapply prec_asym; eassumption.
  - change (descb_in (desc_set g l0 r) r) with (descb g l0 r) in Hba.
    destruct (hoist_one (descb g l0 r) r l e) as [l' e'] eqn:H.
    assert (Hl' : l' = fst (hoist_one (descb g l0 r) r l e)) by (rewrite H; reflexivity).
    assert (Hp : Permutation l' l) by (rewrite Hl'; apply hoist_one_perm).
    assert (Hn' : NoDup l') by (eapply Permutation_NoDup; [apply Permutation_sym; exact Hp | exact Hn]).
    destruct (precb l' a b) eqn:Hpb.
    + apply precb_iff in Hpb. destruct (IH l' e' a b H0 Hn' Hpb Hba) as [r' [Hr' Hrest]].
      exists r'. tauto.
    + assert (Hne : a <> b) by (intros E; rewrite E in Hab; exact (prec_irrefl _ _ Hn Hab)).
      destruct (prec_In _ _ _ Hab) as [Ha Hb].
      assert (Hinv : prec l' b a).
      { destruct (prec_total l' a b) as [Hc | Hc].
        - eapply Permutation_in; [apply Permutation_sym; exact Hp | exact Ha].
        - eapply Permutation_in; [apply Permutation_sym; exact Hp | exact Hb].
        - exact Hne.
        - apply precb_iff in Hc. congruence.
        - exact Hc. }
      rewrite Hl' in Hinv.
      destruct (hoist_one_inversion _ _ _ _ _ _ Hn Hab Hinv) as [Hda [Hdb Hbr]].
      exists r. split; [tauto|]. split; [|split].
      * destruct Hda as [E | Hda]; [tauto|]. right. apply (descb_iff g l0 r a H0). exact Hda.
      * intros Hr. apply (descb_iff g l0 r b H0) in Hr. congruence.
      * exact Hbr.
Qed.

(* hoisting neither loses nor duplicates a statement *)
Theorem hoist_perm : forall g loops l, Permutation (hoist g loops l) l.
Proof. intros. unfold hoist. apply hoist_loops_perm. Qed.

(* the hoisted order is still a topological order: every statement comes after every statement it
   depends on *)
Theorem hoist_topo : forall g loops l, topo g l -> topo g (hoist g loops l).
Proof. intros. unfold hoist. apply hoist_loops_topo; assumption. Qed.

Corollary hoist_deps_first : forall g loops l y x,
  topo g l -> reach g y x -> prec (hoist g loops l) y x.
Proof. intros g loops l y x Ht Hr. eapply reach_prec; [apply hoist_topo; exact Ht | exact Hr]. Qed.

(* a statement that ends above a node it used to be below does not depend on it - in particular a
   statement lifted above a loop opening does not transitively depend on that loop *)
Theorem hoist_indep : forall g loops l r x,
  topo g l -> prec l r x -> prec (hoist g loops l) x r -> ~ reach g r x.
Proof.
  intros g loops l r x Ht _ Hxr Hreach.
  pose proof (hoist_topo g loops l Ht) as Ht'.
  eapply prec_asym; [apply Ht' | exact Hxr | eapply reach_prec; eassumption].
Qed.

(* every change of relative order is a lift over a loop: if b overtakes a, then a is a loop opening
   or depends on one, and b does not depend on that loop *)
Theorem hoist_inversions : forall g loops l a b,
  topo g l -> prec l a b -> prec (hoist g loops l) b a ->
  exists r, In r loops /\ (a = r \/ reach g r a) /\ ~ reach g r b /\ b <> r.
Proof.
  intros g loops l a b Ht Hab Hba. unfold hoist in Hba.
  destruct (hoist_loops_inversion g l (rev loops) l (length l) a b Ht (proj1 Ht) Hab Hba) as [r [Hr Hrest]].
  exists r. split; [apply in_rev; exact Hr | exact Hrest].
Qed.

(* ------------------------------------------------------------------------- *)
(* brackets: Loop r1 .. Loop rn, Body, EndLoop rn .. EndLoop r1               *)
(* ------------------------------------------------------------------------- *)

Fixpoint chain_edges (c : list node) : list (node * node) :=
  match c with
  | a :: (b :: _) as t => (a, b) :: chain_edges t
  | _ => []
  end.

(* every element of c is in l and precedes, in l, all later elements of c *)
Fixpoint chainok (l c : list node) : Prop :=
  match c with
  | [] => True
  | a :: t => In a l /\ (forall x, In x t -> prec l a x) /\ chainok l t
  end.

Lemma chain_sorted : forall l c, NoDup l ->
  (forall a b, In (a, b) (chain_edges c) -> prec l a b) ->
  (forall x, c = [x] -> In x l) -> chainok l c.
Proof.
  intros l c Hn. induction c as [|a t IH]; intros He H1; simpl; [exact I|].
  destruct t as [|b t'].
  - split; [apply H1; reflexivity|]. split; [intros x []| exact I].
  - assert (Hab : prec l a b) by (apply He; simpl; tauto).
    assert (Hok : chainok l (b :: t')).
    { apply IH.
      - intros x y Hxy. apply He. simpl. right. exact Hxy.
      - intros x Hx. inversion Hx; subst. apply (prec_In _ _ _ Hab). }
    split; [apply (prec_In _ _ _ Hab)|]. split; [|exact Hok].
    intros x [E | Hx].
    + subst. exact Hab.
    + eapply prec_trans; [exact Hn | exact Hab|]. destruct Hok as [_ [Hb _]]. apply Hb. exact Hx.
Qed.

Lemma chainok_nodup : forall l c, NoDup l -> chainok l c -> NoDup c.
Proof.
  intros l c Hn. induction c as [|a t IH]; simpl; intros H; [constructor|].
  destruct H as [_ [Ha Hok]]. constructor; [|apply IH; exact Hok].
  intros Hi. eapply prec_irrefl; [exact Hn | apply Ha; exact Hi].
Qed.

Lemma filter_none : forall (f : node -> bool) l, (forall x, In x l -> f x = false) -> filter f l = [].
Proof.
  intros f. induction l as [|x t IH]; simpl; intros H; [reflexivity|].
  rewrite (H x) by tauto. apply IH. intros y Hy. apply H. tauto.
Qed.

Lemma prec_split_back : forall l1 a l2 x, NoDup (l1 ++ a :: l2) -> prec (l1 ++ a :: l2) a x -> In x l2.
Proof.
  intros l1 a l2 x Hn H. apply prec_app in H. simpl in H.
  assert (Ha1 : ~ In a l1).
  { intros Hi. apply NoDup_remove_2 in Hn. apply Hn. apply in_app_iff. tauto. }
  assert (Ha2 : ~ In a l2).
  { intros Hi. apply NoDup_remove_2 in Hn. apply Hn. apply in_app_iff. tauto. }
  destruct H as [H | [[[E I] | H] | [H _]]].
  - apply prec_In in H. tauto.
  - exact I.
  - apply prec_In in H. tauto.
  - tauto.
Qed.

Lemma nodup_app_r : forall (l1 l2 : list node), NoDup (l1 ++ l2) -> NoDup l2.
Proof.
  induction l1 as [|y l1 IH]; simpl; intros l2 H; [exact H|]. inversion H; subst. apply IH. assumption.
Qed.

Lemma nodup_app_disjoint : forall (l1 : list node) a l2 x, NoDup (l1 ++ a :: l2) -> In x l2 -> ~ In x l1.
Proof.
  induction l1 as [|y l1 IH]; simpl; intros a l2 x Hn H2 Hi; [exact Hi|].
  inversion Hn as [|? ? Hy Hn']; subst. destruct Hi as [E | Hi].
  - subst. apply Hy. apply in_app_iff. right. right. exact H2.
  - eapply IH; eassumption.
Qed.

Lemma chainok_tail : forall l1 a l2 c, NoDup (l1 ++ a :: l2) ->
  (forall x, In x c -> In x l2) -> chainok (l1 ++ a :: l2) c -> chainok l2 c.
Proof.
  intros l1 a l2 c Hn. induction c as [|b c IH]; simpl; intros Hin Hk; [exact I|].
  destruct Hk as [_ [Hb Hk]]. split; [apply Hin; tauto|].
  split; [|apply IH; [intros; apply Hin; tauto | exact Hk]].
  intros x Hx. specialize (Hb x Hx). apply prec_app in Hb. simpl in Hb.
  assert (Hb2 : In b l2) by (apply Hin; tauto).
  assert (Hb1 : ~ In b l1) by (eapply nodup_app_disjoint; eassumption).
  assert (Ha2 : ~ In a l2).
  { intros Hi. apply NoDup_remove_2 in Hn. apply Hn. apply in_app_iff. tauto. }
  destruct Hb as [Hb | [[[E I'] | Hb] | [Hb _]]].
  - apply prec_In in Hb. tauto.
  - subst. tauto.
  - exact Hb.
  - tauto.
Qed.

Lemma chainok_filter : forall c l, NoDup l -> chainok l c -> filter (fun x => memb x c) l = c.
Proof.
  induction c as [|a t IH]; intros l Hn Hok.
  - apply filter_none. intros. reflexivity.
  - simpl in Hok. destruct Hok as [Ha [Hprec Hok]].
    destruct (in_split _ _ Ha) as [l1 [l2 Hl]]. subst l.
    assert (Ha1 : ~ In a l1).
    { intros Hi. apply NoDup_remove_2 in Hn. apply Hn. apply in_app_iff. tauto. }
    assert (Ha2 : ~ In a l2).
    { intros Hi. apply NoDup_remove_2 in Hn. apply Hn. apply in_app_iff. tauto. }
    assert (Ht2 : forall x, In x t -> In x l2).
    { intros x Hx. eapply prec_split_back; [exact Hn | apply Hprec; exact Hx]. }
    assert (Ht1 : forall x, In x t -> ~ In x l1).
    { intros x Hx. eapply nodup_app_disjoint; [exact Hn | apply Ht2; exact Hx]. }
    assert (Hn2 : NoDup l2).
    { apply nodup_app_r in Hn. inversion Hn; assumption. }
    rewrite filter_app. simpl. rewrite Pos.eqb_refl. simpl.
    rewrite (filter_none _ l1).
    2:{ intros x Hx. simpl. apply orb_false_iff. split.
        - apply Pos.eqb_neq. intros E. subst. tauto.
        - apply memb_false. intros Hi. apply (Ht1 x Hi Hx). }
    simpl. f_equal.
    rewrite (filter_ext_in (fun x => Pos.eqb x a || memb x t) (fun x => memb x t)).
    2:{ intros x Hx. replace (Pos.eqb x a) with false; [reflexivity|].
        symmetry. apply Pos.eqb_neq. intros E. subst. tauto. }
    apply IH; [exact Hn2|]. eapply chainok_tail; eassumption.
Qed.

(* any topological order of a graph holding the chain
     Loop r1 -> .. -> Loop rn -> Body -> EndLoop rn -> .. -> EndLoop r1
   opens the loops in loop order, has the update innermost and closes the loops in reverse order *)
Theorem nest_brackets : forall g loops body ends l,
  topo g l -> In body l ->
  (forall a b, In (a, b) (chain_edges (chain loops body ends)) -> In (a, b) g) ->
  filter (fun x => memb x (chain loops body ends)) l = chain loops body ends.
Proof.
  intros g loops body ends l [Hn He] Hb Hc.
  apply chainok_filter; [exact Hn|].
  apply chain_sorted; [exact Hn | intros a b Hab; apply He; apply Hc; exact Hab|].
  intros x Hx. unfold chain in Hx.
  destruct loops as [|r loops]; simpl in Hx.
  - inversion Hx; subst. exact Hb.
  - inversion Hx as [[E1 E2]]. destruct loops; discriminate.
Qed.

Lemma brackets_okb_iff : forall loops body ends l,
  brackets_okb loops body ends l = true <->
  length loops = length ends /\ filter (fun x => memb x (chain loops body ends)) l = chain loops body ends.
Proof.
  intros. unfold brackets_okb. rewrite andb_true_iff, Nat.eqb_eq, nodes_eqb_eq. tauto.
Qed.

(* ------------------------------------------------------------------------- *)
(* the decision procedures evaluated on the compiler's own lists              *)
(* ------------------------------------------------------------------------- *)

Lemma forallb_memb : forall a b, forallb (fun x => memb x b) a = true <-> (forall x, In x a -> In x b).
Proof.
  intros a b. rewrite forallb_forall. split; intros H x Hx; [apply memb_In | apply memb_In]; auto.
Qed.

Lemma covers_okb_iff : forall ns l, covers_okb ns l = true <-> (forall x, In x ns <-> In x l).
Proof.
  intros ns l. unfold covers_okb. rewrite andb_true_iff, !forallb_memb. split.
  - intros [H1 H2] x. split; auto.
  - intros H. split; intros x Hx; apply H; exact Hx.
Qed.

Lemma permb_sound : forall a b, permb a b = true -> Permutation a b.
Proof.
  intros a b H. unfold permb in H. rewrite !andb_true_iff, !nodupb_iff, !forallb_memb in H.
  destruct H as [[[Ha Hb] Hab] Hba]. apply NoDup_Permutation; [exact Ha | exact Hb|].
  intros x. split; auto.
Qed.

Lemma permb_complete : forall a b, NoDup a -> Permutation a b -> permb a b = true.
Proof.
  intros a b Ha Hp. unfold permb. rewrite !andb_true_iff, !nodupb_iff, !forallb_memb.
  repeat split.
  - exact Ha.
  - eapply Permutation_NoDup; eassumption.
  - intros x Hx. eapply Permutation_in; eassumption.
  - intros x Hx. eapply Permutation_in; [apply Permutation_sym; exact Hp | exact Hx].
Qed.

Lemma lifted_indepb_iff : forall g loops pre post, topo g pre ->
  (lifted_indepb g loops pre post = true <->
   forall r x, In r loops -> prec pre r x -> prec post x r -> ~ reach g r x).
Proof.
  intros g loops pre post Ht. unfold lifted_indepb. cbv zeta.
  rewrite forallb_forall. split.
  - intros H r x Hr Hrx Hxr Hreach.
    specialize (H r Hr). rewrite forallb_forall in H.
    specialize (H x (proj2 (prec_In _ _ _ Hrx))).
    change (descb_in (desc_set g pre r) r x) with (descb g pre r x) in H.
    apply precb_iff in Hrx. apply precb_iff in Hxr. rewrite Hrx, Hxr in H.
    apply negb_true_iff in H. apply (descb_iff g pre r x Ht) in Hreach. congruence.
  - intros H r Hr. apply forallb_forall. intros x Hx.
    change (descb_in (desc_set g pre r) r x) with (descb g pre r x).
    destruct (precb pre r x) eqn:E1; [|reflexivity].
    destruct (precb post x r) eqn:E2; [|reflexivity].
    apply precb_iff in E1. apply precb_iff in E2.
    apply negb_true_iff. destruct (descb g pre r x) eqn:Ed; [|reflexivity].
    exfalso. apply (H r x Hr E1 E2). apply (descb_iff g pre r x Ht). exact Ed.
Qed.

(* a topological order never has a statement above something it depends on *)
Lemma topo_lift_indep : forall g post r x, topo g post -> prec post x r -> ~ reach g r x.
Proof.
  intros g post r x Ht Hxr Hreach.
  eapply prec_asym; [apply Ht | exact Hxr | eapply reach_prec; eassumption].
Qed.

(* SOUND: when the checker accepts the code's post-hoist list, that list has every clause *)
Theorem hoist_spec_okb_sound : forall g loops pre post,
  topo g pre -> hoist_spec_okb g loops pre post = true ->
  Permutation pre post /\ topo g post /\
  (forall y x, reach g y x -> prec post y x) /\
  (forall r x, In r loops -> prec pre r x -> prec post x r -> ~ reach g r x).
Proof.
  intros g loops pre post Ht H. unfold hoist_spec_okb in H. rewrite !andb_true_iff in H.
  destruct H as [[Hp Hto] Hl]. apply topo_okb_iff in Hto.
  split; [apply permb_sound; exact Hp|]. split; [exact Hto|]. split.
  - intros y x Hr. eapply reach_prec; eassumption.
  - apply (lifted_indepb_iff g loops pre post Ht). exact Hl.
Qed.

(* COMPLETE: every legal reordering is accepted (hoisting less, or in another legal way, passes) *)
Theorem hoist_spec_okb_complete : forall g loops pre post,
  topo g pre -> Permutation pre post -> topo g post -> hoist_spec_okb g loops pre post = true.
Proof.
  intros g loops pre post Ht Hp Hto. unfold hoist_spec_okb. rewrite !andb_true_iff. repeat split.
  - apply permb_complete; [apply Ht | exact Hp].
  - apply topo_okb_iff. exact Hto.
  - apply (lifted_indepb_iff g loops pre post Ht). intros r x _ _ Hxr. eapply topo_lift_indep; eassumption.
Qed.

(* the model of FlowGraph.__hoist meets the specification, for every graph, loop list and order *)
Theorem hoist_meets_spec : forall g loops l, topo g l -> hoist_spec_okb g loops l (hoist g loops l) = true.
Proof.
  intros g loops l Ht. apply hoist_spec_okb_complete; [exact Ht | | apply hoist_topo; exact Ht].
  apply Permutation_sym. apply hoist_perm.
Qed.

Lemma inversions_justifiedb_sound : forall g loops pre post, topo g pre ->
  inversions_justifiedb g loops pre post = true ->
  forall a b, prec pre a b -> prec post b a ->
  exists r, In r loops /\ (a = r \/ reach g r a) /\ ~ reach g r b /\ b <> r.
Proof.
  intros g loops pre post Ht H a b Hab Hba. unfold inversions_justifiedb in H. cbv zeta in H.
  rewrite forallb_forall in H. specialize (H a (proj1 (prec_In _ _ _ Hab))).
  rewrite forallb_forall in H. specialize (H b (proj2 (prec_In _ _ _ Hab))).
  apply precb_iff in Hab. apply precb_iff in Hba. rewrite Hab, Hba in H. simpl in H.
  apply existsb_exists in H. destruct H as [[r D] [Hr H]]. simpl in H.
  apply in_map_iff in Hr. destruct Hr as [r' [Er Hr]]. inversion Er; subst r' D. clear Er.
  change (descb_in (desc_set g pre r) r) with (descb g pre r) in H.
  rewrite !andb_true_iff, !negb_true_iff, orb_true_iff in H. destruct H as [[H1 H2] H3].
  exists r. split; [exact Hr|]. split; [|split].
  - destruct H1 as [E | H1]; [left; apply Pos.eqb_eq; exact E | right; apply (descb_iff g pre r a Ht); exact H1].
  - intros Hreach. apply (descb_iff g pre r b Ht) in Hreach. congruence.
  - apply Pos.eqb_neq. exact H3.
Qed.

(* ------------------------------------------------------------------------- *)
(* consumption of the brackets into the statement tree (HiFiber.__trans_nodes) *)
(* ------------------------------------------------------------------------- *)

Inductive ftok := FOpen (n : node) | FClose | FLeaf (n : node).

(* pre-order reading of a statement tree, every token with its nesting depth *)
Fixpoint flat (d : nat) (t : tree) : list (ftok * nat) :=
  match t with
  | Leaf n => [(FLeaf n, d)]
  | For n body => (FOpen n, d) :: flat_map (flat (S d)) body ++ [(FClose, S d)]
  end.
Definition flat_forest (d : nat) (ts : list tree) : list (ftok * nat) := flat_map (flat d) ts.

(* the sorted list read the same way: bracket depth computed by counting *)
Fixpoint toks (cls : node -> kind) (d : nat) (l : list node) : list (ftok * nat) :=
  match l with
  | [] => []
  | x :: t =>
      match cls x with
      | KStmt => (FLeaf x, d) :: toks cls d t
      | KLoop => (FOpen x, d) :: toks cls (S d) t
      | KEnd => (FClose, d) :: toks cls (pred d) t
      end
  end.

Lemma toks_depths : forall cls l d, map snd (toks cls d l) = depths cls d l.
Proof.
  intros cls. induction l as [|x t IH]; intros d; simpl; [reflexivity|].
  destruct (cls x); simpl; rewrite IH; reflexivity.
Qed.

(* tokens already consumed, read off the machine state *)
Fixpoint pref (stack : list (node * list tree)) (cur : list tree) : list (ftok * nat) :=
  match stack with
  | [] => flat_forest 0 (rev cur)
  | (m, outer) :: st => pref st outer ++ (FOpen m, length st) :: flat_forest (S (length st)) (rev cur)
  end.

Lemma flat_forest_app : forall d a b, flat_forest d (a ++ b) = flat_forest d a ++ flat_forest d b.
Proof. intros. unfold flat_forest. apply flat_map_app. Qed.

Lemma pref_snoc : forall stack cur t0, pref stack (t0 :: cur) = pref stack cur ++ flat (length stack) t0.
Proof.
  intros stack cur t0. destruct stack as [|[m outer] st]; simpl.
  - rewrite flat_forest_app. unfold flat_forest at 2. simpl. rewrite app_nil_r. reflexivity.
  - rewrite flat_forest_app. unfold flat_forest at 2. simpl. rewrite app_nil_r.
    rewrite <- app_assoc. simpl. reflexivity.
Qed.

Lemma consume_flat : forall cls l stack cur ts,
  consume cls l stack cur = Some ts ->
  flat_forest 0 ts = pref stack cur ++ toks cls (length stack) l.
Proof.
  intros cls. induction l as [|x t IH]; intros stack cur ts H; simpl in H.
  - destruct stack; [|discriminate]. inversion H; subst. simpl. rewrite app_nil_r. reflexivity.
  - simpl. destruct (cls x) eqn:Hc.
    + apply IH in H. rewrite H. simpl. rewrite <- app_assoc. simpl. unfold flat_forest. simpl. reflexivity.
    + destruct stack as [|[m outer] st]; [discriminate|].
      apply IH in H. rewrite H. rewrite pref_snoc. simpl.
      rewrite <- !app_assoc. simpl. rewrite <- !app_assoc. simpl. reflexivity.
    + apply IH in H. rewrite H. rewrite pref_snoc. simpl. rewrite <- app_assoc. reflexivity.
Qed.

(* reading the built tree in order, with nesting depth, gives back exactly the sorted list with
   every node at its bracket depth: nothing lost, reordered or put at another nesting level *)
Theorem trans_nodes_faithful : forall cls l ts,
  trans_nodes cls l = Some ts -> flat_forest 0 ts = toks cls 0 l.
Proof. intros cls l ts H. apply consume_flat in H. exact H. Qed.

Lemma consume_balanced : forall cls l stack cur,
  (exists ts, consume cls l stack cur = Some ts) <-> balancedb cls (length stack) l = true.
Proof.
  intros cls. induction l as [|x t IH]; intros stack cur; simpl.
  - destruct stack; simpl; split; intros H; try reflexivity; try discriminate.
    + eexists. reflexivity.
    + destruct H as [ts H]. discriminate.
  - destruct (cls x).
    + rewrite (IH ((x, cur) :: stack) []). simpl. tauto.
    + destruct stack as [|[m outer] st]; simpl.
      * split; [intros [ts H]; discriminate | discriminate].
      * apply IH.
    + apply IH.
Qed.

Theorem trans_nodes_total : forall cls l,
  (exists ts, trans_nodes cls l = Some ts) <-> balancedb cls 0 l = true.
Proof. intros. unfold trans_nodes. apply (consume_balanced cls l [] []). Qed.

Lemma balancedb_filter : forall cls (P : node -> bool) l d,
  (forall x, cls x <> KStmt -> P x = true) ->
  balancedb cls d (filter P l) = balancedb cls d l.
Proof.
  intros cls P. induction l as [|x t IH]; intros d HP; simpl; [reflexivity|].
  destruct (P x) eqn:Px; simpl.
  - destruct (cls x); [apply IH; exact HP | destruct d; [reflexivity | apply IH; exact HP] | apply IH; exact HP].
  - destruct (cls x) eqn:Hc; try (rewrite HP in Px; [discriminate | congruence]). apply IH. exact HP.
Qed.

Lemma balancedb_loops : forall cls loops rest d,
  (forall x, In x loops -> cls x = KLoop) ->
  balancedb cls d (loops ++ rest) = balancedb cls (length loops + d) rest.
Proof.
  intros cls. induction loops as [|r loops IH]; intros rest d H; simpl; [reflexivity|].
  rewrite (H r) by (simpl; tauto). rewrite IH by (intros; apply H; simpl; tauto).
  f_equal. lia.
Qed.

Lemma balancedb_ends : forall cls es d,
  (forall x, In x es -> cls x = KEnd) -> balancedb cls d es = Nat.eqb d (length es).
Proof.
  intros cls. induction es as [|e es IH]; intros d H; simpl.
  - destruct d; reflexivity.
  - rewrite (H e) by (simpl; tauto). destruct d; [reflexivity|]. simpl. apply IH. intros; apply H; simpl; tauto.
Qed.

(* the bracket discipline checked on the list is what the consumer needs: it then builds a tree *)
Theorem brackets_balanced : forall loops body ends l,
  NoDup (chain loops body ends) -> length loops = length ends ->
  filter (fun x => memb x (chain loops body ends)) l = chain loops body ends ->
  balancedb (classify loops ends) 0 l = true.
Proof.
  intros loops body ends l Hn Hlen Hf.
  set (cls := classify loops ends).
  assert (Hloops : forall x, In x loops -> cls x = KLoop).
  { intros x Hx. unfold cls, classify. apply memb_In in Hx. rewrite Hx. reflexivity. }
  assert (Hdisj : forall x, In x loops -> ~ In x (body :: rev ends)).
  { unfold chain in Hn. clear -Hn. induction loops as [|r loops IH]; simpl in *; [tauto|].
    inversion Hn; subst. intros x [E | Hx].
    - subst. intros Hi. apply H1. apply in_app_iff. right. exact Hi.
    - apply IH; assumption. }
  assert (Hends : forall x, In x ends -> cls x = KEnd).
  { intros x Hx. unfold cls, classify.
    destruct (memb x loops) eqn:E.
    - exfalso. apply memb_In in E. apply (Hdisj x E). simpl. right. apply in_rev in Hx. exact Hx.
    - apply memb_In in Hx. rewrite Hx. reflexivity. }
  assert (Hbody : cls body = KStmt).
  { unfold cls, classify.
    destruct (memb body loops) eqn:E.
    - exfalso. apply memb_In in E. apply (Hdisj body E). simpl. tauto.
    - destruct (memb body ends) eqn:E2; [|reflexivity].
      exfalso. apply memb_In in E2. unfold chain in Hn. apply nodup_app_r in Hn.
      inversion Hn; subst. apply H1. apply in_rev in E2. exact E2. }
  rewrite <- (balancedb_filter cls (fun x => memb x (chain loops body ends)) l 0).
  - rewrite Hf. unfold chain. rewrite balancedb_loops by exact Hloops. simpl. rewrite Hbody.
    rewrite balancedb_ends.
    + rewrite rev_length. apply Nat.eqb_eq. lia.
    + intros x Hx. apply Hends. apply in_rev. exact Hx.
  - intros x Hx. apply memb_In. unfold chain. apply in_app_iff. unfold cls, classify in Hx.
    destruct (memb x loops) eqn:E; [left; apply memb_In; exact E|].
    destruct (memb x ends) eqn:E2; [|congruence].
    right. right. apply in_rev. rewrite rev_involutive. apply memb_In. exact E2.
Qed.

Lemma chain_nodup : forall g loops body ends l,
  topo g l -> In body l ->
  (forall a b, In (a, b) (chain_edges (chain loops body ends)) -> In (a, b) g) ->
  NoDup (chain loops body ends).
Proof.
  intros g loops body ends l [Hn He] Hb Hc.
  apply (chainok_nodup l); [exact Hn|].
  apply chain_sorted; [exact Hn | intros a b Hab; apply He; apply Hc; exact Hab|].
  intros x Hx. unfold chain in Hx.
  destruct loops as [|r loops]; simpl in Hx.
  - inversion Hx; subst. exact Hb.
  - inversion Hx as [[E1 E2]]. destruct loops; discriminate.
Qed.

(* end to end, for the model: whatever topological order the sort returns, the hoisted list is a
   permutation of it, is still a topological order, has its brackets properly nested in loop order
   with the update innermost, and the bracket consumer turns it into a tree whose in-order reading
   is that very list *)
Theorem hoisted_order_ok : forall g loops body ends l,
  topo g l -> In body l -> length loops = length ends ->
  (forall a b, In (a, b) (chain_edges (chain loops body ends)) -> In (a, b) g) ->
  let l' := hoist g loops l in
  Permutation l' l /\ topo g l' /\
  filter (fun x => memb x (chain loops body ends)) l' = chain loops body ends /\
  exists ts, trans_nodes (classify loops ends) l' = Some ts /\
             flat_forest 0 ts = toks (classify loops ends) 0 l'.
Proof.
  intros g loops body ends l Ht Hb Hlen Hc l'.
  assert (Hp : Permutation l' l) by apply hoist_perm.
  assert (Ht' : topo g l') by (apply hoist_topo; exact Ht).
  assert (Hb' : In body l') by (eapply Permutation_in; [apply Permutation_sym; exact Hp | exact Hb]).
  assert (Hf : filter (fun x => memb x (chain loops body ends)) l' = chain loops body ends)
    by (eapply nest_brackets; eassumption).
  split; [exact Hp|]. split; [exact Ht'|]. split; [exact Hf|].
  assert (Hbal : balancedb (classify loops ends) 0 l' = true).
  { apply (brackets_balanced loops body ends); [eapply chain_nodup; eassumption | exact Hlen | exact Hf]. }
  apply trans_nodes_total in Hbal. destruct Hbal as [ts Hts].
  exists ts. split; [exact Hts | apply trans_nodes_faithful; exact Hts].
Qed.

(* ------------------------------------------------------------------------- *)
(* Examples: the hypotheses are met by an object the real compiler produced   *)
(* ------------------------------------------------------------------------- *)

(* Flow graph of  Z[m, n] = A[k, m] * B[k, n]  with K: [uniform_occupancy(A.4), uniform_occupancy(A.2)],
   loop order [K2, M, K1, N, K0] (two dynamic partitionings sitting between loops), as returned by
   FlowGraph.get_graph(); ex_pre is a topological order of it (seeded "lazy" tie-break: every
   statement as late as possible), ex_post is what the real FlowGraph.__hoist made of ex_pre. *)
(* nodes: 1=(LoopNode, K2);
   2=(LoopNode, M);
   3=(LoopNode, K1);
   4=(LoopNode, N);
   5=(LoopNode, K0);
   6=(OtherNode, Body);
   7=(EndLoopNode, K0);
   8=(EndLoopNode, N);
   9=(EndLoopNode, K1);
   10=(EndLoopNode, M);
   11=(EndLoopNode, K2);
   12=(OtherNode, Footer);
   13=(OtherNode, Graphics);
   14=(OtherNode, Output);
   15=(GetRootNode, Z, ['M', 'N']);
   16=(PartNode, A, ('K',));
   17=(PartNode, A, ('K1I',));
   18=(SwizzleNode, A, ['K', 'M'], loop-order);
   19=(GetRootNode, A, ['K', 'M']);
   20=(PartNode, B, ('K',));
   21=(PartNode, B, ('K1I',));
   22=(SwizzleNode, B, ['K', 'N'], loop-order);
   23=(GetRootNode, B, ['K', 'N']);
   24=(FromFiberNode, A, K);
   25=(SwizzleNode, A, ['K2', 'M', 'K1I'], loop-order);
   26=(GetRootNode, A, ['K2', 'M', 'K1I']);
   27=(FromFiberNode, B, K);
   28=(SwizzleNode, B, ['K2', 'K1I', 'N'], loop-order);
   29=(GetRootNode, B, ['K2', 'K1I', 'N']);
   30=(FromFiberNode, B, K1I);
   31=(SwizzleNode, B, ['K1', 'N', 'K0'], loop-order);
   32=(GetRootNode, B, ['K1', 'N', 'K0']);
   33=(FromFiberNode, A, K1I);
   34=(SwizzleNode, A, ['K1', 'K0'], loop-order);
   35=(GetRootNode, A, ['K1', 'K0']) *)
Definition ex_g : graph := [(7%positive, 8%positive); (9%positive, 10%positive); (11%positive, 12%positive); (10%positive, 11%positive); (8%positive, 9%positive); (24%positive, 16%positive); (33%positive, 17%positive); (27%positive, 20%positive); (30%positive, 21%positive); (19%positive, 24%positive); (35%positive, 3%positive); (35%positive, 21%positive); (26%positive, 1%positive); (26%positive, 20%positive); (23%positive, 27%positive); (32%positive, 3%positive); (29%positive, 1%positive); (15%positive, 2%positive); (5%positive, 6%positive); (3%positive, 5%positive); (3%positive, 4%positive); (1%positive, 30%positive); (1%positive, 2%positive); (2%positive, 33%positive); (2%positive, 3%positive); (2%positive, 4%positive); (4%positive, 5%positive); (4%positive, 6%positive); (6%positive, 7%positive); (13%positive, 1%positive); (14%positive, 15%positive); (14%positive, 13%positive); (16%positive, 17%positive); (16%positive, 25%positive); (17%positive, 34%positive); (20%positive, 21%positive); (20%positive, 28%positive); (21%positive, 31%positive); (18%positive, 19%positive); (18%positive, 13%positive); (34%positive, 35%positive); (25%positive, 26%positive); (22%positive, 23%positive); (22%positive, 13%positive); (31%positive, 32%positive); (28%positive, 29%positive)].
Definition ex_loops : list node := [1%positive; 2%positive; 3%positive; 4%positive; 5%positive].
Definition ex_body : node := 6%positive.
Definition ex_ends : list node := [11%positive; 10%positive; 9%positive; 8%positive; 7%positive].
Definition ex_pre : list node := [18%positive; 22%positive; 23%positive; 19%positive; 14%positive; 24%positive; 16%positive; 13%positive; 25%positive; 26%positive; 27%positive; 20%positive; 28%positive; 29%positive; 1%positive; 15%positive; 2%positive; 33%positive; 17%positive; 34%positive; 30%positive; 35%positive; 21%positive; 31%positive; 32%positive; 3%positive; 4%positive; 5%positive; 6%positive; 7%positive; 8%positive; 9%positive; 10%positive; 11%positive; 12%positive].
Definition ex_post : list node := [18%positive; 22%positive; 23%positive; 19%positive; 14%positive; 24%positive; 16%positive; 13%positive; 25%positive; 26%positive; 27%positive; 20%positive; 28%positive; 29%positive; 15%positive; 1%positive; 30%positive; 2%positive; 33%positive; 17%positive; 34%positive; 35%positive; 21%positive; 31%positive; 32%positive; 3%positive; 4%positive; 5%positive; 6%positive; 7%positive; 8%positive; 9%positive; 10%positive; 11%positive; 12%positive].

Definition edge_memb (e : node * node) (g : graph) : bool :=
  existsb (fun f => Pos.eqb (fst e) (fst f) && Pos.eqb (snd e) (snd f)) g.

Lemma edges_incl_b : forall c g,
  forallb (fun e => edge_memb e g) c = true -> forall a b, In (a, b) c -> In (a, b) g.
Proof.
  intros c g H a b Hab. rewrite forallb_forall in H. specialize (H (a, b) Hab).
  unfold edge_memb in H. apply existsb_exists in H. destruct H as [[p q] [Hpq He]]. simpl in He.
  apply andb_true_iff in He. destruct He as [E1 E2]. apply Pos.eqb_eq in E1. apply Pos.eqb_eq in E2.
  subst. exact Hpq.
Qed.

Example ex_pre_topo : topo ex_g ex_pre.
Proof. apply topo_okb_iff. vm_compute. reflexivity. Qed.

(* the hoist pass really moves statements here (GetRoot of Z above Loop K2, the Tensor.fromFiber of
   B's K1I fiber above Loop M) and the model computes exactly the list the code computed *)
Example ex_hoist_is_code : hoist ex_g ex_loops ex_pre = ex_post /\ ex_post <> ex_pre.
Proof. split; [vm_compute; reflexivity | intros H; vm_compute in H; discriminate]. Qed.

Example ex_chain_in_graph : forall a b,
  In (a, b) (chain_edges (chain ex_loops ex_body ex_ends)) -> In (a, b) ex_g.
Proof. apply edges_incl_b. vm_compute. reflexivity. Qed.

(* all hypotheses of hoisted_order_ok hold for this object, hence all its conclusions *)
Example ex_hoisted_order_ok :
  Permutation ex_post ex_pre /\ topo ex_g ex_post /\
  filter (fun x => memb x (chain ex_loops ex_body ex_ends)) ex_post = chain ex_loops ex_body ex_ends /\
  exists ts, trans_nodes (classify ex_loops ex_ends) ex_post = Some ts /\
             flat_forest 0 ts = toks (classify ex_loops ex_ends) 0 ex_post.
Proof.
  destruct ex_hoist_is_code as [E _]. rewrite <- E.
  apply (hoisted_order_ok ex_g ex_loops ex_body ex_ends ex_pre).
  - exact ex_pre_topo.
  - vm_compute. tauto.
  - reflexivity.
  - exact ex_chain_in_graph.
Qed.

(* the specification checker accepts the code's list, and rejects a list in which the
   Tensor.fromFiber of B's K1I fiber (node 30, bound by Loop K2 = node 1) is lifted above Loop K2 *)
Example ex_spec_accepts : hoist_spec_okb ex_g ex_loops ex_pre ex_post = true.
Proof. vm_compute. reflexivity. Qed.

Definition ex_bad_post : list node :=
  [18; 22; 23; 19; 14; 24; 16; 13; 25; 26; 27; 20; 28; 29; 15; 30; 1; 2; 33; 17; 34; 35; 21; 31; 32; 3; 4; 5; 6; 7; 8; 9; 10; 11; 12]%positive.

Example ex_spec_rejects : hoist_spec_okb ex_g ex_loops ex_pre ex_bad_post = false /\
  first_bad_edge ex_g ex_bad_post = "1>30"%string.
Proof. split; vm_compute; reflexivity. Qed.
