(* Property C13 - fusion blocks are a legal, ordered partition of the Einsums.
   Only statements here; proofs are in Proofs/FusionProofs.v. *)
From Coq Require Import String List.
Require Import TV.Model.Fusion TV.Proofs.FusionProofs.
Import ListNotations.

(* For every history of Einsums (any length, any features): the blocks list every
   Einsum exactly once, in program order, in contiguous non-empty groups, and inside a
   group all Einsums have the same configuration and temporal prefix and pairwise
   disjoint functional components. *)
Theorem C13_fusion_legal : forall h : list einfo, legal h (chron (frun h)).
Proof. exact fusion_legal. Qed.

Theorem C13_blocks_flatten : forall h, concat (get_blocks (frun h)) = map e_name h.
Proof. exact blocks_flatten. Qed.

(* the verified decision procedure evaluated on the compiler's own get_blocks() *)
Theorem C13_checker_sound : forall bs h, legal_blocks_b h bs = true ->
  exists ibs, map (map e_name) ibs = bs /\ legal h ibs.
Proof. exact legal_blocks_b_sound. Qed.

Theorem C13_checker_complete : forall ibs h, legal h ibs -> legal_blocks_b h (map (map e_name) ibs) = true.
Proof. exact legal_blocks_b_complete. Qed.

(* "temporal loop ranks ahead of the first spatial rank" *)
Theorem C13_temporal_prefix_spec : forall loop space,
  exists rest, loop = temporal_prefix loop space ++ rest /\
    (forall r, In r (temporal_prefix loop space) -> ~ In r space) /\
    match rest with [] => True | r :: _ => In r space end.
Proof. exact temporal_prefix_spec. Qed.

(* the behaviour of the pinned tree (before the fix: commit) violated the property *)
Theorem C13_pinned_components_refuted :
  exists h, get_blocks (frun_pinned h) = [["T"; "Z"]]%string /\ ~ legal h (chron (frun_pinned h)).
Proof. exact pinned_components_refuted. Qed.
