(* Property C10 - statement order respects every data and control dependence.
   Only statements here; proofs are in Proofs/FlowOrderProofs.v.

   Reading: a flow graph is its edge list (a, b) = "b depends on a"; `topo g l` = l has no
   duplicates and every edge points forward; `reach g a b` = b transitively depends on a;
   `prec l a b` = a occurs before b in l; `hoist` is the model of FlowGraph.__hoist (innermost loop
   first, stable partition of the window behind each loop node, index arithmetic as in the code);
   `trans_nodes` is the model of the bracket consumption of HiFiber.__trans_nodes.
   All statements are for EVERY graph, EVERY loop list and EVERY topological order the sort may
   return (all tie-breaks).  That the code's graph holds every true dependence is NOT a theorem: it
   is validated on every run by tools/props/c10.py (C). *)
From Coq Require Import String List Bool PArith Arith Permutation.
Require Import TV.Model.FlowOrder TV.Proofs.FlowOrderProofs TV.Proofs.PruneProofs.
Import ListNotations.
Open Scope list_scope.

(* hoisting neither drops nor duplicates a statement *)
Theorem C10_hoist_perm : forall g loops l, Permutation (hoist g loops l) l.
Proof. exact hoist_perm. Qed.

(* clause 1: in the hoisted sequence every statement comes after all statements it depends on *)
Theorem C10_hoist_topo : forall g loops l, topo g l -> topo g (hoist g loops l).
Proof. exact hoist_topo. Qed.

Theorem C10_hoist_deps_first : forall g loops l y x,
  topo g l -> reach g y x -> prec (hoist g loops l) y x.
Proof. exact hoist_deps_first. Qed.

(* clause 3: a statement that ends above a node it was below (in particular: above a loop opening)
   does not transitively depend on it; together with C10_hoist_deps_first: never across a
   statement it depends on *)
Theorem C10_hoist_indep : forall g loops l r x,
  topo g l -> prec l r x -> prec (hoist g loops l) x r -> ~ reach g r x.
Proof. exact hoist_indep. Qed.

(* clause 3, stronger: EVERY change of relative order is a lift over a loop - if b overtakes a then
   a is a loop opening or depends on one, and b does not depend on that loop *)
Theorem C10_hoist_inversions : forall g loops l a b,
  topo g l -> prec l a b -> prec (hoist g loops l) b a ->
  exists r, In r loops /\ (a = r \/ reach g r a) /\ ~ reach g r b /\ b <> r.
Proof. exact hoist_inversions. Qed.

(* clause 2: any topological order of a graph holding the chain
   Loop r1 -> .. -> Loop rn -> Body -> EndLoop rn -> .. -> EndLoop r1 opens the loops in loop order,
   has the update innermost and closes the loops in reverse order *)
Theorem C10_nest_brackets : forall g loops body ends l,
  topo g l -> In body l ->
  (forall a b, In (a, b) (chain_edges (chain loops body ends)) -> In (a, b) g) ->
  filter (fun x => memb x (chain loops body ends)) l = chain loops body ends.
Proof. exact nest_brackets. Qed.

(* mechanism 4: the consumer succeeds exactly on balanced lists, and the tree it builds, read in
   order with nesting depths, is the sorted list with every node at its bracket depth *)
Theorem C10_trans_nodes_faithful : forall cls l ts,
  trans_nodes cls l = Some ts -> flat_forest 0 ts = toks cls 0 l.
Proof. exact trans_nodes_faithful. Qed.

Theorem C10_trans_nodes_total : forall cls l,
  (exists ts, trans_nodes cls l = Some ts) <-> balancedb cls 0 l = true.
Proof. exact trans_nodes_total. Qed.

Theorem C10_brackets_balanced : forall loops body ends l,
  NoDup (chain loops body ends) -> length loops = length ends ->
  filter (fun x => memb x (chain loops body ends)) l = chain loops body ends ->
  balancedb (classify loops ends) 0 l = true.
Proof. exact brackets_balanced. Qed.

(* all clauses at once for the model, whatever order the sort returned *)
Theorem C10_hoisted_order_ok : forall g loops body ends l,
  topo g l -> In body l -> length loops = length ends ->
  (forall a b, In (a, b) (chain_edges (chain loops body ends)) -> In (a, b) g) ->
  let l' := hoist g loops l in
  Permutation l' l /\ topo g l' /\
  filter (fun x => memb x (chain loops body ends)) l' = chain loops body ends /\
  exists ts, trans_nodes (classify loops ends) l' = Some ts /\
             flat_forest 0 ts = toks (classify loops ends) 0 l'.
Proof. exact hoisted_order_ok. Qed.

(* the decision procedures evaluated by the kernel on the code's own graph and lists *)
Theorem C10_topo_okb_iff : forall g l, topo_okb g l = true <-> topo g l.
Proof. exact topo_okb_iff. Qed.

Theorem C10_descb_iff : forall g l r x, topo g l -> (descb g l r x = true <-> reach g r x).
Proof. exact descb_iff. Qed.

Theorem C10_brackets_okb_iff : forall loops body ends l,
  brackets_okb loops body ends l = true <->
  length loops = length ends /\ filter (fun x => memb x (chain loops body ends)) l = chain loops body ends.
Proof. exact brackets_okb_iff. Qed.

Theorem C10_hoist_spec_okb_sound : forall g loops pre post,
  topo g pre -> hoist_spec_okb g loops pre post = true ->
  Permutation pre post /\ topo g post /\
  (forall y x, reach g y x -> prec post y x) /\
  (forall r x, In r loops -> prec pre r x -> prec post x r -> ~ reach g r x).
Proof. exact hoist_spec_okb_sound. Qed.

(* hoisting less, or differently but legally, is accepted: the tie is a refinement check *)
Theorem C10_hoist_spec_okb_complete : forall g loops pre post,
  topo g pre -> Permutation pre post -> topo g post -> hoist_spec_okb g loops pre post = true.
Proof. exact hoist_spec_okb_complete. Qed.

Theorem C10_hoist_meets_spec : forall g loops l, topo g l -> hoist_spec_okb g loops l (hoist g loops l) = true.
Proof. exact hoist_meets_spec. Qed.

(* ---- mechanism 1: pruning of pass-through nodes ---- *)

(* removing any list of nodes from any acyclic graph, connecting every predecessor to every
   successor, leaves the transitive dependences among the nodes that stay exactly as they were *)
Theorem C10_prune_reach : forall ns g a b, acyclic g -> ~ In a ns -> ~ In b ns ->
  (reach (prune g ns) a b <-> reach g a b).
Proof. exact prune_reach. Qed.

(* the checker evaluated on the code's graph before and after FlowGraph.__prune *)
Theorem C10_prune_okb_sound : forall gu lu gp lp,
  topo gu lu -> topo gp lp -> prune_okb gu lu gp lp = true ->
  forall a b, In a lp -> In b lp -> (reach gp a b <-> reach gu a b).
Proof. exact prune_okb_sound. Qed.

(* ---- completeness side: statement pairs that touch a common name ---- *)
(* a pair the checker accepts is ordered by the graph itself, hence emitted in the same relative
   order under EVERY topological order (every tie-break), before and after hoisting *)
Theorem C10_conflicts_okb_sound : forall g l groups,
  topo g l -> conflicts_okb g l groups = true ->
  forall a bs b, In (a, bs) groups -> In b bs ->
    reach g a b /\ forall l', topo g l' -> prec l' a b.
Proof. exact conflicts_okb_sound. Qed.
