(* Property C19 - an omitted mapping means the canonical default.
   Only statements here; proofs are in Proofs/DefaultsProofs.v; definitions in Model/Defaults.v:
     canonical_ranks / expand / canonical_order / declared_rank_orders : the default as the property words it
       (output ranks as written, then the remaining ranks by first appearance in the written text; every
       partitioned rank replaced in place by [Rn; ...; R0]; declared rank order);
     code_einsum_ranks / part_loop / code_default_loop_order / resolve_rank_orders / einsum_parts : the
       operational model of what teaal does when the section is omitted (tied to the real objects on every run).

   What is NOT a theorem: that the emitted TEXT is the same - that is compared on every run
   (tools/props/c19.py) with the explicit default computed by `canonical_order` inside coqc.
   The full-strength statement "code default = canonical default for EVERY Einsum" is false on the pinned
   tree (C19_first_appearance_refuted); C19_default_loop_order_spec proves it on the class `plain_first`,
   C19_default_loop_order_perm says what remains true outside it. Flattening is outside the statement. *)
From Coq Require Import String List Bool Permutation.
Require Import TV.Model.Defaults TV.Proofs.DefaultsProofs.
Import ListNotations.

(* Omitted loop order. For every Einsum whose terms all iterate over the same ranks and which is in the class
   plain_first (the first term written is a product - or there is no product -, the output ranks are distinct,
   and inside each access of the output and of the first term no coefficient index precedes a plain one), for
   every split partitioning ps (distinct roots, no level name is itself a root), for EVERY order ps' in which
   the set of partitioned ranks may be iterated: the code's default loop order is exactly the canonical order. *)
Theorem C19_default_loop_order_spec : forall e ps ps' fuel,
  same_ranks_b e = true -> plain_first e = true ->
  NoDup (map fst ps) -> fresh_b ps = true -> Permutation ps ps' -> 2 <= fuel ->
  code_default_loop_order fuel e ps' = Some (canonical_order e ps).
Proof. exact default_loop_order_spec. Qed.

(* Without the class restriction: the code's default is the in-place expansion of a duplicate-free permutation
   of the canonical ranks that starts with the output ranks. *)
Theorem C19_default_loop_order_perm : forall e ps ps' fuel,
  same_ranks_b e = true -> NoDup (access_ranks_code (e_oidx e)) ->
  NoDup (map fst ps) -> fresh_b ps = true -> Permutation ps ps' -> 2 <= fuel ->
  exists l tail, Permutation l (canonical_ranks e) /\ l = access_ranks_code (e_oidx e) ++ tail /\
                 code_default_loop_order fuel e ps' = Some (expand ps l).
Proof. exact default_loop_order_perm. Qed.

(* The two halves separately. *)
Theorem C19_einsum_ranks_canonical : forall e, same_ranks_b e = true -> plain_first e = true ->
  code_einsum_ranks e = Some (canonical_ranks e).
Proof. exact code_einsum_ranks_canonical. Qed.

Theorem C19_partition_expand_any_order : forall ps ps' ranks fuel,
  NoDup (map fst ps) -> fresh_b ps = true -> NoDup ranks -> Permutation ps ps' -> 2 <= fuel ->
  part_loop fuel ps' ranks = Some (expand ps ranks).
Proof. exact part_loop_expand. Qed.

(* "order of first appearance" over the whole right-hand side is decided by the first term written *)
Theorem C19_canonical_first_term : forall e t rest, e_terms e = t :: rest -> same_ranks e ->
  canonical_ranks e = dedup (access_ranks_written (e_oidx e) ++ term_ranks_written t).
Proof. exact canonical_first_term. Qed.

(* The behaviour of the pinned tree violates the property as worded (finding F9):
   Z[] = take(A[j,m], B[n], 0) + C[n,m,j] : written order J,M,N - the code's default N,M,J;
   Z[] = I[2*q+s] * F[s] * G[q]           : written order Q,S   - the code's default S,Q. *)
Theorem C19_first_appearance_refuted :
  exists e, same_ranks_b e = true /\ NoDup (access_ranks_code (e_oidx e)) /\
            code_einsum_ranks e <> Some (canonical_ranks e).
Proof. exact first_appearance_refuted. Qed.

Theorem C19_first_appearance_refuted_take :
  same_ranks_b wit_take = true /\ canonical_ranks wit_take = ["J"; "M"; "N"]%string /\
  code_einsum_ranks wit_take = Some ["N"; "M"; "J"]%string.
Proof. exact first_appearance_refuted_take. Qed.

Theorem C19_first_appearance_refuted_coeff :
  same_ranks_b wit_coeff = true /\ canonical_ranks wit_coeff = ["Q"; "S"]%string /\
  code_einsum_ranks wit_coeff = Some ["S"; "Q"]%string.
Proof. exact first_appearance_refuted_coeff. Qed.

(* Omitted rank order = declared order; writing the declared order of any set S of tensors explicitly
   (next to whatever else the section holds) changes no tensor's rank order. *)
Theorem C19_default_rank_order : forall d, resolve_rank_orders d [] = declared_rank_orders d.
Proof. exact resolve_omitted. Qed.

Theorem C19_explicit_rank_order_default : forall d ro S, NoDup (map fst d) ->
  resolve_rank_orders d (ro ++ filter (fun x => smem (fst x) S) (declared_rank_orders d)) = resolve_rank_orders d ro.
Proof. exact resolve_explicit_default. Qed.

(* Omitted partitioning = no partitioning = an entry that lists no descriptor; then the canonical loop order
   is the canonical rank list itself. *)
Theorem C19_empty_partitioning : forall (D : Type) (m : part_section D) z rs, lookup z m = None ->
  einsum_parts m z = [] /\ einsum_parts ((z, map (fun r => (r, [])) rs) :: m) z = [] /\
  forall z' x, z' <> z -> einsum_parts ((z, x) :: m) z' = einsum_parts m z'.
Proof. exact empty_partitioning. Qed.

Theorem C19_no_parts_order : forall e, canonical_order e [] = canonical_ranks e.
Proof. exact canonical_order_no_parts. Qed.
