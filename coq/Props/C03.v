(* Property C03 - occupancy partitioning and flattening never change the result.
   Statements only.  Theorems: the laws of the two runtime operations the property names -
   splitEqual (chunks concatenate back to the fiber; every chunk but the last has exactly n
   elements, none is empty) on the very function the interpreter uses (Rt.chunks), and the
   leader/follower boundary law ("no pair of elements that must meet is separated or met
   twice"); and (theorems C03_rt_...) the laws of the runtime operations themselves (Rt.split_equal,
   Rt.split_nonuniform, Rt.merge1, Rt.flatten1, Rt.unflatten1, Rt.tswizzle) for tries of ANY size: occupancy
   splits are undone by mergeRanks, flattenRanks by unflattenRanks, swizzleRanks by any permutation relocates every payload to the permuted path and is undone
   by the inverse permutation; and (theorems C03_nest_..., at the end) the occupancy split in the loop-nest abstraction:
   for any loop order the nest over the dynamically partitioned tensors contributes exactly the Einsum's values, every
   original point represented once.  NOT a theorem yet (hence _partial): the statement about whole emitted programs;
   that half is kernel-evaluated execution of every emitted program (tools/props/c03.py). *)
From Coq Require Import ZArith List Sorted Permutation.
Require Import TV.Model.Rt TV.Proofs.OccLaws TV.Proofs.RtLaws.
Import ListNotations.

Theorem C03_split_equal_concat_partial : forall (A : Type) (n : nat), (0 < n)%nat ->
  forall fuel (l : list A), (length l < fuel)%nat -> concat (chunks fuel n l) = l.
Proof. exact @chunks_concat. Qed.

Theorem C03_split_equal_sizes_partial : forall (A : Type) (n : nat), (0 < n)%nat ->
  forall fuel (l : list A), (length l < fuel)%nat ->
  Forall (fun ch => ch <> [] /\ (length ch <= n)%nat) (chunks fuel n l) /\
  forall pre ch post, chunks fuel n l = pre ++ ch :: post -> post <> [] -> length ch = n.
Proof. intros A n Hn fuel l Hl. split; [apply chunks_sizes; assumption|apply chunks_full; assumption]. Qed.

Theorem C03_leader_follower_meet_partial : forall bs b c, StronglySorted Z.lt bs -> in_part bs b c ->
  part_of bs c = Some b /\ forall b', in_part bs b' c -> b' = b.
Proof. exact leader_follower_meet. Qed.

(* ---- laws of the modelled runtime operations (Proofs/RtLaws.v) ---- *)
Open Scope Z_scope.

(* (d) splitEqual(n) then mergeRanks is the identity *)
Theorem C03_rt_split_equal_merge1 : forall n l, 0 < n -> int_sorted l ->
  exists t', split_equal n (TNode l) = Some t' /\ merge1 t' = Some (TNode l).
Proof. exact split_equal_merge1. Qed.

Theorem C03_rt_split_equal_partition : forall n l, 0 < n -> int_sorted l ->
  exists parts, split_equal n (TNode l) = Some (TNode parts) /\
    concat (lowers parts) = l /\
    int_sorted parts /\
    Forall (fun pt => exists c x ch, pt = (c, TNode ((c, x) :: ch)) /\ (length ((c, x) :: ch) <= Z.to_nat n)%nat) parts /\
    (forall pre pt post, parts = pre ++ pt :: post -> post <> [] -> length (tchildren (snd pt)) = Z.to_nat n).
Proof. exact split_equal_partition. Qed.

(* (e) splitNonUniform(boundaries): consecutive non-empty pieces, element c lands in partition part_of zs c *)
Theorem C03_rt_split_nonuniform_partition : forall zs l, StronglySorted Z.lt zs -> int_sorted l ->
  match zs with b0 :: _ => forall ct, In ct l -> b0 <= kz ct | [] => l = [] end ->
  exists parts, split_nonuniform (map VInt zs) (TNode l) = Some (TNode parts) /\
    concat (lowers parts) = l /\
    int_sorted parts /\
    Forall (fun pt => exists b sel, pt = (VInt b, TNode sel) /\ sel <> [] /\ In b zs /\
                                    forall ct, In ct sel <-> In ct l /\ in_part zs b (kz ct)) parts /\
    (forall ct, In ct l -> exists b sel, In (VInt b, TNode sel) parts /\ In ct sel /\ part_of zs (kz ct) = Some b).
Proof. exact split_nonuniform_partition. Qed.

Theorem C03_rt_split_nonuniform_merge1 : forall zs l, StronglySorted Z.lt zs -> int_sorted l ->
  match zs with b0 :: _ => forall ct, In ct l -> b0 <= kz ct | [] => l = [] end ->
  exists t', split_nonuniform (map VInt zs) (TNode l) = Some t' /\ merge1 t' = Some (TNode l).
Proof. exact split_nonuniform_merge1. Qed.

(* (f) flattenRanks then unflattenRanks is the identity; paths are kept (first two coordinates paired), in
   strictly increasing lexicographic order of the tuples *)
Theorem C03_rt_flatten1_unflatten1 : forall l, wf2 l ->
  exists t', flatten1 (TNode l) = Some t' /\ unflatten1 t' = Some (TNode l).
Proof. exact flatten1_unflatten1. Qed.

Theorem C03_rt_flatten1_paths : forall l, wf2 l ->
  flatten1 (TNode l) = Some (TNode (fl2 l)) /\
  paths (TNode (fl2 l)) = map pair2 (paths (TNode l)) /\
  Forall tuple_key (fl2 l) /\ StronglySorted (fun x y => vltb (fst x) (fst y) = true) (fl2 l).
Proof.
  intros l H. split; [apply flatten1_eq; exact H|]. split; [apply flatten1_paths; exact H|apply flatten1_lex_sorted; exact H].
Qed.

(* (g) swizzleRanks by the identity order is the identity on well-formed depth-n tries *)
Theorem C03_rt_tswizzle_id : forall n t, wft n t \/ t = TNode [] -> tswizzle (seq 0 n) t = t.
Proof. exact tswizzle_id. Qed.

(* (g) swizzleRanks by ANY permutation of the n ranks: the result is again well-formed, holds at the permuted
   path exactly what the original holds at the path, and swizzling by the inverse permutation restores the trie *)
Theorem C03_rt_tswizzle_lookup : forall perm n t zs, Permutation perm (seq 0 n) -> wft n t -> length zs = n ->
  wft n (tswizzle perm t) /\
  tlookup (nth_perm perm (map VInt zs) VNone) (tswizzle perm t) = tlookup (map VInt zs) t.
Proof. intros perm n t zs HP H Hzs. split; [apply (tswizzle_wft perm n); assumption|apply (tswizzle_lookup perm n); assumption]. Qed.

Theorem C03_rt_tswizzle_inverse : forall perm perm' n t, Permutation perm (seq 0 n) -> Permutation perm' (seq 0 n) ->
  (forall zs : list Z, length zs = n -> nth_perm perm' (nth_perm perm zs 0) 0 = zs) ->
  wft n t -> tswizzle perm' (tswizzle perm t) = t.
Proof. exact tswizzle_inverse. Qed.

Theorem C03_rt_tswizzle_transpose_involution : forall t, wft 2 t -> tswizzle [1; 0]%nat (tswizzle [1; 0]%nat t) = t.
Proof. exact tswizzle_transpose_involution. Qed.

(* tries in canonical form are determined by their payloads *)
Theorem C03_rt_wft_ext : forall n t1 t2, wft n t1 -> wft n t2 ->
  (forall zs, length zs = n -> tlookup (map VInt zs) t1 = tlookup (map VInt zs) t2) -> t1 = t2.
Proof. exact wft_ext. Qed.

(* (d)(e)(f) at any depth: the interpreter applies the operations to every fiber at depth d (Rt.tmap_depth) *)
Theorem C03_rt_split_equal_merge1_depth : forall d n t, 0 < n -> at_depth d (fiber_ok int_sorted) t ->
  exists t', tmap_depth d (split_equal n) t = Some t' /\ tmap_depth d merge1 t' = Some t.
Proof. exact split_equal_merge1_depth. Qed.

Theorem C03_rt_split_nonuniform_merge1_depth : forall d zs t, StronglySorted Z.lt zs ->
  at_depth d (fiber_ok (fun l => int_sorted l /\ match zs with b0 :: _ => forall ct, In ct l -> b0 <= kz ct | [] => l = [] end)) t ->
  exists t', tmap_depth d (split_nonuniform (map VInt zs)) t = Some t' /\ tmap_depth d merge1 t' = Some t.
Proof. exact split_nonuniform_merge1_depth. Qed.

Theorem C03_rt_flatten1_unflatten1_depth : forall d t, at_depth d (fiber_ok wf2) t ->
  exists t', tmap_depth d flatten1 t = Some t' /\ tmap_depth d unflatten1 t' = Some t.
Proof. exact flatten1_unflatten1_depth. Qed.

(* ---- the loop nest over occupancy-partitioned tensors (Model/Nest.v, Model/NestOcc.v; Proofs/NestOccProofs.v) ----
   The occupancy split as a transformation of the nest STATE: when the nest reaches rank r, the current fiber of every
   tensor whose next rank is r is cut (NestOcc.bounds_split = splitNonUniform) at the chunk starts of the leader's current
   fiber (NestOcc.chunk_starts n = the upper coordinates of splitEqual(n)), and r becomes (r1, r0).  For ANY loop order L'
   over r1, r0 and the other ranks that is well-formed for the transformed term (other ranks anywhere between r1 and r0),
   ANY tries: the nest contributes, at every point whose upper coordinate is the partition of its lower coordinate,
   exactly the value of the term at the original point (r := lower coordinate), and nothing elsewhere; every original
   point with a non-zero value is represented by exactly one such point ("no pair of elements that must meet is separated
   or met twice").  NOT covered (hence the theorems do not carry the whole property): the correspondence of emitted HiFiber text to
   run_then_split (that half is the kernel-evaluated execution in tools/props/c03.py), flattening, and the merge of the
   partitioned OUTPUT tensor. *)
Require TV.Model.Nest TV.Model.NestPart TV.Model.NestOcc TV.Proofs.NestOccProofs.

(* splitNonUniform(bs) of one fiber, denotationally: for increasing boundaries, (r1, r0) is a point of the cut fiber iff
   r1 is the partition of r0, and then it holds what the fiber holds at r0 *)
Theorem C03_nest_bounds_split_den : forall bs l rs p r r1 r0,
  StronglySorted Z.lt bs -> ~ In r rs ->
  Nest.den (r1 :: r0 :: rs) (Nest.Node (NestOcc.bounds_split bs l)) p =
  if NestOcc.occ_consistent bs r1 r0 p then Nest.den (r :: rs) (Nest.Node l) (NestPart.collapse r r0 p) else 0.
Proof. exact NestOccProofs.den_bounds_split. Qed.

(* the leader's boundaries: increasing; the first is the leader's first coordinate; every coordinate of the leader has a
   partition; cutting the leader at its own boundaries is splitEqual(n) - the chunks of Rt.chunks, the function the
   interpreter runs (consecutive, n elements each but the last, none empty: C03_split_equal_*_partial above) *)
Theorem C03_nest_leader_bounds : forall n l, (0 < n)%nat -> StronglySorted Z.lt (Nest.keys l) ->
  StronglySorted Z.lt (NestOcc.chunk_starts n l) /\
  (forall ct l', l = ct :: l' -> exists bs', NestOcc.chunk_starts n l = fst ct :: bs') /\
  (forall c, In c (Nest.keys l) -> NestOcc.part_of (NestOcc.chunk_starts n l) c <> None) /\
  NestOcc.bounds_split (NestOcc.chunk_starts n l) l =
    map (fun ch => (NestOcc.head_key ch, Nest.Node ch)) (chunks (S (length l)) n l) /\
  NestOcc.part_of = part_of.
Proof.
  intros n l Hn Hs. split; [apply NestOccProofs.chunk_starts_sorted; exact Hs|].
  split; [intros ct l' ->; eexists; apply NestOccProofs.chunk_starts_head|].
  split; [intros c Hc; apply NestOccProofs.chunk_starts_covers; assumption|].
  split; [apply NestOccProofs.leader_bounds_split_chunks; assumption|exact NestOccProofs.part_of_OccLaws].
Qed.

(* the followers' view: a sum of products split at ANY increasing boundaries *)
Theorem C03_nest_bounds_sound_partial : forall r r1 r0 bs tms L',
  StronglySorted Z.lt bs ->
  (forall tm, In tm tms -> NestOcc.term_ok r tm) ->
  (forall tm, In tm tms -> existsb (Nest.participates r) tm = true) ->
  Nest.wf L' (map (NestOcc.split_term_at r r1 r0 bs) tms) ->
  forall p, Nest.sum_at p (Nest.run L' (map (NestOcc.split_term_at r r1 r0 bs) tms)) =
            if NestOcc.occ_consistent bs r1 r0 p then Nest.body_den tms (NestPart.collapse r r0 p) else 0.
Proof. exact NestOccProofs.bounds_nest_sound. Qed.

(* uniform_occupancy(leader.n) of one product term, leader = the tensor at position k *)
Theorem C03_nest_occupancy_sound_partial : forall r r1 r0 n k tm L',
  NestOcc.term_ok r tm -> NestOcc.leader_ok r k tm ->
  Nest.wf L' [NestOcc.occ_split r r1 r0 n k tm] ->
  forall p, Nest.sum_at p (Nest.run L' [NestOcc.occ_split r r1 r0 n k tm]) =
            if NestOcc.occ_consistent (NestOcc.leader_bounds n k tm) r1 r0 p
            then Nest.term_den tm (NestPart.collapse r r0 p) else 0.
Proof. exact NestOccProofs.occ_nest_sound. Qed.

(* no pair separated, none met twice *)
Theorem C03_nest_occupancy_represented_once : forall r r1 r0 n k tm L',
  NestOcc.term_ok r tm -> NestOcc.leader_ok r k tm -> r1 <> r0 ->
  (forall t, In t tm -> ~ In r1 (Nest.rem t) /\ ~ In r0 (Nest.rem t)) ->
  Nest.wf L' [NestOcc.occ_split r r1 r0 n k tm] ->
  forall q, Nest.term_den tm q <> 0 ->
  exists u, NestOcc.part_of (NestOcc.leader_bounds n k tm) (q r) = Some u /\
    forall u', Nest.sum_at (Nest.upd (Nest.upd q r0 (q r)) r1 u') (Nest.run L' [NestOcc.occ_split r r1 r0 n k tm]) =
               if Z.eqb u' u then Nest.term_den tm q else 0.
Proof. exact NestOccProofs.occ_represented_once. Qed.

(* the split at its dynamic position: outer levels Lo first, then the split of the reached state, then the inner levels;
   the boundaries are those of the leader's fiber in the state reached at the outer coordinates of p *)
Theorem C03_nest_occupancy_dynamic_sound_partial : forall Lo r r1 r0 n k Li tm,
  ~ In r Lo -> NestOcc.wf_outer Lo (NestOcc.occ_state_ok r r1 r0 n k Li) [tm] ->
  forall p, Nest.sum_at p (NestOcc.run_then_split Lo (NestOcc.occ_split r r1 r0 n k) Li [tm]) =
            if NestOcc.occ_consistent (NestOcc.leader_bounds n k (NestOcc.reach_term Lo p tm)) r1 r0 p
            then Nest.term_den tm (NestPart.collapse r r0 p) else 0.
Proof. exact NestOccProofs.occ_dyn_sound. Qed.

Theorem C03_nest_occupancy_dynamic_represented_once : forall Lo r r1 r0 n k Li tm,
  ~ In r Lo -> ~ In r1 Lo -> ~ In r0 Lo -> r1 <> r0 ->
  (forall t, In t tm -> ~ In r1 (Nest.rem t) /\ ~ In r0 (Nest.rem t)) ->
  NestOcc.wf_outer Lo (NestOcc.occ_state_ok r r1 r0 n k Li) [tm] ->
  forall q, Nest.term_den tm q <> 0 ->
  exists u, NestOcc.part_of (NestOcc.leader_bounds n k (NestOcc.reach_term Lo q tm)) (q r) = Some u /\
    forall u', Nest.sum_at (Nest.upd (Nest.upd q r0 (q r)) r1 u')
                           (NestOcc.run_then_split Lo (NestOcc.occ_split r r1 r0 n k) Li [tm]) =
               if Z.eqb u' u then Nest.term_den tm q else 0.
Proof. exact NestOccProofs.occ_dyn_represented_once. Qed.

(* certified validation: the static check of the rank structure + a hereditarily sorted leader give the theorem for ALL
   tries of that rank structure *)
Theorem C03_nest_occupancy_validator_sound_partial : forall Lo r r1 r0 n k Li tm,
  NestOcc.occ_dyn_okb Lo r r1 r0 k Li (map Nest.rem tm) = true ->
  (forall ld, nth_error tm k = Some ld -> NestOcc.tsortedb (Nest.cur ld) = true) ->
  forall p, Nest.sum_at p (NestOcc.run_then_split Lo (NestOcc.occ_split r r1 r0 n k) Li [tm]) =
            if NestOcc.occ_consistent (NestOcc.leader_bounds n k (NestOcc.reach_term Lo p tm)) r1 r0 p
            then Nest.term_den tm (NestPart.collapse r r0 p) else 0.
Proof. exact NestOccProofs.occ_dyn_okb_sound. Qed.

(* at a full point at most one upper coordinate contributes ... *)
Theorem C03_nest_occupancy_dynamic_upper_unique : forall Lo r r1 r0 n k Li tm,
  ~ In r Lo -> ~ In r1 Lo -> r1 <> r0 -> NestOcc.wf_outer Lo (NestOcc.occ_state_ok r r1 r0 n k Li) [tm] ->
  forall p u, Nest.sum_at (Nest.upd p r1 u) (NestOcc.run_then_split Lo (NestOcc.occ_split r r1 r0 n k) Li [tm]) <> 0 ->
  NestOcc.part_of (NestOcc.leader_bounds n k (NestOcc.reach_term Lo p tm)) (p r0) = Some u.
Proof. exact NestOccProofs.occ_dyn_upper_unique. Qed.

(* ... and the contributions whose key agrees with p outside r1 add up to the value of the term at the collapsed point
   (to 0 when the lower coordinate lies below the leader's first element, where the term is 0 anyway) *)
Theorem C03_nest_occupancy_dynamic_sum_over_upper : forall Lo r r1 r0 n k Li tm,
  ~ In r Lo -> ~ In r1 Lo -> r1 <> r0 -> In r1 Li -> NoDup (Lo ++ Li) ->
  (forall t, In t tm -> ~ In r1 (Nest.rem t)) ->
  NestOcc.wf_outer Lo (NestOcc.occ_state_ok r r1 r0 n k Li) [tm] ->
  forall p, NestOcc.sum_except r1 p (NestOcc.run_then_split Lo (NestOcc.occ_split r r1 r0 n k) Li [tm]) =
            match NestOcc.part_of (NestOcc.leader_bounds n k (NestOcc.reach_term Lo p tm)) (p r0) with
            | Some _ => Nest.term_den tm (NestPart.collapse r r0 p)
            | None => 0
            end.
Proof. exact NestOccProofs.occ_dyn_sum_over_upper. Qed.

(* two-level stacks, by composition.  K: [uniform_shape(s), uniform_occupancy(leader.n)]: r is shape-split into (r2, rx)
   (NestPart.part_tstate, C02), then beneath the outer levels Lo (r2 among them) rx is occupancy-split into (r1, r0) *)
Theorem C03_nest_occupancy_beneath_shape_partial : forall Lo r r2 rx s r1 r0 n k Li (tm : Nest.term),
  (forall t, In t tm -> NoDup (Nest.rem t)) -> existsb (NestPart.holds r) tm = true ->
  let tm1 : Nest.term := map (NestPart.part_tstate r r2 rx s) tm in
  ~ In rx Lo -> NestOcc.wf_outer Lo (NestOcc.occ_state_ok rx r1 r0 n k Li) [tm1] ->
  forall p, Nest.sum_at p (NestOcc.run_then_split Lo (NestOcc.occ_split rx r1 r0 n k) Li [tm1]) =
            if andb (NestOcc.occ_consistent (NestOcc.leader_bounds n k (NestOcc.reach_term Lo p tm1)) r1 r0 p)
                    (NestPart.consistent r2 rx s (NestPart.collapse rx r0 p))
            then Nest.term_den tm (NestPart.collapse r rx (NestPart.collapse rx r0 p)) else 0.
Proof. exact NestOccProofs.occ_beneath_shape_sound. Qed.

(* K: [uniform_occupancy(l2.n2), uniform_occupancy(l1.n1)]: after Lo1, r is occupancy-split into (r2, rx); after the further
   levels Lo2 (r2 among them), rx is occupancy-split into (r1, r0); then Li *)
Theorem C03_nest_occupancy_beneath_occupancy_partial : forall Lo1 r r2 rx n2 k2 Lo2 r1 r0 n1 k1 Li tm,
  ~ In r Lo1 -> ~ In rx Lo1 -> ~ In rx Lo2 ->
  NestOcc.wf_outer Lo1 (NestOcc.occ2_state_ok r r2 rx n2 k2 Lo2 r1 r0 n1 k1 Li) [tm] ->
  forall p,
  let tmA := NestOcc.reach_term Lo1 p tm in
  let tmB := NestOcc.occ_split r r2 rx n2 k2 tmA in
  Nest.sum_at p (NestOcc.run_split_split Lo1 (NestOcc.occ_split r r2 rx n2 k2) Lo2 (NestOcc.occ_split rx r1 r0 n1 k1) Li [tm]) =
  if andb (NestOcc.occ_consistent (NestOcc.leader_bounds n1 k1 (NestOcc.reach_term Lo2 p tmB)) r1 r0 p)
          (NestOcc.occ_consistent (NestOcc.leader_bounds n2 k2 tmA) r2 rx (NestPart.collapse rx r0 p))
  then Nest.term_den tm (NestPart.collapse r rx (NestPart.collapse rx r0 p)) else 0.
Proof. exact NestOccProofs.occ_beneath_occ_sound. Qed.

Theorem C03_nest_occupancy2_validator_sound_partial : forall Lo1 r r2 rx n2 k2 Lo2 r1 r0 n1 k1 Li tm,
  NestOcc.occ2_dyn_okb Lo1 r r2 rx k2 Lo2 r1 r0 k1 Li (map Nest.rem tm) = true ->
  (forall ld, nth_error tm k2 = Some ld -> NestOcc.tsortedb (Nest.cur ld) = true) ->
  (forall ld, nth_error tm k1 = Some ld -> NestOcc.tsortedb (Nest.cur ld) = true) ->
  forall p,
  let tmA := NestOcc.reach_term Lo1 p tm in
  let tmB := NestOcc.occ_split r r2 rx n2 k2 tmA in
  Nest.sum_at p (NestOcc.run_split_split Lo1 (NestOcc.occ_split r r2 rx n2 k2) Lo2 (NestOcc.occ_split rx r1 r0 n1 k1) Li [tm]) =
  if andb (NestOcc.occ_consistent (NestOcc.leader_bounds n1 k1 (NestOcc.reach_term Lo2 p tmB)) r1 r0 p)
          (NestOcc.occ_consistent (NestOcc.leader_bounds n2 k2 tmA) r2 rx (NestPart.collapse rx r0 p))
  then Nest.term_den tm (NestPart.collapse r rx (NestPart.collapse rx r0 p)) else 0.
Proof. exact NestOccProofs.occ2_dyn_okb_sound. Qed.

(* K: [uniform_occupancy(leader.n), uniform_shape(s)]: after Lo, r is occupancy-split into (r2, rx) and rx is shape-split by
   step s into (r1, r0) *)
Theorem C03_nest_shape_beneath_occupancy_partial : forall Lo r r2 rx n k r1 r0 s Li tm,
  ~ In r Lo -> ~ In rx Lo -> r2 <> rx ->
  NestOcc.wf_outer Lo (NestOcc.occ_shape_state_ok r r2 rx n k r1 r0 s Li) [tm] ->
  forall p, Nest.sum_at p (NestOcc.run_then_split Lo (NestOcc.occ_then_shape r r2 rx n k r1 r0 s) Li [tm]) =
            if andb (NestPart.consistent r1 r0 s p)
                    (NestOcc.occ_consistent (NestOcc.leader_bounds n k (NestOcc.reach_term Lo p tm)) r2 rx (NestPart.collapse rx r0 p))
            then Nest.term_den tm (NestPart.collapse r rx (NestPart.collapse rx r0 p)) else 0.
Proof. exact NestOccProofs.shape_beneath_occ_sound. Qed.

(* the operations of the nest model ARE the operations of the modelled runtime (Rt.split_nonuniform, Rt.split_equal - the
   functions the interpreter runs) under the embedding NestOcc.to_rt of Nest tries into Rt tries; in particular, for the
   leader, splitNonUniform at the boundaries of splitEqual(n) is splitEqual(n) *)
Theorem C03_nest_bounds_split_is_rt_split_nonuniform : forall bs l,
  split_nonuniform (map VInt bs) (NestOcc.to_rt (Nest.Node l)) = Some (NestOcc.to_rt (Nest.Node (NestOcc.bounds_split bs l))).
Proof. exact NestOccProofs.bounds_split_is_split_nonuniform. Qed.

Theorem C03_nest_equal_split_is_rt_split_equal : forall n l, (0 < n)%nat ->
  split_equal (Z.of_nat n) (NestOcc.to_rt (Nest.Node l)) =
  Some (NestOcc.to_rt (Nest.Node (NestOcc.equal_split (S (length l)) n l))).
Proof. exact NestOccProofs.equal_split_is_split_equal. Qed.

Theorem C03_nest_leader_split_nonuniform_is_split_equal : forall n l, (0 < n)%nat -> StronglySorted Z.lt (Nest.keys l) ->
  split_nonuniform (map VInt (NestOcc.chunk_starts n l)) (NestOcc.to_rt (Nest.Node l)) =
  split_equal (Z.of_nat n) (NestOcc.to_rt (Nest.Node l)).
Proof. exact NestOccProofs.leader_split_nonuniform_is_split_equal. Qed.
