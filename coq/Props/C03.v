(* Property C03 - occupancy partitioning and flattening never change the result.
   Statements only.  Theorems: the laws of the two runtime operations the property names -
   splitEqual (chunks concatenate back to the fiber; every chunk but the last has exactly n
   elements, none is empty) on the very function the interpreter uses (Rt.chunks), and the
   leader/follower boundary law ("no pair of elements that must meet is separated or met
   twice").  NOT a theorem yet (hence _partial): the statement about whole emitted programs;
   that half is kernel-evaluated execution of every emitted program (tools/props/c03.py). *)
From Coq Require Import ZArith List Sorted.
Require Import TV.Model.Rt TV.Proofs.OccLaws.
Import ListNotations.

Theorem C03_split_equal_concat_partial : forall (A : Type) (n : nat), (0 < n)%nat ->
  forall fuel (l : list A), (length l < fuel)%nat -> concat (chunks fuel n l) = l.
Proof. exact @chunks_concat. Qed.

Theorem C03_split_equal_sizes_partial : forall (A : Type) (n : nat), (0 < n)%nat ->
  forall fuel (l : list A), (length l < fuel)%nat ->
  Forall (fun ch => ch <> [] /\ (length ch <= n)%nat) (chunks fuel n l) /\
  forall pre ch post, chunks fuel n l = pre ++ ch :: post -> post <> [] -> length ch = n.
Proof. intros A n Hn fuel l Hl. split; [apply chunks_sizes; assumption|apply chunks_full; assumption]. Qed.

Theorem C03_leader_follower_meet_partial : forall bs b c, StronglySorted Z.lt bs -> in_part bs b c ->
  part_of bs c = Some b /\ forall b', in_part bs b' c -> b' = b.
Proof. exact leader_follower_meet. Qed.
