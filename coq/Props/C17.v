(* Property C17 - specification text is parsed into exactly the structure written.
   Only statements here; proofs are in Proofs/LexProofs.v and Proofs/GrammarProofs.v.

   Model/Lex.v + Model/Grammar.v model the five Lark grammars of teaal/parse (Einsum expression, partitioning
   directive, rank tuple, spacetime stamp, architecture level name) for INTEGER literals: syntax trees that
   keep what was written, [print_X a ws] = the tokens of a with the strings ws (blanks and tabs, possibly
   empty) before, between and after them, and [parse_X] = tokenizer + recursive descent.  The model is tied
   to the real parser classes on every run by tools/props/c17.py.

   For each grammar X:
     C17_X_parse_print : every well-formed tree, written with ANY blank strings, parses back to exactly that
                         tree (all tensors, index terms, coefficients with their sign, term structure, take()
                         selector, directive kind, leader, size, instance range), independent of whitespace;
     C17_X_parse_sound : whatever parses IS such a writing of the returned well-formed tree - nothing outside
                         the grammar is accepted and nothing is parsed partially.
   The non-integer NUMBERs Lark admits are outside the model; that the code rejects them (parser or int()) is
   checked by the tie, not proved. *)
From Coq Require Import String Ascii List NArith ZArith.
Require Import TV.Model.Lex TV.Model.Grammar TV.Proofs.LexProofs TV.Proofs.GrammarProofs.
Import ListNotations.

(* ---- the tokenizer (shared by the five grammars; m selects the literal terminals ".pos"/".coord" or "[0..") *)
Theorem C17_lex_render : forall m ts ws,
  forallb (tok_ok m) ts = true -> blanks ws = true -> sepfree ts = true -> lex m (render ts ws) = Some ts.
Proof. exact lex_render. Qed.

Theorem C17_lex_sound : forall m s ts, lex m s = Some ts ->
  exists ws, blanks ws = true /\ List.length ws = S (List.length ts) /\ s = render ts ws /\ forallb (tok_ok m) ts = true.
Proof. exact lex_sound. Qed.

(* ---- Einsum expressions *)
Theorem C17_eq_parse_print : forall e ws, wf_einsum e = true -> blanks ws = true -> parse_eq (print_eq e ws) = Some e.
Proof. exact eq_parse_print. Qed.

Theorem C17_eq_parse_sound : forall s e, parse_eq s = Some e ->
  wf_einsum e = true /\ exists ws, blanks ws = true /\ List.length ws = S (List.length (toks_einsum e)) /\ s = print_eq e ws.
Proof. exact eq_parse_sound. Qed.

(* ---- partitioning directives *)
Theorem C17_dir_parse_print : forall d ws, wf_dir d = true -> blanks ws = true -> parse_dir (print_dir d ws) = Some d.
Proof. exact dir_parse_print. Qed.

Theorem C17_dir_parse_sound : forall s d, parse_dir s = Some d ->
  wf_dir d = true /\ exists ws, blanks ws = true /\ List.length ws = S (List.length (toks_dir d)) /\ s = print_dir d ws.
Proof. exact dir_parse_sound. Qed.

(* ---- rank tuples *)
Theorem C17_rt_parse_print : forall a ws, wf_rt a = true -> blanks ws = true -> parse_rt (print_rt a ws) = Some a.
Proof. exact rt_parse_print. Qed.

Theorem C17_rt_parse_sound : forall s a, parse_rt s = Some a ->
  wf_rt a = true /\ exists ws, blanks ws = true /\ List.length ws = S (List.length (toks_rt a)) /\ s = print_rt a ws.
Proof. exact rt_parse_sound. Qed.

(* ---- spacetime stamps *)
Theorem C17_st_parse_print : forall a ws, wf_st a = true -> blanks ws = true -> parse_st (print_st a ws) = Some a.
Proof. exact st_parse_print. Qed.

Theorem C17_st_parse_sound : forall s a, parse_st s = Some a ->
  wf_st a = true /\ exists ws, blanks ws = true /\ List.length ws = S (List.length (toks_st a)) /\ s = print_st a ws.
Proof. exact st_parse_sound. Qed.

(* ---- architecture level names *)
Theorem C17_lv_parse_print : forall a ws, wf_lv a = true -> blanks ws = true -> parse_lv (print_lv a ws) = Some a.
Proof. exact lv_parse_print. Qed.

Theorem C17_lv_parse_sound : forall s a, parse_lv s = Some a ->
  wf_lv a = true /\ exists ws, blanks ws = true /\ List.length ws = S (List.length (toks_lv a)) /\ s = print_lv a ws.
Proof. exact lv_parse_sound. Qed.

(* ---- consequences, stated for the Einsum grammar (the same hold for the other four: GrammarProofs.X_...) *)

(* independent of insignificant whitespace *)
Theorem C17_eq_ws_independent : forall e ws1 ws2, wf_einsum e = true -> blanks ws1 = true -> blanks ws2 = true ->
  parse_eq (print_eq e ws1) = parse_eq (print_eq e ws2).
Proof. exact eq_ws_independent. Qed.

(* the text determines the structure: two different well-formed Einsums are never written the same way *)
Theorem C17_eq_print_injective : forall a b ws1 ws2,
  wf_einsum a = true -> wf_einsum b = true -> blanks ws1 = true -> blanks ws2 = true ->
  print_eq a ws1 = print_eq b ws2 -> a = b.
Proof. exact eq_print_injective. Qed.

(* text that is not the writing of a well-formed Einsum is rejected *)
Theorem C17_eq_outside_rejected : forall s,
  (forall a ws, wf_einsum a = true -> blanks ws = true -> s <> print_eq a ws) -> parse_eq s = None.
Proof. exact eq_outside_rejected. Qed.

(* ---- the post-parse rewrites / defaults as seen through the views compared with the real trees *)

(* "-" NUMBER is the negated integer; leading zeros and the sign of zero do not change the coefficient *)
Theorem C17_coef_neg : forall ds x, coef (ITimes true ds x) = (- coef (ITimes false ds x))%Z.
Proof. exact coef_neg. Qed.

Theorem C17_coef_leading_zeros : forall neg z ds x, all_chars (fun c => Ascii.eqb c "0"%char) z = true ->
  coef (ITimes neg (z ++ ds)%string x) = coef (ITimes neg ds x).
Proof. exact coef_leading_zeros. Qed.

(* default style = pos *)
Theorem C17_st_default_pos : forall x, view_st (StBare x) = view_st (StPos x) /\ st_is_coord (StBare x) = false.
Proof. exact st_default_pos. Qed.

(* NAME -> 1 instance, NAME[0..N] -> N + 1 instances *)
Theorem C17_lv_instances : forall a,
  lv_instances a = match a with LSingle _ => 1%N | LMultiple _ ds => (value ds + 1)%N end.
Proof. exact lv_instances_spec. Qed.
