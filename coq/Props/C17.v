(* Property C17 - specification text is parsed into exactly the structure written. (stub, statements follow) *)
Require Import TV.Model.Lex TV.Model.Grammar.
