(* Property C09 - the object tree the translator built denotes the text it printed.
   Statements only.  The comparison of tools/props/c09.py is `c09_check`: the parenthesis-forgetting
   image `strip` of the HiFiber tree against CPython's parse of the emitted text, modulo the
   normal form `norm` that re-associates chains of `+` and chains of `*` into left-nested form.
   Proved here: that normal form preserves the integer value of every arithmetic expression
   (only associativity of + and * over Z is used; -, // and % chains are left as they are),
   it is idempotent, and the verdict "OK" is exactly equality of the normal forms. *)
From Coq Require Import String List ZArith.
Require Import TV.Model.Py TV.Model.HAst TV.Proofs.NormProofs.

Theorem C09_norm_preserves_value : forall (rho : positive -> Z) (e : expr),
  aeval rho (norm e) = aeval rho e.
Proof. exact norm_aeval. Qed.

Theorem C09_norm_idempotent : forall e : expr, norm (norm e) = norm e.
Proof. exact norm_idempotent. Qed.

Theorem C09_norm_image_is_nf : forall e : expr, nf e = true <-> norm e = e.
Proof. exact nf_iff_fixed. Qed.

Theorem C09_first_diff_none : forall (a b : list stmt) (n : nat),
  first_diff n a b = None <-> a = b.
Proof. exact first_diff_none. Qed.

Theorem C09_strip_parens : forall (fid : positive) (h : hexpr),
  strip fid (HParens h) = strip fid h.
Proof. exact strip_parens. Qed.

Theorem C09_check_ok_iff : forall (fid : positive) (h : hstmt) (p : program),
  c09_check fid h p = "OK"%string
  <-> exists q, strip_stmt fid h = Some q /\ map norm_stmt q = map norm_stmt p.
Proof. exact c09_check_ok_iff. Qed.
