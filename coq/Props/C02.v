(* Property C02 - shape partitioning never changes the result and is undone on the output.
   Statements only.  What is a theorem here: the arithmetic that makes splitting by ANY
   positive step (dividing the extent or not, exceeding it or not), in stacks of ANY depth,
   lossless and duplicate-free, the n-way step formula, and recovery of the original
   coordinate by the absolute merge.  What is NOT a theorem yet (named _partial): the
   statement about whole emitted programs; that half is the kernel-evaluated execution of
   every emitted program against the dense oracle (tools/props/c02.py). *)
From Coq Require Import ZArith List.
Require Import TV.Proofs.SplitArith.
Import ListNotations.
Open Scope Z_scope.

Theorem C02_split_exactly_one_partial : forall s c, 0 < s ->
  exists! p, (exists k, p = s * k) /\ p <= c < p + s.
Proof. exact split_exactly_one. Qed.

Theorem C02_stack_exactly_one_chain_partial : forall steps c, Forall (fun s => 0 < s) steps ->
  chain_ok steps c (chain steps c) /\ forall ps, chain_ok steps c ps -> ps = chain steps c.
Proof. exact chain_exactly_one. Qed.

Theorem C02_nway_step_pos : forall E n, 0 < n -> 0 < E -> 0 < nway_step E n.
Proof. exact nway_step_pos. Qed.

Theorem C02_nway_at_most_n_parts : forall E n c, 0 < n -> 0 < E -> 0 <= c < E -> 0 <= c / nway_step E n < n.
Proof. exact nway_at_most_n_parts. Qed.

Theorem C02_merge_recovers_coordinate : forall steps c, last (chain steps c ++ [c]) 0 = c.
Proof. exact merge_recovers. Qed.
