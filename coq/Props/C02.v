(* Property C02 - shape partitioning never changes the result and is undone on the output.
   Statements only.  What is a theorem here: the arithmetic that makes splitting by ANY
   positive step (dividing the extent or not, exceeding it or not), in stacks of ANY depth,
   lossless and duplicate-free, the n-way step formula, and recovery of the original
   coordinate by the absolute merge; and (theorems C02_rt_...) the laws of the runtime operations themselves, on
   the very functions the interpreter runs (Rt.split_uniform, Rt.merge1), for fibers of ANY size:
   splitUniform cuts a sorted fiber into consecutive non-empty pieces and mergeRanks restores it.  What is NOT a theorem yet (named _partial): the
   statement about whole emitted programs; that half is the kernel-evaluated execution of
   every emitted program against the dense oracle (tools/props/c02.py). *)
From Coq Require Import ZArith List Sorted.
Require Import TV.Model.Rt TV.Proofs.SplitArith TV.Proofs.RtLaws.
Import ListNotations.
Open Scope Z_scope.

Theorem C02_split_exactly_one_partial : forall s c, 0 < s ->
  exists! p, (exists k, p = s * k) /\ p <= c < p + s.
Proof. exact split_exactly_one. Qed.

Theorem C02_stack_exactly_one_chain_partial : forall steps c, Forall (fun s => 0 < s) steps ->
  chain_ok steps c (chain steps c) /\ forall ps, chain_ok steps c ps -> ps = chain steps c.
Proof. exact chain_exactly_one. Qed.

Theorem C02_nway_step_pos : forall E n, 0 < n -> 0 < E -> 0 < nway_step E n.
Proof. exact nway_step_pos. Qed.

Theorem C02_nway_at_most_n_parts : forall E n c, 0 < n -> 0 < E -> 0 <= c < E -> 0 <= c / nway_step E n < n.
Proof. exact nway_at_most_n_parts. Qed.

Theorem C02_merge_recovers_coordinate : forall steps c, last (chain steps c ++ [c]) 0 = c.
Proof. exact merge_recovers. Qed.

(* ---- laws of the modelled runtime operations (Proofs/RtLaws.v) ---- *)

(* (a) splitUniform(step): partitions are sorted, at non-negative multiples of step, non-empty, each holds exactly
   the window [step*k, step*k+step) of the fiber, every element's home partition exists, and the partitions
   concatenated in order give back the fiber (each element in exactly one partition, order kept) *)
Theorem C02_rt_split_uniform_partition : forall step l, 0 < step -> int_sorted l -> nonneg_keys l ->
  exists parts, split_uniform step 0 0 (TNode l) = Some (TNode parts) /\
    int_sorted parts /\
    Forall (fun pt => exists k, 0 <= k /\ pt = (VInt (step * k), TNode (su_sel step 0 0 (step * k) l)) /\
                                su_sel step 0 0 (step * k) l <> []) parts /\
    (forall ct, In ct l -> In (VInt (upper step (kz ct)), TNode (su_sel step 0 0 (upper step (kz ct)) l)) parts) /\
    concat (lowers parts) = l.
Proof. exact split_uniform_partition. Qed.

(* (b) split then merge is the identity *)
Theorem C02_rt_split_uniform_merge1 : forall step l, 0 < step -> int_sorted l -> nonneg_keys l ->
  exists t', split_uniform step 0 0 (TNode l) = Some t' /\ merge1 t' = Some (TNode l).
Proof. exact split_uniform_merge1. Qed.

(* (c) with halos: a partition exists iff it is a non-negative multiple of step whose window
   [p - pre, p + step + post) holds an element; it holds exactly the elements of that window *)
Theorem C02_rt_split_uniform_halo : forall step pre post l, 0 < step -> Forall int_key l ->
  exists parts, split_uniform step pre post (TNode l) = Some (TNode parts) /\
    int_sorted parts /\
    (forall pt, In pt parts <->
       exists k ct, 0 <= k /\ In ct l /\ step * k - pre <= kz ct < step * k + step + post /\
                    pt = (VInt (step * k), TNode (su_sel step pre post (step * k) l))) /\
    (forall p ct, In ct (su_sel step pre post p l) <-> In ct l /\ p - pre <= kz ct < p + step + post).
Proof. exact split_uniform_halo. Qed.

Theorem C02_rt_split_uniform_halo_home : forall step pre post l ct, 0 < step -> 0 <= pre -> 0 <= post -> Forall int_key l ->
  In ct l -> 0 <= kz ct ->
  exists parts, split_uniform step pre post (TNode l) = Some (TNode parts) /\
    In (VInt (upper step (kz ct)), TNode (su_sel step pre post (upper step (kz ct)) l)) parts /\
    In ct (su_sel step pre post (upper step (kz ct)) l).
Proof. exact split_uniform_halo_home. Qed.

(* mergeRanks of ANY two-level trie whose lower fibers are consecutive pieces of a sorted fiber is that fiber *)
Theorem C02_rt_merge1_concat : forall parts, all_nodes parts -> int_sorted (concat (lowers parts)) ->
  merge1 (TNode parts) = Some (TNode (concat (lowers parts))).
Proof. exact merge1_concat. Qed.

(* (b) at any depth: the interpreter applies the operations to every fiber at depth d (Rt.tmap_depth) *)
Theorem C02_rt_split_uniform_merge1_depth : forall d step t, 0 < step ->
  at_depth d (fiber_ok (fun l => int_sorted l /\ nonneg_keys l)) t ->
  exists t', tmap_depth d (split_uniform step 0 0) t = Some t' /\ tmap_depth d merge1 t' = Some t.
Proof. exact split_uniform_merge1_depth. Qed.

(* ---- the loop nest over shape-partitioned tensors (Model/Nest.v, Model/NestPart.v) ----
   For ANY loop order L' over the levels and the other ranks (any L' well-formed for the partitioned tensors - interleaved
   with other ranks, inner level before outer level, ...), ANY step, ANY tries: the nest over the tensors in which rank r
   was split into (r1, r0) contributes, at every point whose upper coordinate is the bucket of its lower coordinate,
   exactly what the Einsum defines at the original point (r := the lower coordinate), and nothing elsewhere; every original
   point is represented by exactly one such point.  The second theorem composes it for a two-level stack on one rank. *)
Require TV.Model.Nest TV.Model.NestPart TV.Proofs.NestPartProofs.

Theorem C02_partitioned_nest_sound_partial : forall r r1 r0 s tms L',
  (forall tm t, In tm tms -> In t tm -> NoDup (Nest.rem t)) ->
  (forall tm, In tm tms -> existsb (NestPart.holds r) tm = true) ->
  Nest.wf L' (NestPart.part_terms r r1 r0 s tms) ->
  forall p, Nest.sum_at p (Nest.run L' (NestPart.part_terms r r1 r0 s tms)) =
            if NestPart.consistent r1 r0 s p then Nest.body_den tms (NestPart.collapse r r0 p) else 0.
Proof. exact NestPartProofs.partitioned_nest_sound. Qed.

Theorem C02_partitioned_point_unique : forall r1 r0 s (p : Nest.point) u, 0 < s ->
  NestPart.consistent r1 r0 s (Nest.upd p r1 u) = true -> r1 <> r0 -> u = NestPart.bucket s (p r0).
Proof. exact NestPartProofs.consistent_unique. Qed.

Theorem C02_partitioned_nest_two_levels_partial : forall r r2 rx r1 r0 s2 s1 tms L',
  (forall tm t, In tm tms -> In t tm -> NoDup (Nest.rem t) /\ ~ In r2 (Nest.rem t) /\ ~ In rx (Nest.rem t)) ->
  r2 <> rx ->
  (forall tm, In tm tms -> existsb (NestPart.holds r) tm = true) ->
  let tms1 := NestPart.part_terms r r2 rx s2 tms in
  Nest.wf L' (NestPart.part_terms rx r1 r0 s1 tms1) ->
  forall p, Nest.sum_at p (Nest.run L' (NestPart.part_terms rx r1 r0 s1 tms1)) =
            if andb (NestPart.consistent r1 r0 s1 p) (NestPart.consistent r2 rx s2 (NestPart.collapse rx r0 p))
            then Nest.body_den tms (NestPart.collapse r rx (NestPart.collapse rx r0 p)) else 0.
Proof. exact NestPartProofs.partitioned_nest_sound_2. Qed.

(* ---- the shape split of the loop-nest abstraction IS the runtime model's splitUniform (Proofs/NestRtBridge.v) ----
   NestOcc.to_rt embeds the tries of the abstraction into the tries of the modelled runtime.  Under it, for ANY step and
   ANY trie whose fibers at the split depth have strictly increasing, non-negative coordinates (NestRtBridge.fits /
   fits_at; both are needed, see NestRtBridge.split_node_negative_differs / split_node_unsorted_differs):
   NestPart.split_node / split_at d - the transformation the C02_partitioned_* theorems above are about - computes
   exactly what Rt.split_uniform / Rt.tmap_depth d (Rt.split_uniform ..) - what Interp runs for splitUniform(depth=d) -
   computes; Rt.merge1 / Rt.merge_levels 1 (mergeRanks(levels=1, "absolute"), the footer's call) maps the split image
   back to the original; lookups in the runtime's result find at (.., bucket, c, ..) what the original holds at (.., c, ..). *)
Require TV.Model.NestOcc TV.Proofs.NestRtBridge.

Theorem C02_bridge_split_node_is_split_uniform : forall s l, 0 < s -> NestRtBridge.fits l ->
  Rt.split_uniform s 0 0 (NestOcc.to_rt (Nest.Node l)) = Some (NestOcc.to_rt (Nest.Node (NestPart.split_node s l))).
Proof. exact NestRtBridge.split_node_is_split_uniform. Qed.

(* the same under the weakest hypothesis the proof needs: buckets non-decreasing along the fiber, coordinates >= 0 *)
Theorem C02_bridge_split_node_is_split_uniform_weak : forall s l, 0 < s -> NestRtBridge.fits_weak s l ->
  Rt.split_uniform s 0 0 (NestOcc.to_rt (Nest.Node l)) = Some (NestOcc.to_rt (Nest.Node (NestPart.split_node s l))).
Proof. exact NestRtBridge.split_node_is_split_uniform_weak. Qed.

Theorem C02_bridge_split_at_is_tmap_split_uniform : forall d s t, 0 < s -> NestRtBridge.fits_at d t ->
  Rt.tmap_depth d (Rt.split_uniform s 0 0) (NestOcc.to_rt t) = Some (NestOcc.to_rt (NestPart.split_at d s t)).
Proof. exact NestRtBridge.split_at_is_tmap_split_uniform. Qed.

Theorem C02_bridge_merge1_split_node : forall s l, 0 < s -> NestRtBridge.fits l ->
  Rt.merge1 (NestOcc.to_rt (Nest.Node (NestPart.split_node s l))) = Some (NestOcc.to_rt (Nest.Node l)).
Proof. exact NestRtBridge.merge1_split_node. Qed.

Theorem C02_bridge_merge_levels_split_at : forall d s t, 0 < s -> NestRtBridge.fits_at d t ->
  Rt.tmap_depth d (Rt.merge_levels 1) (NestOcc.to_rt (NestPart.split_at d s t)) = Some (NestOcc.to_rt t).
Proof. exact NestRtBridge.merge_levels_split_at. Qed.

(* mergeRanks of ANY embedded two-level trie (e.g. a partitioned output built by the loop nest, not by splitUniform)
   whose lower fibers concatenated are strictly increasing is the concatenation; on split images that is the original *)
Theorem C02_bridge_merge_node_is_merge1 : forall parts,
  Forall (fun pt : Nest.coord * Nest.trie => exists l', snd pt = Nest.Node l') parts ->
  StronglySorted Z.lt (Nest.keys (NestRtBridge.merge_node parts)) ->
  Rt.merge1 (NestOcc.to_rt (Nest.Node parts)) = Some (NestOcc.to_rt (Nest.Node (NestRtBridge.merge_node parts))).
Proof. exact NestRtBridge.merge_node_is_merge1. Qed.

Theorem C02_bridge_merge_node_split_node : forall s l, NestRtBridge.fits_weak s l ->
  NestRtBridge.merge_node (NestPart.split_node s l) = l.
Proof. exact NestRtBridge.merge_node_split_node. Qed.

(* lookups in whatever the runtime operation returns *)
Theorem C02_bridge_split_uniform_lookup : forall d s t T' pre c post, 0 < s -> NestRtBridge.fits_at d t -> length pre = d ->
  Rt.tmap_depth d (Rt.split_uniform s 0 0) (NestOcc.to_rt t) = Some T' ->
  RtLaws.zl (pre ++ NestPart.bucket s c :: c :: post) T' = RtLaws.zl (pre ++ c :: post) (NestOcc.to_rt t) /\
  forall u, u <> NestPart.bucket s c -> RtLaws.zl (pre ++ u :: c :: post) T' = None.
Proof. exact NestRtBridge.split_uniform_lookup. Qed.

(* the denotation used by the C02_partitioned_* theorems, read on the runtime's tries (rt_den: RtLaws.zl at the
   coordinates of the point, 0 on a miss; NestRtBridge.den_rt: Nest.den rs t p = rt_den (map p rs) (to_rt t)) *)
Theorem C02_bridge_den_is_rt_lookup : forall rs t p,
  Nest.den rs t p = NestRtBridge.rt_den (map p rs) (NestOcc.to_rt t).
Proof. exact NestRtBridge.den_rt. Qed.

Theorem C02_bridge_den_split_uniform : forall d rs t p r r1 r0 s T', 0 < s -> NestRtBridge.fits_at d t ->
  nth_error rs d = Some r -> NoDup rs ->
  Rt.tmap_depth d (Rt.split_uniform s 0 0) (NestOcc.to_rt t) = Some T' ->
  NestRtBridge.rt_den (map p (NestPart.split_ranks d r1 r0 rs)) T' =
  if NestPart.consistent r1 r0 s p then NestRtBridge.rt_den (map (NestPart.collapse r r0 p) rs) (NestOcc.to_rt t) else 0.
Proof. exact NestRtBridge.den_split_uniform. Qed.

(* mergeRanks at depth d of ANY embedded trie whose fibers at depth d are mergeable (lower fibers are nodes, their
   concatenation is strictly increasing): NestRtBridge.lift_at d merge_top concatenates the lower fibers there *)
Theorem C02_bridge_merge_at_is_tmap_merge1 : forall d t, NestRtBridge.holds_at d NestRtBridge.mergeable t ->
  Rt.tmap_depth d Rt.merge1 (NestOcc.to_rt t) = Some (NestOcc.to_rt (NestRtBridge.lift_at d NestRtBridge.merge_top t)).
Proof. exact NestRtBridge.merge_at_is_tmap_merge1. Qed.

(* a two-level stack on one rank (the tries of C02_partitioned_nest_two_levels_partial): splitUniform(s2, depth=d) then
   splitUniform(s1, depth=d+1) of the runtime model compute split_at (S d) s1 (split_at d s2 t) *)
Theorem C02_bridge_split_at_two_levels : forall d s2 s1 t, 0 < s2 -> 0 < s1 -> NestRtBridge.fits_at d t ->
  exists T1, Rt.tmap_depth d (Rt.split_uniform s2 0 0) (NestOcc.to_rt t) = Some T1 /\
             Rt.tmap_depth (S d) (Rt.split_uniform s1 0 0) T1 =
             Some (NestOcc.to_rt (NestPart.split_at (S d) s1 (NestPart.split_at d s2 t))).
Proof. exact NestRtBridge.split_at_2_is_tmap_split_uniform. Qed.
