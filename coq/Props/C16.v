(* Property C16 - spacetime display is observation-only, complete and unambiguous.
   Statements only.  Theorems: the emitted slip counter discipline (`timestamps`) gives
   pairwise distinct (space, time) stamps for ANY sequence of space stamps, one stamp per
   activity in order; the canvas/metrics entry points of the modelled runtime are
   observation-only (they only allocate or log).  NOT a theorem (hence _partial): stamp
   injectivity without slip for whole nests and "one activity per update" for whole programs;
   those are checked on every execution by the recording canvas (tools/props/c16.py). *)
From Coq Require Import String List.
Require Import TV.Model.Py TV.Model.Rt TV.Model.Interp TV.Proofs.RtFrame TV.Proofs.Spacetime.
Import ListNotations.

Theorem C16_slip_stamps_unique_partial : forall (A : Type) (eq_dec : forall x y : A, {x = y} + {x <> y}) l seen,
  NoDup (stamps A eq_dec seen l).
Proof. exact slip_unique. Qed.

Theorem C16_slip_one_stamp_per_activity_partial : forall (A : Type) (eq_dec : forall x y : A, {x = y} + {x <> y}) l seen,
  map fst (stamps A eq_dec seen l) = l.
Proof. exact stamps_space. Qed.

Theorem C16_observation_calls_frame_partial : forall g args kw st v st',
  global_call g args kw st = Ok (v, st') -> frame st st'.
Proof. exact observation_calls_frame. Qed.
