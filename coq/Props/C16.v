(* Property C16 - spacetime display is observation-only, complete and unambiguous.
   Statements only.  Theorems: the emitted slip counter discipline (`timestamps`) gives
   pairwise distinct (space, time) stamps for ANY sequence of space stamps, one stamp per
   activity in order; the canvas/metrics entry points of the modelled runtime are
   observation-only (they only allocate or log).  Third clause at the level of whole nests
   (Proofs/StampInj.v): for a nest of any depth, any split of the loop ranks into space and
   time (any order inside each), position or coordinate style chosen per rank, if every loop
   rank is stamped and every relative coordinate subtracts a level bound by an EARLIER loop
   (levels looped outermost-to-innermost) then distinct iterations carry distinct
   (space, time) stamps; both hypotheses are necessary (two `_collides` witnesses).
   NOT a theorem (hence _partial): that the emitted display statements compute exactly these
   stamps and "one activity per update" for whole programs; those are checked on every
   execution by the recording canvas (tools/props/c16.py). *)
From Coq Require Import String List.
From Coq Require Import ZArith.
Require Import TV.Model.Py TV.Model.Rt TV.Model.Interp TV.Proofs.RtFrame TV.Proofs.Spacetime TV.Proofs.StampInj TV.Proofs.StampCert.
Import ListNotations.

Theorem C16_slip_stamps_unique_partial : forall (A : Type) (eq_dec : forall x y : A, {x = y} + {x <> y}) l seen,
  NoDup (stamps A eq_dec seen l).
Proof. exact slip_unique. Qed.

Theorem C16_slip_one_stamp_per_activity_partial : forall (A : Type) (eq_dec : forall x y : A, {x = y} + {x <> y}) l seen,
  map fst (stamps A eq_dec seen l) = l.
Proof. exact stamps_space. Qed.

Theorem C16_observation_calls_frame_partial : forall g args kw st v st',
  global_call g args kw st = Ok (v, st') -> frame st st'.
Proof. exact observation_calls_frame. Qed.

(* every loop rank stamped + every stamp determined by the enclosing loops and injective in its own
   loop value => the (space, time) stamp determines the iteration; any stamp type *)
Theorem C16_nest_stamps_injective_partial : forall (S : Type) (stamp : nat -> (nat -> Z) -> S) n space time,
  (forall i, i < n -> In i (space ++ time)) ->
  (forall i, i < n -> local_at S stamp i) ->
  forall its : list (list Z), (forall p, In p its -> length p = n) -> NoDup its ->
  NoDup (map (fun p => st_stamp S stamp space time (at_ p)) its).
Proof. exact st_stamp_NoDup. Qed.

(* the emitted stamps: coordinate (relative to an enclosing partition level bound earlier) or
   position in the fiber the enclosing loops selected, chosen per rank *)
Theorem C16_emitted_stamps_injective_partial :
  forall (parent : nat -> option nat) (fiber : nat -> (nat -> Z) -> list Z) (is_pos : nat -> bool) n,
  (forall i j, parent i = Some j -> j < i) ->
  (forall i p q, (forall j, j < i -> p j = q j) -> fiber i p = fiber i q) ->
  forall space time, (forall i, i < n -> In i (space ++ time)) ->
  forall its : list (list Z), (forall p, In p its -> length p = n /\ runs fiber n (at_ p)) -> NoDup its ->
  NoDup (map (fun p => st_stamp Z (mixed_stamp parent fiber is_pos) space time (at_ p)) its).
Proof. exact mixed_st_stamp_NoDup. Qed.

Theorem C16_coord_stamp_local : forall parent i,
  (forall j, parent i = Some j -> j < i) -> local_at Z (coord_stamp parent) i.
Proof. exact coord_stamp_local. Qed.

(* necessity of "every loop rank is stamped" *)
Theorem C16_unstamped_rank_collides :
  let stamp := coord_stamp (fun _ => None) in
  st_stamp Z stamp [0] [] (at_ [1; 2]%Z) = st_stamp Z stamp [0] [] (at_ [1; 3]%Z) /\ [1; 2]%Z <> [1; 3]%Z.
Proof. exact unstamped_rank_collides. Qed.

Theorem C16_relative_without_enclosing_collides :
  let stamp := coord_stamp (fun i => match i with 1 => Some 0 | _ => None end) in
  st_stamp Z stamp [] [1] (at_ [0; 1]%Z) = st_stamp Z stamp [] [1] (at_ [4; 5]%Z) /\ [0; 1]%Z <> [4; 5]%Z.
Proof. exact relative_without_enclosing_collides. Qed.

(* the per-program certificate (structure read off the emitted text by tools/stampview.py, decided by the
   kernel on every program whose stamps are loop variables, positions or relative coordinates) *)
Theorem C16_stamp_certificate_sound_partial : forall n pl space time,
  stamp_cert_okb n pl space time = true ->
  forall (fiber : nat -> (nat -> Z) -> list Z) (is_pos : nat -> bool),
  (forall i p q, (forall j, j < i -> p j = q j) -> fiber i p = fiber i q) ->
  forall its : list (list Z), (forall p, In p its -> length p = n /\ runs fiber n (at_ p)) -> NoDup its ->
  NoDup (map (fun p => st_stamp Z (mixed_stamp (parent_of pl) fiber is_pos) space time (at_ p)) its).
Proof. exact stamp_cert_sound. Qed.
