(* Property C18 - stated mapping-legality rules are enforced for every instance.
   Only statements here; proofs are in Proofs/LegalProofs.v.

   The fifteen rules (dup_rank ... missing_config) are Prop definitions of Proofs/LegalProofs.v written from
   the property text; `guard s` (Model/Legal.v) is the model of the compiler's guards written from the code,
   in the code's order: Bindings.__init__, Program.__init__/Tensor.__init__, then per Einsum
   ir.Equation.__init__, Partitioning.__build_part_graph (__nway_after_dyn, __check_flatten, split loop),
   make_iter_expr.  `no_crash s`: no stage of the model fails with something that is not a ValueError (an
   Einsum without terms, a follow() whose leader has no entry, an empty rank tuple) - the "otherwise legal"
   part of the quantifier; `well_formed` is a structural sufficient condition.

   Every theorem holds for every specification: any number of Einsums, the violation in any Einsum, at any
   entry of the partitioning dictionary (before or after the entries it interacts with), at any position of a
   rank tuple of any length, at any depth of a directive stack, next to anything else.

   For the two dataflow rules (project_into_output, output_only_flattened_loop) the model's flow_guard IS the
   stated condition (the loop-nest construction that leads to the two raises is not modelled): those two
   theorems are bookkeeping, their content is in the per-run tie (tools/props/c18.py). *)
From Coq Require Import String List.
Require Import TV.Model.Legal TV.Proofs.LegalProofs.
Import ListNotations.

Theorem C18_dup_rank_rejected : forall s, no_crash s -> dup_rank s -> exists x, guard s = Err x.
Proof. exact dup_rank_rejected_P. Qed.

Theorem C18_undeclared_tensor_rejected : forall s, no_crash s -> undeclared_tensor s -> exists x, guard s = Err x.
Proof. exact undeclared_tensor_rejected_P. Qed.

Theorem C18_repeated_tensor_rejected : forall s, no_crash s -> repeated_tensor s -> exists x, guard s = Err x.
Proof. exact repeated_tensor_rejected_P. Qed.

Theorem C18_term_rank_mismatch_rejected : forall s, no_crash s -> term_rank_mismatch s -> exists x, guard s = Err x.
Proof. exact term_rank_mismatch_rejected_P. Qed.

Theorem C18_flatten_with_others_rejected : forall s, no_crash s -> flatten_with_others s -> exists x, guard s = Err x.
Proof. exact flatten_with_others_rejected_P. Qed.

Theorem C18_flatten_lt2_rejected : forall s, no_crash s -> flatten_lt2 s -> exists x, guard s = Err x.
Proof. exact flatten_lt2_rejected_P. Qed.

Theorem C18_flatten_index_math_rejected : forall s, no_crash s -> flatten_index_math s -> exists x, guard s = Err x.
Proof. exact flatten_index_math_rejected_P. Qed.

Theorem C18_flatten_and_partitioned_rejected : forall s, no_crash s -> flatten_and_partitioned s -> exists x, guard s = Err x.
Proof. exact flatten_and_partitioned_rejected_P. Qed.

(* stated for flattened names that are `derived`: not a rank of the Einsum's tensors and not the bottom level X0 of one
   (a flattened name that collides with such a rank is outside the theorem; see notes/C18.md) *)
Theorem C18_flatten_of_flattened_rejected : forall s, no_crash s -> flatten_of_flattened s -> exists x, guard s = Err x.
Proof. exact flatten_of_flattened_rejected_P. Qed.

Theorem C18_nway_after_occupancy_rejected : forall s, no_crash s -> nway_after_occupancy s -> exists x, guard s = Err x.
Proof. exact nway_after_occupancy_rejected_P. Qed.

Theorem C18_shape_after_flatten_rejected : forall s, no_crash s -> shape_after_flatten s -> exists x, guard s = Err x.
Proof. exact shape_after_flatten_rejected_P. Qed.

Theorem C18_directive_on_tuple_rejected : forall s, no_crash s -> directive_on_tuple s -> exists x, guard s = Err x.
Proof. exact directive_on_tuple_rejected_P. Qed.

Theorem C18_project_into_output_rejected : forall s, no_crash s -> project_into_output s -> exists x, guard s = Err x.
Proof. exact project_into_output_rejected_P. Qed.

Theorem C18_output_only_flattened_loop_rejected :
  forall s, no_crash s -> output_only_flattened_loop s -> exists x, guard s = Err x.
Proof. exact output_only_flattened_loop_rejected_P. Qed.

(* Bindings are parsed before anything else: no side condition *)
Theorem C18_missing_config_rejected : forall s, missing_config s -> guard s = Err ENoConfig.
Proof. exact missing_config_rejected_P. Qed.

(* what the harness evaluates in the kernel on every generated case: `violated s` lists exactly the deciders that
   answer true (each decider is exact for its rule: lemmas r_*_iff), and a non-empty list means rejection *)
Theorem C18_violated_rejected : forall s, violated s <> [] -> no_crash s -> exists x, guard s = Err x.
Proof. exact violated_rejected. Qed.

Theorem C18_violated_iff : forall s n, In n (violated s) <-> exists f, In (n, f) rules /\ f s = true.
Proof. exact violated_iff. Qed.

Theorem C18_deciders_exact : forall s,
  (r_dup_rank s = true <-> dup_rank s) /\ (r_undeclared s = true <-> undeclared_tensor s) /\
  (r_repeated s = true <-> repeated_tensor s) /\ (r_term_mismatch s = true <-> term_rank_mismatch s) /\
  (r_flatten_with_others s = true <-> flatten_with_others s) /\ (r_flatten_lt2 s = true <-> flatten_lt2 s) /\
  (r_flatten_index_math s = true <-> flatten_index_math s) /\
  (r_flatten_and_partitioned s = true <-> flatten_and_partitioned s) /\
  (r_flatten_of_flattened s = true <-> flatten_of_flattened s) /\
  (r_nway_after_occupancy s = true <-> nway_after_occupancy s) /\
  (r_shape_after_flatten s = true <-> shape_after_flatten s) /\
  (r_directive_on_tuple s = true <-> directive_on_tuple s) /\
  (r_project_into_output s = true <-> project_into_output s) /\
  (r_output_only_flattened_loop s = true <-> output_only_flattened_loop s) /\
  (r_missing_config s = true <-> missing_config s).
Proof. exact deciders_exact. Qed.

(* the structural reading of "otherwise legal" suffices for no_crash *)
Theorem C18_well_formed_no_crash : forall s, well_formed s -> no_crash s.
Proof. exact well_formed_no_crash. Qed.
