(* Property C18 - stated mapping-legality rules are enforced for every instance.
   Only statements here; proofs are in Proofs/LegalProofs.v.

   `r_<rule> s = true` reads: specification s is an instance of the stated rule (deciders written from the
   property text in Model/Legal.v; their Prop readings are the *_iff lemmas of Proofs/LegalProofs.v).
   `guard s` is the model of the compiler's guards, written from the code, in the code's order.
   `no_crash s`: no stage of the model fails with something that is not a ValueError (an Einsum without
   terms, a follow() whose leader has no entry, an empty rank tuple) - the "otherwise legal" part. *)
From Coq Require Import String List.
Require Import TV.Model.Legal TV.Proofs.LegalProofs.
Import ListNotations.

(* every instance of any of the fifteen stated rules is rejected *)
Theorem C18_violated_rejected : forall s, violated s <> [] -> no_crash s -> exists x, guard s = Err x.
Proof. exact violated_rejected. Qed.

Theorem C18_dup_rank_rejected : forall s, r_dup_rank s = true -> no_crash s -> exists x, guard s = Err x.
Proof. exact dup_rank_rejected. Qed.

Theorem C18_undeclared_tensor_rejected : forall s, r_undeclared s = true -> no_crash s -> exists x, guard s = Err x.
Proof. exact undeclared_tensor_rejected. Qed.

Theorem C18_repeated_tensor_rejected : forall s, r_repeated s = true -> no_crash s -> exists x, guard s = Err x.
Proof. exact repeated_tensor_rejected. Qed.

Theorem C18_term_rank_mismatch_rejected : forall s, r_term_mismatch s = true -> no_crash s -> exists x, guard s = Err x.
Proof. exact term_rank_mismatch_rejected. Qed.

Theorem C18_flatten_with_others_rejected : forall s, r_flatten_with_others s = true -> no_crash s -> exists x, guard s = Err x.
Proof. exact flatten_with_others_rejected. Qed.

Theorem C18_flatten_lt2_rejected : forall s, r_flatten_lt2 s = true -> no_crash s -> exists x, guard s = Err x.
Proof. exact flatten_lt2_rejected. Qed.

Theorem C18_flatten_index_math_rejected : forall s, r_flatten_index_math s = true -> no_crash s -> exists x, guard s = Err x.
Proof. exact flatten_index_math_rejected. Qed.

Theorem C18_flatten_and_partitioned_rejected : forall s, r_flatten_and_partitioned s = true -> no_crash s -> exists x, guard s = Err x.
Proof. exact flatten_and_partitioned_rejected. Qed.

Theorem C18_flatten_of_flattened_rejected : forall s, r_flatten_of_flattened s = true -> no_crash s -> exists x, guard s = Err x.
Proof. exact flatten_of_flattened_rejected. Qed.

Theorem C18_nway_after_occupancy_rejected : forall s, r_nway_after_occupancy s = true -> no_crash s -> exists x, guard s = Err x.
Proof. exact nway_after_occupancy_rejected. Qed.

Theorem C18_shape_after_flatten_rejected : forall s, r_shape_after_flatten s = true -> no_crash s -> exists x, guard s = Err x.
Proof. exact shape_after_flatten_rejected. Qed.

Theorem C18_directive_on_tuple_rejected : forall s, r_directive_on_tuple s = true -> no_crash s -> exists x, guard s = Err x.
Proof. exact directive_on_tuple_rejected. Qed.

Theorem C18_missing_config_rejected : forall s, r_missing_config s = true -> guard s = Err ENoConfig.
Proof. exact missing_config_rejected. Qed.
