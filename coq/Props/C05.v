(* Property C05 - cascades compose; each Einsum is compiled independently of its predecessors.
   Statements only.  Theorems: the Tensor state machine (Program.reset resets every declared
   tensor between Einsums) - after ANY history of operations reset restores the initial state,
   so Einsum i starts from the state Einsum 1 started from; histories before a reset are
   irrelevant.  Specification side (Proofs/EinsumCompose.v): the oracle `denote_all` every
   emitted cascade is executed against IS sequential composition (any split into prefix and
   rest), Einsum i is found under its declared name holding its own meaning on the prefix's
   results, earlier results stay, and the prefix matters to Einsum i only through the tensors
   i reads (any two histories agreeing on those give the same result).
   The monotone temporary counter (Model/TmpCounter.v, tied to TransUtils by T-eq): every
   next_tmp of one translation returns a new name, names of a later Einsum never collide with
   the prefix's, and an Einsum's requests inside a cascade are its stand-alone requests
   renumbered by a constant ("up to the numbering of temporaries").
   NOT a theorem (hence _partial): that whole emitted cascades compute the chained
   Einsums, and text equality with stand-alone compilation; those are the executable ties of
   tools/props/c05.py. *)
From Coq Require Import String List.
Require Import TV.Model.TensorSM TV.Proofs.TensorSMProofs TV.Model.Einsum TV.Proofs.EinsumCompose.
Require Import TV.Model.TmpCounter TV.Proofs.TmpCounterProofs.
Import ListNotations.
Open Scope list_scope.

Theorem C05_reset_restores_partial : forall name ranks ops, treset (trun (tinit name ranks) ops) = tinit name ranks.
Proof. exact reset_restores. Qed.

Theorem C05_reset_forgets_partial : forall name ranks ops1 ops2,
  trun (tinit name ranks) (ops1 ++ OReset :: ops2) = trun (tinit name ranks) ops2.
Proof. exact reset_forgets. Qed.

Theorem C05_init_ranks_constant : forall name ranks ops, t_init (trun (tinit name ranks) ops) = ranks.
Proof. exact init_ranks_constant. Qed.

Theorem C05_oracle_composes : forall es1 es2 ts sc,
  denote_all (es1 ++ es2) ts sc = denote_all es2 (denote_all es1 ts sc) sc.
Proof. exact denote_all_app. Qed.

Theorem C05_oracle_step_under_declared_name : forall es e ts sc,
  tlookup (e_out e) (denote_all (es ++ [e]) ts sc) = denote e (denote_all es ts sc) sc.
Proof. exact denote_all_last. Qed.

Theorem C05_oracle_keeps_earlier_results : forall es e ts sc n,
  n <> e_out e -> tlookup n (denote_all (es ++ [e]) ts sc) = tlookup n (denote_all es ts sc).
Proof. exact denote_all_keeps. Qed.

Theorem C05_einsum_depends_on_reads_only : forall e ts1 ts2 sc,
  (forall n, einsum_reads n e = true -> tlookup n ts1 = tlookup n ts2) ->
  denote e ts1 sc = denote e ts2 sc.
Proof. exact denote_reads_only. Qed.

Theorem C05_prefix_matters_through_reads_only : forall es es' e ts ts' sc,
  (forall n, einsum_reads n e = true ->
             tlookup n (denote_all es ts sc) = tlookup n (denote_all es' ts' sc)) ->
  tlookup (e_out e) (denote_all (es ++ [e]) ts sc) = tlookup (e_out e) (denote_all (es' ++ [e]) ts' sc).
Proof. exact cascade_step_depends_on_reads. Qed.

Theorem C05_tmp_next_always_new : forall n ops, NoDup (issued (tmp_run n ops)).
Proof. exact issued_NoDup. Qed.

Theorem C05_tmp_issued_in_sequence : forall ops n, issued (tmp_run n ops) = seq n (nexts ops).
Proof. exact issued_seq. Qed.

Theorem C05_tmp_cascade_disjoint : forall n ops1 ops2 k,
  In k (issued (tmp_run n ops1)) -> In k (issued (tmp_run (tmp_final n ops1) ops2)) -> False.
Proof. exact cascade_tmps_disjoint. Qed.

Theorem C05_tmp_cascade_is_renumbering : forall ops1 ops2,
  tmp_ok (tmp_run 0 ops2) = true ->
  tmp_run 0 (ops1 ++ ops2) = tmp_run 0 ops1 ++ map (shift (nexts ops1)) (tmp_run 0 ops2).
Proof. exact cascade_is_renumbering. Qed.

Theorem C05_tmp_curr_is_last_issued : forall n ops,
  snd (tmp_step (tmp_final n (ops ++ [TNext])) TCurr) = Some (n + nexts ops).
Proof. exact curr_is_last_issued. Qed.
