(* Property C05 - cascades compose; each Einsum is compiled independently of its predecessors.
   Statements only.  Theorems: the Tensor state machine (Program.reset resets every declared
   tensor between Einsums) - after ANY history of operations reset restores the initial state,
   so Einsum i starts from the state Einsum 1 started from; histories before a reset are
   irrelevant.  NOT a theorem (hence _partial): that whole emitted cascades compute the chained
   Einsums, and text equality with stand-alone compilation; those are the executable ties of
   tools/props/c05.py. *)
From Coq Require Import String List.
Require Import TV.Model.TensorSM TV.Proofs.TensorSMProofs.
Import ListNotations.

Theorem C05_reset_restores_partial : forall name ranks ops, treset (trun (tinit name ranks) ops) = tinit name ranks.
Proof. exact reset_restores. Qed.

Theorem C05_reset_forgets_partial : forall name ranks ops1 ops2,
  trun (tinit name ranks) (ops1 ++ OReset :: ops2) = trun (tinit name ranks) ops2.
Proof. exact reset_forgets. Qed.

Theorem C05_init_ranks_constant : forall name ranks ops, t_init (trun (tinit name ranks) ops) = ranks.
Proof. exact init_ranks_constant. Qed.
