(* Property C07 - tensor variable names tell the truth; inputs are never modified.
   Statements only.  Theorems: (runtime half) every tensor-producing operation of the modelled
   runtime only allocates - every object that existed before the call, in particular every user
   input, and the environment are unchanged (fresh_ops_frame); setRankIds, the one tensor
   method that writes, writes only its receiver.  (compiler half) the name the compiler gives
   a tensor spells its active ranks.  NOT a theorem (hence _partial): that in whole emitted
   programs setRankIds receivers and populated fibers are never reachable from an input
   variable - on the CONCRETE interpreter; that half is the kernel-evaluated post-condition on
   the final state of every execution (tools/props/c07.py).
   (static half, the C07_rankty theorems) On the abstract rank-id semantics of emitted programs
   (Model/RankTy.v: tensor objects = location, rank ids, provenance; all paths - a loop runs
   zero or more times, an `if` takes either branch) the checker `rankty_ok`, which
   tools/props/c07.py evaluates in the kernel on every emitted program, is SOUND: no
   execution renames a user-supplied tensor object in place, populates or updates
   user-supplied data or leaves the modelled subset, and every terminating execution ends
   with every <Name>_<Ranks> variable holding a tensor whose rank ids spell <Ranks> (exactly
   the declared-or-rank-order list for inputs and results), every input and result variable
   bound, every user-supplied object still carrying its original rank ids.  The abstract
   semantics itself is trusted (tied to Model/Interp.v by comparing its prediction with every
   executed case). *)
From Coq Require Import String List FMapPositive.
Require Import TV.Model.Py TV.Model.Rt TV.Model.Interp TV.Model.TensorSM TV.Proofs.RtFrame TV.Proofs.TensorSMProofs.
Require TV.Model.RankTy TV.Proofs.RankTyProofs.
Import ListNotations.

Theorem C07_fresh_ops_frame_partial : forall tv m args kw st v st',
  allocating m = true -> tensor_method tv m args kw st = Ok (v, st') -> frame st st'.
Proof. exact fresh_ops_frame. Qed.

Theorem C07_set_rank_ids_writes_receiver_only_partial : forall l args kw st v st',
  tensor_method (VLoc l) "setRankIds" args kw st = Ok (v, st') ->
  (forall l', l' <> l -> PM.find l' (heap st') = PM.find l' (heap st)) /\ env st' = env st /\ next st' = next st.
Proof. exact set_rank_ids_frame. Qed.

Theorem C07_tensor_name_spells : forall t,
  exists suffix, tensor_name t = (t_name t ++ "_" ++ String.concat "" (active t) ++ suffix)%string /\
                 (suffix = ""%string \/ suffix = "_flat"%string).
Proof. exact tensor_name_spells. Qed.

(* ---- static half: the certified rank-id checker (Model/RankTy.v, Proofs/RankTyProofs.v) ---- *)

(* the verdict the harness evaluates: for every program, any inputs table / names table *)
Theorem C07_rankty_sound : forall (c : RankTy.rctx) (p : program), RankTy.rankty_ok c p = true ->
  (forall w, ~ RankTy.sem_block (RankTy.init c) p (RankTy.OBad w)) /\
  (forall s', RankTy.sem_block (RankTy.init c) p (RankTy.OFine s') -> RankTy.post c s').
Proof. exact RankTyProofs.rankty_sound. Qed.

(* the analysis itself, from ANY abstract state C and any state S it describes: unbounded in the program and in
   the number of loop iterations *)
Theorem C07_rankty_chk_sound : forall ss C C', RankTy.chk_block C ss = RankTy.ROk C' ->
  forall S, RankTyProofs.le S C ->
  (forall w, ~ RankTy.sem_block S ss (RankTy.OBad w)) /\
  (forall S', RankTy.sem_block S ss (RankTy.OFine S') -> RankTyProofs.le S' C').
Proof. exact RankTyProofs.chk_block_sound. Qed.

(* the only trusted comparison of abstract states is the decision procedure leb (join candidates are not) *)
Theorem C07_rankty_leb_sound : forall A B, RankTy.leb A B = true -> RankTyProofs.le A B.
Proof. exact RankTyProofs.leb_sound. Qed.

(* whatever the checker says: on a path that does not go bad, a user-supplied tensor object keeps its rank ids *)
Theorem C07_rankty_user_objects_kept : forall s ss s', RankTy.sem_block s ss (RankTy.OFine s') -> RankTyProofs.hwf s ->
  forall l o, RankTy.PM.find l (RankTy.heap s) = Some o -> RankTy.t_oprov o = RankTy.User ->
  RankTy.PM.find l (RankTy.heap s') = Some o.
Proof. exact RankTyProofs.sem_frame. Qed.

(* completeness on straight-line code (headers, footers): a rejection there IS a bad execution *)
Theorem C07_rankty_straight_line_complete : forall ss c w,
  forallb RankTy.is_simple ss = true -> RankTy.chk_block c ss = RankTy.RBad w -> RankTy.sem_block c ss (RankTy.OBad w).
Proof. exact RankTyProofs.straight_complete. Qed.
(* NOT proved (hence no _complete theorem for whole programs): at an `if` / a loop the checker may reject for lack
   of a join / an invariant in its domain; such rejections are counted by tools/props/c07.py and must be explained. *)
