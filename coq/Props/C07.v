(* Property C07 - tensor variable names tell the truth; inputs are never modified.
   Statements only.  Theorems: (runtime half) every tensor-producing operation of the modelled
   runtime only allocates - every object that existed before the call, in particular every user
   input, and the environment are unchanged (fresh_ops_frame); setRankIds, the one tensor
   method that writes, writes only its receiver.  (compiler half) the name the compiler gives
   a tensor spells its active ranks.  NOT a theorem (hence _partial): that in whole emitted
   programs setRankIds receivers and populated fibers are never reachable from an input
   variable (stage-2 provenance checker); that half is the kernel-evaluated post-condition on
   the final state of every execution (tools/props/c07.py). *)
From Coq Require Import String List FMapPositive.
Require Import TV.Model.Py TV.Model.Rt TV.Model.Interp TV.Model.TensorSM TV.Proofs.RtFrame TV.Proofs.TensorSMProofs.
Import ListNotations.

Theorem C07_fresh_ops_frame_partial : forall tv m args kw st v st',
  allocating m = true -> tensor_method tv m args kw st = Ok (v, st') -> frame st st'.
Proof. exact fresh_ops_frame. Qed.

Theorem C07_set_rank_ids_writes_receiver_only_partial : forall l args kw st v st',
  tensor_method (VLoc l) "setRankIds" args kw st = Ok (v, st') ->
  (forall l', l' <> l -> PM.find l' (heap st') = PM.find l' (heap st)) /\ env st' = env st /\ next st' = next st.
Proof. exact set_rank_ids_frame. Qed.

Theorem C07_tensor_name_spells : forall t,
  exists suffix, tensor_name t = (t_name t ++ "_" ++ String.concat "" (active t) ++ suffix)%string /\
                 (suffix = ""%string \/ suffix = "_flat"%string).
Proof. exact tensor_name_spells. Qed.
