(* Property C08 - emission-order nondeterminism is benign.  Statements only.
   The hash-seeded iteration order of CPython is not modelled; what IS a theorem is that the
   closedness verdict applied to EVERY variant is exact (C06's checker, sound and complete),
   so "all texts are closed" is decided per variant by proof, not by execution.  The equality
   of the computed tensors across variants is kernel-evaluated execution (tools/props/c08.py);
   the order-insensitivity of hoisting for any topological order is property C10's theorem.

   Two of the three order-dependent mechanisms the property names ARE quantified over all
   orders at model level (models tied to the code by C10's and C19's correspondence checks):
   - the topological sort's tie-break (hash(repr(node))): whatever topological order the sort
     returns, hoisting yields a legal statement order with the loops bracketed in loop order
     (C08_any_tie_break_order_ok_partial), and two tie-breaks yield the SAME statements
     (C08_two_tie_breaks_same_statements_partial);
   - the set of partitioned ranks iterated to expand the default loop order: every iteration
     order of that set gives the same expansion (C08_partition_set_order_irrelevant_partial).
   `_partial`: the third mechanism (sets of traces iterated to emit registrations) and the
   equality of the tensors computed by two legal statement orders are not theorems. *)
From Coq Require Import String List Bool PArith Arith Permutation.
Require Import TV.Model.Py TV.Model.Closed TV.Proofs.ClosedProofs.
Require TV.Model.FlowOrder TV.Proofs.FlowOrderProofs TV.Model.Defaults TV.Proofs.DefaultsProofs.
Import ListNotations.

Theorem C08_variant_closedness_decided_partial : forall ss B,
  (exists D, da_block B ss = Some D) <-> ~ sem_block B ss Unbound.
Proof. exact da_block_decides. Qed.

Section TieBreak.
Import TV.Model.FlowOrder TV.Proofs.FlowOrderProofs.

(* every topological order the seed-dependent sort may return *)
Theorem C08_any_tie_break_order_ok_partial : forall g loops body ends l,
  topo g l -> In body l -> length loops = length ends ->
  (forall a b, In (a, b) (chain_edges (chain loops body ends)) -> In (a, b) g) ->
  let l' := hoist g loops l in
  Permutation l' l /\ topo g l' /\
  filter (fun x => memb x (chain loops body ends)) l' = chain loops body ends /\
  exists ts, trans_nodes (classify loops ends) l' = Some ts /\
             flat_forest 0 ts = toks (classify loops ends) 0 l'.
Proof. exact hoisted_order_ok. Qed.

(* two seeds: two sorts of the same node set; the hoisted lists hold the same statements, each once *)
Theorem C08_two_tie_breaks_same_statements_partial : forall g loops l1 l2,
  Permutation l1 l2 -> Permutation (hoist g loops l1) (hoist g loops l2).
Proof.
  intros g loops l1 l2 H.
  eapply Permutation_trans; [apply hoist_perm|].
  eapply Permutation_trans; [exact H|]. apply Permutation_sym, hoist_perm.
Qed.
End TieBreak.

Section SetOrder.
Import TV.Model.Defaults TV.Proofs.DefaultsProofs.

(* the set of partitioned ranks may be iterated in any order ps' *)
Theorem C08_partition_set_order_irrelevant_partial : forall ps ps' ranks fuel,
  NoDup (map fst ps) -> fresh_b ps = true -> NoDup ranks -> Permutation ps ps' -> 2 <= fuel ->
  part_loop fuel ps' ranks = Some (expand ps ranks).
Proof. exact part_loop_expand. Qed.
End SetOrder.
