(* Property C08 - emission-order nondeterminism is benign.  Statements only.
   The hash-seeded iteration order of CPython is not modelled; what IS a theorem is that the
   closedness verdict applied to EVERY variant is exact (C06's checker, sound and complete),
   so "all texts are closed" is decided per variant by proof, not by execution.  The equality
   of the computed tensors across variants is kernel-evaluated execution (tools/props/c08.py);
   the order-insensitivity of hoisting for any topological order is property C10's theorem. *)
From Coq Require Import List.
Require Import TV.Model.Py TV.Model.Closed TV.Proofs.ClosedProofs.

Theorem C08_variant_closedness_decided_partial : forall ss B,
  (exists D, da_block B ss = Some D) <-> ~ sem_block B ss Unbound.
Proof. exact da_block_decides. Qed.
