(* Property C11 - metrics instrumentation does not change what is computed.
   Statements only.  Theorems about the modelled runtime: API calls other than the Tensor
   constructor only allocate or log (no existing object, hence no tensor, changes); an explicit
   output shape and the trace= keyword are irrelevant to the data.  NOT a theorem (hence
   _partial): equivalence of whole instrumented and plain programs; that is the kernel-evaluated
   pairwise execution of tools/props/c11.py. *)
From Coq Require Import String List.
Require Import TV.Model.Py TV.Model.Rt TV.Model.Interp TV.Proofs.RtFrame TV.Proofs.Spacetime TV.Proofs.Inert.
Import ListNotations.

Theorem C11_api_calls_frame_partial : forall g args kw st v st',
  global_call g args kw st = Ok (v, st') -> frame st st'.
Proof. exact observation_calls_frame. Qed.

Theorem C11_shape_irrelevant_partial : forall args kw shape st,
  global_call "Tensor" args (kw ++ [("shape"%string, shape)]) st = global_call "Tensor" args kw st.
Proof. exact shape_irrelevant. Qed.

Theorem C11_trace_kwarg_irrelevant_partial : forall fv args kw kw' st,
  fiber_method fv "getPayload" args kw st = fiber_method fv "getPayload" args kw' st.
Proof. exact trace_kwarg_irrelevant. Qed.
