(* Property C15 - compilation does not mutate its inputs and is repeatable.  Statements only.
   The model is thin by design (DESIGN.md 6 C15): once components work on a copy the store is
   untouched by construction; the pinned tree's sharing is refuted with a witness (finding F2,
   fixed).  The strength of C15 is the tie: deep snapshots of the five parsed objects around
   HiFiber(...), recompilation from the same objects, order-of-compilation independence, and
   T-eq of the buffet view against the real BuffetComponent (tools/props/c15.py). *)
From Coq Require Import String List.
Require Import TV.Model.BindStore TV.Proofs.BindStoreProofs.
Import ListNotations.

Theorem C15_build_all_pure_partial : forall fmt ranks types (ns : list string) st,
  fold_left (fun s n => snd (build true fmt ranks types s n)) ns st = st.
Proof. exact build_all_pure. Qed.

Theorem C15_build_repeatable_partial : forall fmt ranks types st n,
  fst (build true fmt ranks types (snd (build true fmt ranks types st n)) n) = fst (build true fmt ranks types st n).
Proof. exact build_repeatable. Qed.

Theorem C15_shared_bindings_refuted :
  exists st n fmt ranks types,
    snd (build false fmt ranks types st n) <> st /\
    fst (build false fmt ranks types (snd (build false fmt ranks types st n)) n) <> fst (build false fmt ranks types st n).
Proof. exact shared_build_refuted. Qed.
