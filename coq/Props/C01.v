(* Property C01 - the generated loop nest computes the Einsum, for every loop order and
   rank order.  Statements only.

   C01_nest_sound is the unbounded core: for ANY loop order L, ANY number of terms and
   factors, ANY tries (inputs of any size and sparsity): executing the co-iteration nest
   (per level: union over the terms of the intersection of the tensors holding the rank;
   a term that dies at a coordinate hands structural defaults to its participants)
   contributes, at every full point p, exactly  sum_terms prod_factors A_f(p).
   Hypothesis wf: at every level each term has a participant and at the bottom all tensors
   are exhausted (follows from: every tensor's rank order is concordant with the loop
   order and every term covers every loop rank - the swizzles the compiler emits).

   What is NOT a theorem yet (stage 2, DESIGN.md 6 C01): that the emitted Python text is
   `lower` of such a nest; that tie is the kernel-evaluated execution of every emitted
   program against the dense oracle (tools/props/c01.py). *)
From Coq Require Import ZArith List String.
Require Import TV.Model.Nest TV.Proofs.NestProofs TV.Model.NestTake TV.Proofs.NestTakeProofs.
Import ListNotations.
Open Scope Z_scope.

Theorem C01_nest_sound_partial : forall L tms, wf L tms -> forall p, sum_at p (run L tms) = body_den tms p.
Proof. exact nest_sound. Qed.

(* certified validation of one emitted program: the boolean validator evaluated by the kernel on the rank
   structure and per-level co-iteration read off the program (tools/props/c01.py) implies, for ALL inputs,
   that the nest computes the sum of products, and that the text co-iterates exactly what `run` does *)
Theorem C01_nest_okb_sound_partial : forall L tms views,
  nest_okb L (map (map rem) tms) views = true ->
  views = expected_views L (map (map rem) tms) /\ forall p, sum_at p (run L tms) = body_den tms p.
Proof. exact nest_okb_sound. Qed.

(* the same with the update statement included: the validator also reads off the innermost statement - which operands
   each term multiplies (scalar factors are rank-0 operands) and whether it accumulates (`+=`) or assigns (`<<=`).  If it
   accepts, then for ALL inputs: the nest as the text writes it (run_lv: the text's own update expression at the bottom)
   leaves at every output point o what accumulating every contribution of the proven nest `run` leaves there - an
   assignment being accepted only when no loop rank is reduced away, in which case every output point receives at most
   one contribution - and those contributions are, at every full point, the sum of products. *)
Theorem C01_nest_full_okb_sound_partial : forall L tms views acc lv out,
  nest_full_okb L (map (map rem) tms) views acc lv out = true ->
  views = expected_views L (map (map rem) tms) /\
  (forall o, nest_result acc out o (run_lv lv L tms) = out_sum_at out o (run L tms)) /\
  (forall p, sum_at p (run L tms) = body_den tms p).
Proof. exact nest_full_okb_sound. Qed.

(* take(): a term take(op_0, ..., op_n, i) has operand i's value where every operand is non-zero and 0 elsewhere (sden);
   the emitted nest co-iterates it like a product and its update adds the selected operand's leaf (sleaf, runS).
   For ANY loop order, ANY mix of product and take terms and ANY input tries whose stored leaves are non-zero (goodb):
   if the validator accepts - in particular every take's selected operand holds every loop rank (takes_okb), read off
   the rank structure - the nest as the text writes it leaves in every output point the accumulated contributions of
   runS, which are at every full point the Einsum's value. *)
Theorem C01_nest_take_full_okb_sound_partial : forall L sels tms views acc lv out,
  nest_take_full_okb L (map (map rem) tms) views sels acc lv out = true ->
  forallb (forallb (fun t => goodb (rem t) (cur t))) tms = true ->
  views = expected_views L (map (map rem) tms) /\
  (forall o, nest_result acc out o (run_lv lv L tms) = out_sum_at out o (runS L (combine sels tms))) /\
  (forall p, sum_at p (runS L (combine sels tms)) = sbody_den (combine sels tms) p).
Proof. exact nest_take_full_okb_sound. Qed.

(* a single-term program (one product or one take): no side condition on the selected operand is needed, because the
   nest only visits coordinates at which the term is alive *)
Theorem C01_nest_take1_full_okb_sound_partial : forall L s tm views acc lv out,
  nest_take1_full_okb L (map rem tm) views s acc lv out = true ->
  forallb (fun t => goodb (rem t) (cur t)) tm = true ->
  views = expected_views L [map rem tm] /\
  (forall o, nest_result acc out o (run_lv lv L [tm]) = out_sum_at out o (runS L [(s, tm)])) /\
  (forall p, sum_at p (runS L [(s, tm)]) = sden (s, tm) p).
Proof. exact nest_take1_full_okb_sound. Qed.

(* finding F7 at the model level: the side condition on the selected operand is necessary.  For
   Z[m] = A[m] + take(B[], C[m], 0) (B selected, rank-0) with A = {0: 1}, B = 5, C = {1: 2} the emitted nest contributes 6
   at m = 0 where the Einsum defines 1. *)
Theorem C01_take_in_sum_refuted :
  swf ["M"%string] (map (map rem) f7_terms) = true /\
  forallb (forallb (fun t => goodb (rem t) (cur t))) f7_terms = true /\
  takes_okb ["M"%string] f7_sels (map (map rem) f7_terms) = false /\
  exists p, sum_at p (runS ["M"%string] (combine f7_sels f7_terms)) <> sbody_den (combine f7_sels f7_terms) p.
Proof. exact runS_take_unsafe_refuted. Qed.
