(* Property C01 - the generated loop nest computes the Einsum, for every loop order and
   rank order.  Statements only.

   C01_nest_sound is the unbounded core: for ANY loop order L, ANY number of terms and
   factors, ANY tries (inputs of any size and sparsity): executing the co-iteration nest
   (per level: union over the terms of the intersection of the tensors holding the rank;
   a term that dies at a coordinate hands structural defaults to its participants)
   contributes, at every full point p, exactly  sum_terms prod_factors A_f(p).
   Hypothesis wf: at every level each term has a participant and at the bottom all tensors
   are exhausted (follows from: every tensor's rank order is concordant with the loop
   order and every term covers every loop rank - the swizzles the compiler emits).

   What is NOT a theorem yet (stage 2, DESIGN.md 6 C01): that the emitted Python text is
   `lower` of such a nest; that tie is the kernel-evaluated execution of every emitted
   program against the dense oracle (tools/props/c01.py). *)
From Coq Require Import ZArith List String.
Require Import TV.Model.Nest TV.Proofs.NestProofs.
Import ListNotations.
Open Scope Z_scope.

Theorem C01_nest_sound_partial : forall L tms, wf L tms -> forall p, sum_at p (run L tms) = body_den tms p.
Proof. exact nest_sound. Qed.

(* certified validation of one emitted program: the boolean validator evaluated by the kernel on the rank
   structure and per-level co-iteration read off the program (tools/props/c01.py) implies, for ALL inputs,
   that the nest computes the sum of products, and that the text co-iterates exactly what `run` does *)
Theorem C01_nest_okb_sound_partial : forall L tms views,
  nest_okb L (map (map rem) tms) views = true ->
  views = expected_views L (map (map rem) tms) /\ forall p, sum_at p (run L tms) = body_den tms p.
Proof. exact nest_okb_sound. Qed.

(* the same with the update statement included: the validator also reads off the innermost statement - which operands
   each term multiplies (scalar factors are rank-0 operands) and whether it accumulates (`+=`) or assigns (`<<=`).  If it
   accepts, then for ALL inputs: the nest as the text writes it (run_lv: the text's own update expression at the bottom)
   leaves at every output point o what accumulating every contribution of the proven nest `run` leaves there - an
   assignment being accepted only when no loop rank is reduced away, in which case every output point receives at most
   one contribution - and those contributions are, at every full point, the sum of products. *)
Theorem C01_nest_full_okb_sound_partial : forall L tms views acc lv out,
  nest_full_okb L (map (map rem) tms) views acc lv out = true ->
  views = expected_views L (map (map rem) tms) /\
  (forall o, nest_result acc out o (run_lv lv L tms) = out_sum_at out o (run L tms)) /\
  (forall p, sum_at p (run L tms) = body_den tms p).
Proof. exact nest_full_okb_sound. Qed.
