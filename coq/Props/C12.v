(* Property C12 - every trace the metrics dump consumes is produced during collection.
   Only statements here; proofs are in Proofs/XRefProofs.v (the cross-reference on the emitted text)
   and Proofs/TraceNamesProofs.v (the two derivations of trace names inside the compiler).

   Reading of the property on the event sequence of an emitted program (Model/XRef.v, [events]):
   a section is what follows one Metrics.beginCollect up to the next one; [prog_ok n l] says that
   nothing but intersector creations (no other event, no loop) precedes the first section, that there are exactly n sections (n = the
   number of Einsums; intersector creations may stand between a dump and the next beginCollect and are carried
   over to the section they precede), and that every section is [sec_ok]: closed by exactly one endCollect at nesting
   depth 0 after every loop; every file handed to Traffic.buffetTraffic/cacheTraffic (through the traces
   dictionary), Traffic.filterTrace (inputs), Compute.numIters, and every Metrics.consumeTrace(rank, type)
   is produced by an EARLIER event of the same section - a Metrics.trace(rank, type_=type) inside the
   collection window whose file name prefix-rank-type.csv is the consumed name (for "eager_" types also
   an emitted <fiber>.trace(type) in the window), or the output of an earlier Traffic.filterTrace; every
   X.getNumIntersects() has X = ...Intersector() before the first loop and X.addTraces(...) inside the
   window at the exit of a loop (the closest loop bracket before it closes a loop: for the outermost
   loop rank that is after the nest and before endCollect - where the compiler's loop footer is). *)
From Coq Require Import String List.
Require Import TV.Model.XRef TV.Proofs.XRefProofs TV.Model.TraceNames TV.Proofs.TraceNamesProofs.
Import ListNotations.

(* the decision procedure evaluated by the kernel on every emitted program is sound and complete *)
Theorem C12_checker_iff : forall n l, prog_failures n l = [] <-> prog_ok n l.
Proof. exact prog_failures_nil_iff. Qed.

Theorem C12_section_checker_iff : forall p c body, sec_failures p c body = [] <-> sec_ok p c body.
Proof. exact sec_failures_nil_iff. Qed.

(* sections: the event sequence is the preamble followed by the sections, each opened by its own
   beginCollect, and no other beginCollect occurs anywhere *)
Theorem C12_sections : forall l,
  l = fst (split_secs l) ++ flat_map (fun s => Begin (fst s) :: snd s) (snd (split_secs l))
  /\ no_begin (fst (split_secs l))
  /\ Forall (fun s => no_begin (snd s)) (snd (split_secs l)).
Proof. exact split_secs_spec. Qed.

(* the creations a section inherits are exactly the Create events that end the preceding segment *)
Theorem C12_carry : forall l, exists a, l = a ++ carry l /\ (forall e, In e (carry l) -> is_create e = true)
  /\ match rev a with [] => True | e :: _ => is_create e = false end.
Proof. exact carry_spec. Qed.

(* "closed exactly once after its loop nest" *)
Theorem C12_window : forall p c body, sec_ok p c body ->
  exists mid post, body = mid ++ End :: post /\ ~ In End mid /\ ~ In End post
                   /\ (forall e, In e post -> is_marker e = false) /\ depth mid 0 = Some 0.
Proof. exact ok_window. Qed.

(* "every trace file name handed to the traffic ... model is produced earlier in the same section by a
   registration with the same prefix, rank and trace type or by an emitted filter step" *)
Theorem C12_traffic_file_produced : forall p c body a fs b f,
  sec_ok p c body -> body = a ++ Traffic fs :: b -> In f fs ->
  (exists r lab, In (Reg r lab) (window a) /\ f = fname p r lab /\ (is_eager lab = true -> In (Emit lab) (window a)))
  \/ (exists i fl, In (Filter i fl f) a).
Proof. exact ok_traffic_file_produced. Qed.

Theorem C12_filter_inputs_produced : forall p c body a i fl o b,
  sec_ok p c body -> body = a ++ Filter i fl o :: b -> produced p a (NFile i) /\ produced p a (NFile fl).
Proof. exact ok_filter_inputs_produced. Qed.

Theorem C12_sequencer_file_produced : forall p c body a f b,
  sec_ok p c body -> body = a ++ NumIters f :: b -> produced p a (NFile f).
Proof. exact ok_numiters_produced. Qed.

Theorem C12_intersector_trace_registered : forall p c body a r lab b,
  sec_ok p c body -> body = a ++ Consume r lab :: b -> In (Reg r lab) (window a).
Proof. exact ok_consume_registered. Qed.

(* "every intersector model queried in the dump was created before the loops and fed inside them" *)
Theorem C12_intersector_created_fed : forall p c body x,
  sec_ok p c body -> In (Query x) body -> created x (c ++ body) /\ fed x (window body).
Proof. exact ok_query_created_fed. Qed.

(* ---- the two derivations of trace names inside the compiler (Model/TraceNames.v) ----------------- *)

(* Collector.__get_trace against Collector.set_collecting, for EVERY binding (lazy or eager; coord, payload
   or elem; read or write): the consumed file is the file of the label registered for the binding, or - the
   payload of a filterable lazy trace - the output of the filter step emitted with it, whose inputs are the
   files of that label and of the loop's iter trace at the same rank *)
Theorem C12_names_binding : forall c b rd,
  (snd (get_trace c b rd) = [] /\ fst (get_trace c b rd) = fname (c_prefix c) (b_rank b) (label c b rd))
  \/ (b_root b = None /\ is_payload b = true /\ filterable (label c b rd) = true
      /\ snd (get_trace c b rd) = [Filter (fname (c_prefix c) (b_rank b) (label c b rd))
                                          (fname (c_prefix c) (b_rank b) "iter")
                                          (fst (get_trace c b rd))]).
Proof. exact get_trace_name. Qed.

(* for EVERY configuration in which each active buffer binding is on the format selected for the loop nest
   (hypb): every file the dump hands to a traffic, filter or sequencer model is the file of a registered
   (rank, type) or was written by an earlier filter step *)
Theorem C12_names_consumed_registered : forall c,
  hypb c = true ->
  forall a e b q, dump_events c = a ++ e :: b -> In q (needs e) ->
  exists f, q = NFile f /\ name_produced c a f.
Proof. exact model_consumed_registered. Qed.

Theorem C12_names_fed_registered : forall c,
  hypb c = true -> forall r lab, In (Consume r lab) (feed_events c) -> In (r, lab) (registered c).
Proof. exact model_fed_registered. Qed.

(* without that hypothesis the statement is false (finding F8): a binding whose format is not in the order
   of the loop nest is consumed by the dump although nothing registers its traces *)
Theorem C12_names_unselected_format_refuted :
  hypb f8_cfg = false /\
  exists a e b f, dump_events f8_cfg = a ++ e :: b /\ In (NFile f) (needs e) /\ ~ name_produced f8_cfg a f.
Proof. exact f8_refuted. Qed.

(* the proposed repair (notes/C12_fix_1.diff: __build_traffic skips the bindings that are not on a traffic path
   of the selected format) restores the statement for every configuration, and registers exactly the same traces *)
Theorem C12_names_repaired : forall c,
  hyp_rest c = true ->
  forall a e b q, dump_events (sel_cfg c) = a ++ e :: b -> In q (needs e) ->
  exists f, q = NFile f /\ name_produced (sel_cfg c) a f.
Proof. exact repaired_consumed_registered. Qed.

Theorem C12_names_repaired_same_registrations : forall c, registered (sel_cfg c) = registered c.
Proof. exact registered_sel. Qed.
