(* Property C14 - execution time is the bottleneck-per-block roll-up of component times.
   Only statements here; proofs are in Proofs/TimeProofs.v, the model in Model/Time.v.

   Reading of the property in the model:
     comps e            the components whose time the dump computes (registers) for Einsum e
     rollup .. blocks   SUM over blocks of ( MAX over the components active in the block of
                        ( that component's time SUMMED over the block's Einsums ) ), 0 for a block without
                        timed components
     eval .. x          the value of the expression x in a structure (add, max, zero) over the leaf values
                        rho e c = metrics[e][c]["time"]
   The theorems hold in EVERY commutative and associative (add, max, zero) ("maxplus"); exact rationals (Qc)
   and integers are instances.  Python floats are not (float + is not associative): the statements are about
   the expression as mathematics, as the property is. *)
From Coq Require Import String List ZArith QArith Qcanon Permutation.
Require Import TV.Model.Time TV.Proofs.TimeProofs.
Import ListNotations.

(* (1) Collector.__build_time - modelled literally, including the insertion-ordered dictionary, the sorted keys
   and the reuse of the loop variable `comp` for one-component blocks - never raises for a non-empty list of
   blocks and its expression denotes the roll-up: for all blocks, all registrations, all component times. *)
Theorem C14_build_time_rollup :
  forall (T : Type) (add mx : T -> T -> T) (zero : T), maxplus add mx zero ->
  forall (rho : string -> string -> T) (comps : string -> list string) (blocks : list (list string)),
  blocks <> [] ->
  exists x, build_time comps blocks = Some x /\
            eval add mx zero rho x = rollup add mx zero rho comps blocks.
Proof. exact @build_time_rollup. Qed.

Theorem C14_rationals_are_an_instance : maxplus Qcplus Qcmax 0%Qc.
Proof. exact maxplus_Qc. Qed.

(* (2) every component time registered for an Einsum is a leaf of that expression exactly as often as it is
   registered; when every Einsum lies in one block (C13) and no component is registered twice for an
   Einsum: exactly once, and the expression has no other leaf. *)
Theorem C14_build_time_leaves :
  forall comps blocks x, build_time comps blocks = Some x -> Permutation (leaves x) (all_pairs comps blocks).
Proof. exact build_time_leaves. Qed.

Theorem C14_build_time_each_once :
  forall comps blocks x,
  build_time comps blocks = Some x -> NoDup (concat blocks) -> (forall e, NoDup (comps e)) ->
  NoDup (leaves x) /\ forall e c, In (e, c) (leaves x) <-> In e (concat blocks) /\ In c (comps e).
Proof. exact build_time_each_once. Qed.

(* (3) the validator evaluated by the kernel on the expression of every emitted program: whatever the
   expression looks like (any association, any order of the arguments of + and max), acceptance implies
   that it denotes the roll-up and that its leaves are the registered pairs, each once. *)
Theorem C14_validator_sound :
  forall (T : Type) (add mx : T -> T -> T) (zero : T), maxplus add mx zero ->
  forall rho comps blocks x, time_okb comps blocks x = true ->
  eval add mx zero rho x = rollup add mx zero rho comps blocks.
Proof. exact @validator_sound. Qed.

Theorem C14_validator_each_once :
  forall comps blocks x,
  time_okb comps blocks x = true -> NoDup (concat blocks) -> (forall e, NoDup (comps e)) ->
  NoDup (leaves x) /\ forall e c, In (e, c) (leaves x) <-> In e (concat blocks) /\ In c (comps e).
Proof. exact validator_each_once. Qed.

(* (4) instance counts: the level NAME[0..N] declares N + 1 instances, NAME one; a component's count is that
   of the level declaring it; the divisor of its time is frequency (bandwidth for memories) times the count. *)
Theorem C14_level_multiple :
  forall name ds, cname name -> all_s is_digit ds = true -> ds <> EmptyString ->
  parse_level (name ++ "[0.." ++ ds ++ "]")%string = Some (name, (digits_val ds 0 + 1)%Z).
Proof. exact parse_level_multiple. Qed.

Theorem C14_level_single : forall name, cname name -> parse_level name = Some (name, 1%Z).
Proof. exact parse_level_single. Qed.

Theorem C14_component_instances :
  forall raw f locals subs d,
  In d locals -> (forall d', In d' locals -> c_name d' = c_name d -> d' = d) ->
  (forall s, In s subs -> count_decl (c_name d) (built_level s) = 0%nat) ->
  lookup_last (c_name d) (built_level (Level raw f locals subs)) =
  Some (match parse_level raw with Some (_, n) => n | None => 0%Z end, c_class d, c_bw d).
Proof. exact spec_cinfo_level. Qed.

Theorem C14_divisor_form :
  forall a cfg c n cls bw, spec_cinfo a cfg c = Some (n, cls, bw) ->
  spec_divisor a cfg c = Some (if is_memory cls then bw * n else cfg_freq a cfg * n)%Z.
Proof. exact divisor_form. Qed.

(* the code keeps one dictionary of components for all configurations: for a component name declared once in
   the architecture it yields the divisor of the Einsum's own configuration tree ... *)
Theorem C14_divisor_unique_name :
  forall a cfg c, spec_cinfo a cfg c <> None -> count_decl c (built a) = 1%nat ->
  code_divisor a cfg c = spec_divisor a cfg c.
Proof. exact divisor_unique. Qed.

(* ... and for a name shared by two configurations it does not (finding F14, replayed on the implementation
   by tools/props/c14.py): Einsum on P1 (PE[0..3], 1000 Hz, DRAM 512 b/s) is timed with P2's 8 instances / 4096 b/s *)
Theorem C14_shared_name_divisor_refuted :
  exists a cfg c1 c2,
    spec_divisor a cfg c1 = Some 4000%Z /\ code_divisor a cfg c1 = Some 8000%Z /\
    spec_divisor a cfg c2 = Some 512%Z /\ code_divisor a cfg c2 = Some 4096%Z.
Proof. exact shared_name_divisor_refuted. Qed.
