(* Property C04 - affine index expressions are evaluated exactly.  Statements only.
   Theorems over Z (unbounded): inversion of the access, the halo of a partition contains every
   input the tile needs (one split level), the tiles partition [0,Q), interval clipping.
   Refutation (finding F11): in binary64 - what the emitted lambdas compute - an integral
   solution is pruned for denominator 3; positive half: denominators 1, 2, 4 are exact on a
   finite sweep (bound 128 stated in the theorem).
   NOT theorems (hence the name _partial on the halo statement): the statement about whole
   emitted programs, and more than one split level on the index-math rank (finding F4). *)
From Coq Require Import ZArith List Bool PrimFloat.
Require Import TV.Model.Rt TV.Proofs.SplitArith TV.Proofs.Affine.
Open Scope Z_scope.

Theorem C04_proj_inverse : forall a q w r, a <> 0 -> (w = a * q + r <-> ((w - r) mod a = 0 /\ q = (w - r) / a)).
Proof. exact proj_inverse. Qed.

Theorem C04_halo_tile_contains_partial : forall a T j q bs S s,
  0 < a -> 0 < T -> 0 <= bs -> 0 <= s < S -> T * j <= q < T * (j + 1) ->
  let w := a * q + bs * s in a * T * j <= w < a * T * j + a * T + bs * (S - 1).
Proof. exact halo_tile_contains. Qed.

Theorem C04_halo_tile_contains_neg_partial : forall a T j q bs S s,
  0 < a -> 0 < T -> bs <= 0 -> 0 <= s < S -> T * j <= q < T * (j + 1) ->
  let w := a * q + bs * s in a * T * j - (- bs) * (S - 1) <= w < a * T * j + a * T.
Proof. exact halo_tile_contains_neg. Qed.

Theorem C04_tiles_partition : forall T Q q, 0 < T -> 0 <= q < Q ->
  exists! j, 0 <= j /\ T * j <= q < Z.min (T * (j + 1)) Q.
Proof. exact tiles_partition. Qed.

Theorem C04_interval_clip : forall lo hi cs,
  Forall (fun c => lo <= c < hi) (filter (fun c => (lo <=? c) && (c <? hi)) cs).
Proof. exact interval_clip. Qed.

Theorem C04_float_prune_refuted : exists q w, (w - q) mod 3 = 0 /\ 0 <= q /\ q <= w /\ kept (fproj 3 q w) = false.
Proof. exact float_prune_refuted. Qed.

Theorem C04_float_proj_exact_pow2 : forall d q w, (d = 1 \/ d = 2 \/ d = 4) -> 0 <= q -> q <= w -> w < 128 ->
  fproj_exact_at d q w = true.
Proof. exact float_proj_exact_pow2. Qed.
