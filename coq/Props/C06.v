(* Property C06 - emitted programs are closed: the definite-assignment analysis `da`
   (Model/Closed.v) that tools/props/c06.py evaluates on emitted programs is sound and
   complete for the path semantics `sem` (only which names are bound is tracked; a loop
   runs zero or more times, an `if` takes either branch).
   Only statements here; proofs are in Proofs/ClosedProofs.v. *)
From Coq Require Import List FSets.FSetPositive.
Require Import TV.Model.Py TV.Model.Closed TV.Proofs.ClosedProofs.
Import ListNotations.

(* If the analysis accepts a statement from the bound names B with result D, then no path
   through the statement reads an unbound name, and every path ends with at least D bound. *)
Theorem C06_da_sound : forall s B D, da B s = Some D ->
  ~ sem B s Unbound /\ (forall B', sem B s (Fine B') -> PS.Subset D B').
Proof. exact da_sound. Qed.

(* the same for statement lists (whole programs) *)
Theorem C06_da_block_sound : forall ss B D, da_block B ss = Some D ->
  ~ sem_block B ss Unbound /\ (forall B', sem_block B ss (Fine B') -> PS.Subset D B').
Proof. exact da_block_sound. Qed.

(* If the analysis rejects, some path does read an unbound name: the analysis is exact
   for the path semantics, it rejects no program for a spurious reason. *)
Theorem C06_da_block_complete : forall ss B, da_block B ss = None -> sem_block B ss Unbound.
Proof. exact da_block_complete. Qed.
