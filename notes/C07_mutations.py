"""Mutation test of the C07 check (static rank-id checker + execution) against edits of the rename-after-transform protocol.

    git -C /repo worktree add --detach /tmp/mut-c07ty HEAD
    /venv/bin/python notes/C07_mutations.py [name ...]        # default: all
    git -C /repo worktree remove --force /tmp/mut-c07ty

For each mutation: apply to the scratch tree, run the repository's own test-suite there, run `tools/check.py C07 --tier quick`
with TEAAL_REPO pointing at it (evidence / replays redirected to a scratch directory) and summarise which tie alarms:
static = `rankty-rejected` violations (the certified checker), dynamic = post-conditions on executions, model = the
abstract-semantics-vs-interpreter comparison (must never alarm: it would mean the abstract semantics is wrong)."""
import glob
import json
import os
import subprocess
import sys
import tempfile

TREE = "/tmp/mut-c07ty"
VERIF = os.path.dirname(os.path.dirname(os.path.abspath(__file__)))

MUTS = {
 # nway_shape(1): "one partition is the whole rank, nothing to split" -> tmp0 = A_K; A_K1K0 = tmp0; A_K1K0.setRankIds([K1, K0])
 # renames the USER's tensor in place
 "MA_nway1_no_split": [("teaal/trans/partitioner.py",
   '        # Ceiling divide: (rank - 1) // parts + 1\n        parens = EParens(',
   '        # A single partition is the whole rank: nothing to split\n        if parts == EInt(1):\n            return SBlock([])\n\n'
   '        # Ceiling divide: (rank - 1) // parts + 1\n        parens = EParens(')],
 # unpartition: only a merge asks for the final rename; an output that was only flattened keeps unflattenRanks' unnamed ids
 "MB_rename_only_after_merge": [("teaal/trans/partitioner.py",
   '                    next_tmp = self.trans_utils.curr_tmp()\n\n                # Otherwise unflatten',
   '                    next_tmp = self.trans_utils.curr_tmp()\n                    rename_ranks = True\n\n                # Otherwise unflatten'),
  ("teaal/trans/partitioner.py",
   '                tensor.update_ranks(ranks)\n                rename_ranks = True\n',
   '                tensor.update_ranks(ranks)\n')],
 # header: the rank_ids of Tensor.fromFiber are read before the tensor is moved to the current fiber (stale rank list)
 "MC_from_fiber_stale_ranks": [("teaal/trans/header.py",
   '        tensor.from_fiber()\n\n        ranks = [EString(rank) for rank in tensor.get_ranks()]\n',
   '        ranks = [EString(rank) for rank in tensor.get_ranks()]\n        tensor.from_fiber()\n')],
 # partition(): the partitioned name is bound to the FIRST temporary (the alias of the tensor handed in) when the
 # partitioning is a flatten of exactly three ranks
 "MD_flatten3_binds_first_tmp": [("teaal/trans/partitioner.py",
   '        tmp_expr = EVar(self.trans_utils.curr_tmp())\n        block.add(SAssign(AVar(part_name), tmp_expr))',
   '        tmp_expr = EVar(self.trans_utils.curr_tmp())\n        if len(ranks) == 3:\n            tmp_expr = EVar(next_tmp.name)\n'
   '        block.add(SAssign(AVar(part_name), tmp_expr))')],
 # unpartition: before a swizzle the pending rename is applied to the NEW temporary (not yet bound)
 "ME_rename_unbound_tmp": [("teaal/trans/partitioner.py",
   '                if rename_ranks:\n                    block.add(TransUtils.build_set_rank_ids(tensor, curr_tmp))',
   '                if rename_ranks:\n                    block.add(TransUtils.build_set_rank_ids(tensor, next_tmp))')],
 # utils: setRankIds of a tensor with more than four ranks lists them in sorted order
 "MF_set_rank_ids_sorted_when_wide": [("teaal/trans/utils.py",
   '        arg = TransUtils.build_rank_ids(tensor)\n        set_call = EMethod(EVar(name), "setRankIds", [arg])',
   '        arg = TransUtils.build_rank_ids(tensor)\n        if len(tensor.get_ranks()) > 4:\n'
   '            arg = AParam("rank_ids", EList([EString(r) for r in sorted(tensor.get_ranks())]))\n'
   '        set_call = EMethod(EVar(name), "setRankIds", [arg])')],
 # utils: "a two-rank swizzle is just a rename": B_KM = B_MK; B_KM.setRankIds([K, M]) - same arity, nothing crashes:
 # the user's tensor is renamed in place (and the data is not transposed)
 "MG_swizzle2_by_renaming": [("teaal/trans/utils.py",
   '        arg = TransUtils.build_rank_ids(tensor)\n        swizzle_call = EMethod(EVar(old_name), "swizzleRanks", [arg])',
   '        if len(tensor.get_ranks()) == 2:\n            return SBlock([SAssign(AVar(new_name), EVar(old_name)),\n'
   '                           TransUtils.build_set_rank_ids(tensor, new_name)])\n'
   '        arg = TransUtils.build_rank_ids(tensor)\n        swizzle_call = EMethod(EVar(old_name), "swizzleRanks", [arg])')],
 # BENIGN control (aliasing): the result name is bound BEFORE the final setRankIds - the same object is renamed through
 # the alias, the final state is identical; nothing may alarm except text-pinned tests
 "H1_benign_copy_before_final_rename": [("teaal/trans/partitioner.py",
   '        if rename_ranks:\n            block.add(TransUtils.build_set_rank_ids(tensor, next_tmp))\n\n        # Copy the tensor back\n'
   '        block.add(SAssign(AVar(tensor.tensor_name()), EVar(next_tmp)))\n        return block',
   '        # Copy the tensor back\n        block.add(SAssign(AVar(tensor.tensor_name()), EVar(next_tmp)))\n'
   '        if rename_ranks:\n            block.add(TransUtils.build_set_rank_ids(tensor, next_tmp))\n\n        return block')],
}


# the seeded changes kept under seeded/<id>/patch.diff
SEEDED = {"S_C07-1_footer_skips_unpartition": "C07-1", "S_C07-2_intermediate_rank_by_last_letter": "C07-2", "S_C03-2_endswith_I": "C03-2"}


def sh(cmd, **kw):
    p = subprocess.run(cmd, stdout=subprocess.PIPE, stderr=subprocess.STDOUT, text=True, **kw)
    return p.returncode, "\n".join(l for l in p.stdout.splitlines() if "conda" not in l)


def main():
    which = sys.argv[1:] or (list(SEEDED) + list(MUTS))
    out = {}
    for name in which:
        subprocess.run(["git", "-C", TREE, "checkout", "--", "."], check=True)
        if name in SEEDED:
            subprocess.run(["git", "-C", TREE, "apply", os.path.join(VERIF, "seeded", SEEDED[name], "patch.diff")], check=True)
        for f, old, new in MUTS.get(name, []):
            p = os.path.join(TREE, f)
            s = open(p).read()
            assert s.count(old) == 1, (name, f, s.count(old))
            open(p, "w").write(s.replace(old, new))
        _, diff = sh(["git", "-C", TREE, "diff"])
        rc, t = sh("/venv/bin/python -m pytest -q -p no:cacheprovider 2>&1 | tail -1", shell=True, cwd=TREE)
        scratch = tempfile.mkdtemp(prefix="c07mut-")
        env = dict(os.environ, TEAAL_REPO=TREE, VERIF_EVIDENCE_DIR=scratch + "/ev", VERIF_REPLAY_DIR=scratch + "/rp", VERIF_NPROC=os.environ.get("VERIF_NPROC", "8"))
        rc, o = sh(["/venv/bin/python", os.path.join(VERIF, "tools", "check.py"), "C07", "--tier", "quick"], env=env, cwd=VERIF)
        kinds = {}
        first = {}
        for fn in sorted(glob.glob(scratch + "/rp/C07/*.json")):
            d = json.load(open(fn))
            k = d["key"].get("kind") + (":" + d["key"]["class"] if "class" in d["key"] else "") + (" [no-input]" if d["no_failing_input_found"] else "")
            kinds[k] = kinds.get(k, 0) + 1
            first.setdefault(k, d["what"][:260])
        ev = {}
        try:
            ev = json.load(open(scratch + "/ev/C07.json"))["coverage"].get("static_checker", {})
        except Exception:
            pass
        res = {"tests": t.strip(), "check_rc": rc, "violations": kinds, "static": {k: ev.get(k) for k in ("programs", "accepted", "rejected")},
               "first": first, "tail": o[-300:] if rc not in (0, 1) or not kinds else ""}
        out[name] = res
        print("==", name, json.dumps(res, indent=1))
        sys.stdout.flush()
    subprocess.run(["git", "-C", TREE, "checkout", "--", "."], check=True)
    json.dump(out, open("/tmp/c07ty_mut_results.json", "w"), indent=1)


if __name__ == "__main__":
    main()
