import subprocess, sys, os, json, glob, re
MUTS = {
 "M1_term_ranks_reversed_factors": ("teaal/ir/equation.py",
   'for ranks in term.find_data("ranks"):\n            for rank in Equation.__get_tensor_ranks(ranks):',
   'for ranks in reversed(list(term.find_data("ranks"))):\n            for rank in Equation.__get_tensor_ranks(ranks):'),
 "M2_last_term_decides": ("teaal/ir/equation.py",
   'term_ranks = Equation.__get_term_ranks(next(term_iter))',
   'term_iter = iter(list(term_iter)[::-1])\n        term_ranks = Equation.__get_term_ranks(next(term_iter))'),
 "M3_leading_split_rank_appended": ("teaal/ir/partitioning.py",
   '        if not in_place:\n            i = len(tensor_ranks)',
   '        if not in_place or (all_ and i == 0 and len(tensor_ranks) > 1 and len(part_ranks) == 1 and len(self.partition_names(part_ranks, all_)) > 2):\n            i = len(tensor_ranks)'),
 "M4_default_expands_static_only": ("teaal/ir/loop_order.py",
   'unpartitioned_loop_order, self.partitioning.get_all_parts(), True, True)',
   'unpartitioned_loop_order, self.partitioning.get_static_parts() if len(self.partitioning.get_dyn_parts()) > 2 else self.partitioning.get_all_parts(), True, True)'),
 "M5_unlisted_tensors_sorted": ("teaal/ir/program.py",
   'tensor = Tensor(ord_name, tensor.get_ranks())',
   'tensor = Tensor(ord_name, sorted(tensor.get_ranks()) if len(rank_orders) > 2 else tensor.get_ranks())'),
 "M6_output_ranks_from_rank_order": ("teaal/ir/equation.py",
   'self.einsum_ranks = Equation.__get_tensor_ranks(output_ranks)',
   'self.einsum_ranks = Equation.__get_tensor_ranks(output_ranks)\n        if len(self.einsum_ranks) > 2:\n            self.einsum_ranks = list(self.get_output().get_ranks()) if hasattr(self, "es_tensors") else list(self.tensors[str(next(self.equation.find_data("output")).children[0])].get_ranks())'),
 "M7_contracted_ranks_sorted": ("teaal/ir/equation.py",
   '        for rank in term_ranks:\n            if rank not in self.einsum_ranks:',
   '        for rank in (sorted(term_ranks) if len(term_ranks) > 3 else term_ranks):\n            if rank not in self.einsum_ranks:'),
 "M8_levels_innermost_first_deep": ("teaal/ir/partitioning.py",
   '        names.sort(key=lambda n: priorities[n])\n        return names',
   '        names.sort(key=lambda n: priorities[n])\n        if all_ and len(names) > 3:\n            names.reverse()\n        return names'),
 "H1_harmless_sort_names_lexicographic": ("teaal/ir/partitioning.py",
   '        names.sort(key=lambda n: priorities[n])\n        return names',
   '        names.sort(key=lambda n: (priorities[n], n))\n        return names'),
 "M9_empty_partition_dict_blocks_rank_order": ("teaal/ir/program.py",
   '            if ord_name in rank_orders.keys():',
   '            if ord_name in rank_orders.keys() and not (ord_name in self.mapping.get_partitioning() and not self.mapping.get_partitioning()[ord_name]):'),
}

MUTS.update({
 "M1b_term_ranks_reversed_when_3_factors": ("teaal/ir/equation.py",
   'for ranks in term.find_data("ranks"):\n            for rank in Equation.__get_tensor_ranks(ranks):',
   'rl = list(term.find_data("ranks"))\n        for ranks in (rl[::-1] if len(rl) > 2 else rl):\n            for rank in Equation.__get_tensor_ranks(ranks):'),
 "M3b_leading_split_rank_appended_4_levels": ("teaal/ir/partitioning.py",
   '        if not in_place:\n            i = len(tensor_ranks)',
   '        if not in_place or (all_ and i == 0 and len(tensor_ranks) > 1 and len(part_ranks) == 1 and len(self.partition_names(part_ranks, all_)) > 3):\n            i = len(tensor_ranks)'),
 "M7b_three_contracted_ranks_sorted": ("teaal/ir/equation.py",
   '        for rank in term_ranks:\n            if rank not in self.einsum_ranks:',
   '        new_ranks = [r for r in term_ranks if r not in self.einsum_ranks]\n        for rank in (sorted(new_ranks) if len(new_ranks) > 2 else term_ranks):\n            if rank not in self.einsum_ranks:'),
 "M8b_two_occupancy_levels_reversed": ("teaal/ir/partitioning.py",
   '        names.sort(key=lambda n: priorities[n])\n        return names',
   '        names.sort(key=lambda n: priorities[n])\n        if all_ and len(ranks) == 1 and ranks in self.dyn_parts and len(names) > 2 and ranks[0] + "1I" in [n.get_rank() for n in self.graph.nodes]:\n            names[0], names[1] = names[1], names[0]\n        return names'),
 "M11_no_partitioning_inherits_previous": ("teaal/ir/program.py",
   '        else:\n            self.partitioning = Partitioning({}, ranks, self.coord_math)',
   '        else:\n            prev = [v for k, v in partitioning.items() if k in self.einsums[:i] and all(str(c) in ranks for t in v for c in t.children)]\n            self.partitioning = Partitioning(prev[-1] if len(prev) > 1 else {}, ranks, self.coord_math)'),
 "M12_takes_walked_before_products": ("teaal/ir/equation.py",
   '        term_iter = chain(\n            self.equation.find_data("times"),\n            self.equation.find_data("take"))',
   '        term_iter = chain(\n            self.equation.find_data("take"),\n            self.equation.find_data("times"))'),
})
which = sys.argv[1:] or list(MUTS)
tree = "/tmp/mut-c19"
out = {}
for name in which:
    f, old, new = MUTS[name]
    subprocess.run(["git", "-C", tree, "checkout", "--", "."], check=True)
    p = os.path.join(tree, f)
    s = open(p).read()
    assert s.count(old) == 1, (name, s.count(old))
    open(p, "w").write(s.replace(old, new))
    t = subprocess.run(["/venv/bin/python", "-m", "pytest", "-q", "-p", "no:cacheprovider", "-x"], cwd=tree, stdout=subprocess.PIPE, stderr=subprocess.STDOUT, text=True)
    tests = t.stdout.strip().splitlines()[-1]
    env = dict(os.environ, TEAAL_REPO=tree, VERIF_SEED=os.environ.get("VERIF_SEED", "0"))
    for fn in glob.glob("/root/wt/c19/replays/C19/*.json"):
        os.remove(fn)
    c = subprocess.run(["/venv/bin/python", "tools/check.py", "C19", "--tier", "quick"], cwd="/root/wt/c19", env=env, stdout=subprocess.PIPE, stderr=subprocess.STDOUT, text=True)
    lines = [l for l in c.stdout.splitlines() if "WARNING" not in l]
    viol = [l for l in lines if l.startswith("VIOLATION")]
    rep_rc = None
    if viol:
        m = re.search(r"replay=(\S+)", viol[0])
        r = subprocess.run(["/venv/bin/python", "tools/check.py", "C19", "--replay", m.group(1)], cwd="/root/wt/c19", env=env, stdout=subprocess.PIPE, stderr=subprocess.STDOUT, text=True)
        rep_rc = r.returncode
        # and the replay must pass on the unchanged tree
        r0 = subprocess.run(["/venv/bin/python", "tools/check.py", "C19", "--replay", m.group(1)], cwd="/root/wt/c19", stdout=subprocess.PIPE, stderr=subprocess.STDOUT, text=True)
        rep_rc = (rep_rc, r0.returncode)
    whats = [l.strip()[:260] for l in lines if l.strip().startswith("what:")][:2]
    out[name] = {"tests": tests, "check_rc": c.returncode, "violations": len(viol), "replay_rc(mut,orig)": rep_rc, "what": whats, "last": lines[-1] if lines else ""}
    print(name, json.dumps(out[name], indent=1), flush=True)
subprocess.run(["git", "-C", tree, "checkout", "--", "."], check=True)
