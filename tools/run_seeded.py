#!/venv/bin/python
"""Run the registered checks against the seeded property-breaking changes kept under /verif/seeded/<id>/.

    run_seeded.py [<seed-id> ...] [--tier quick] [--all-props] [--tests] [--jobs N] [--in-place]

For each seeded change: a scratch worktree of /repo's HEAD is created under /tmp, patch.diff applied, (optionally) the
repository's own test-suite run there (must pass), demo.py run there (must fail) and on the unchanged tree (must pass),
then the check of the property the change breaks (or every check with --all-props) is run with TEAAL_REPO pointing at the
mutated tree; evidence/replays of these runs are redirected to a scratch directory so the committed evidence is untouched.
A change is DETECTED iff the check exits 1 and prints a VIOLATION line for that property.  Results are written to
seeded/<id>/result.json and summarised on stdout.  --in-place applies the patch to /repo itself (and undoes it), which is
what the harness does; the default avoids disturbing anything else that is using /repo.
"""
import argparse
import json
import os
import re
import shutil
import subprocess
import sys
import tempfile
import time
from concurrent.futures import ThreadPoolExecutor

VERIF = os.path.dirname(os.path.dirname(os.path.abspath(__file__)))
SEEDED = os.path.join(VERIF, "seeded")
REPO = "/repo"


def sh(cmd, cwd=None, env=None, timeout=3600):
    try:
        p = subprocess.run(cmd, cwd=cwd, env=env, shell=isinstance(cmd, str), stdout=subprocess.PIPE, stderr=subprocess.STDOUT,
                           text=True, timeout=timeout)
    except subprocess.TimeoutExpired:
        return 124, "TIMEOUT after %ds" % timeout
    out = "\n".join(l for l in p.stdout.splitlines() if "conda" not in l)
    return p.returncode, out


def one(sid, args):
    d = os.path.join(SEEDED, sid)
    meta = json.load(open(os.path.join(d, "meta.json")))
    prop = meta["property"]
    res = {"seed": sid, "property": prop, "tier": args.tier, "when": time.strftime("%Y-%m-%d %H:%M:%S")}
    scratch = tempfile.mkdtemp(prefix="seedrun-%s-" % sid)
    if args.in_place:
        tree = REPO
    else:
        tree = os.path.join(scratch, "tree")
        rc, out = sh(["git", "-C", REPO, "worktree", "add", "--detach", tree, "HEAD"])
        if rc:
            res["error"] = "worktree: " + out
            return res
    try:
        demo = os.path.join(d, "demo.py")
        envd = dict(os.environ, PYTHONPATH=tree, PYTHONHASHSEED="0")
        if os.path.exists(demo):
            rc0, out0 = sh(["/venv/bin/python", demo], cwd=tree, env=envd, timeout=1500)
            res["demo_unchanged_rc"] = rc0
        rc, out = sh(["git", "-C", tree, "apply", os.path.join(d, "patch.diff")])
        if rc:
            res["error"] = "patch does not apply: " + out
            return res
        if os.path.exists(demo):
            rc1, out1 = sh(["/venv/bin/python", demo], cwd=tree, env=envd, timeout=1500)
            res["demo_changed_rc"] = rc1
            res["demo_changed_tail"] = out1[-400:]
        if args.tests:
            rc, out = sh("/venv/bin/python -m pytest -q -p no:cacheprovider 2>&1 | tail -2", cwd=tree, timeout=1800)
            res["tests"] = out.strip().splitlines()[-1] if out.strip() else ""
        props = [prop]
        if args.all_props:
            m = json.load(open(os.path.join(VERIF, "MANIFEST.json")))
            props = [c["property_id"] for c in m["checks"]]
        for q in [x for x in args.props.split(",") if x]:
            if q not in props:
                props.append(q)
        res["checks"] = {}
        for p in props:
            env = dict(os.environ, TEAAL_REPO=tree, VERIF_EVIDENCE_DIR=os.path.join(scratch, "evidence"),
                       VERIF_REPLAY_DIR=os.path.join(scratch, "replays"), VERIF_NPROC=str(args.nproc))
            t0 = time.time()
            rc, out = sh(["/venv/bin/python", os.path.join(VERIF, "tools", "check.py"), p, "--tier", args.tier], cwd=VERIF, env=env,
                         timeout=7200)
            vio = [l for l in out.splitlines() if l.startswith("VIOLATION property=%s " % p)]
            whats = [l.strip() for l in out.splitlines() if l.strip().startswith("what:")]
            res["checks"][p] = {"rc": rc, "violations": len(vio), "detected": bool(rc == 1 and vio), "wall_s": round(time.time() - t0, 1),
                                "no_failing_input_only": bool(vio) and all(v.endswith("no-failing-input-found") for v in vio),
                                "first_what": (whats[0][:500] if whats else ""), "tail": out[-300:] if not vio else ""}
        res["detected"] = res["checks"][prop]["detected"] or (bool(args.props) and any(r["detected"] for r in res["checks"].values()))
        res["detected_by"] = sorted(p for p, r in res["checks"].items() if r["detected"])
    finally:
        if args.in_place:
            sh(["git", "-C", REPO, "checkout", "--", "."])
        else:
            sh(["git", "-C", REPO, "worktree", "remove", "--force", tree])
        shutil.rmtree(scratch, ignore_errors=True)
    with open(os.path.join(d, "result.json"), "w") as f:
        json.dump(res, f, indent=1)
    return res


def main():
    ap = argparse.ArgumentParser()
    ap.add_argument("ids", nargs="*")
    ap.add_argument("--tier", default="quick")
    ap.add_argument("--all-props", action="store_true")
    ap.add_argument("--props", default="", help="comma-separated extra properties whose checks are also run")
    ap.add_argument("--tests", action="store_true")
    ap.add_argument("--in-place", action="store_true")
    ap.add_argument("--jobs", type=int, default=1)
    ap.add_argument("--nproc", type=int, default=16)
    args = ap.parse_args()
    ids = args.ids or sorted(x for x in os.listdir(SEEDED) if os.path.exists(os.path.join(SEEDED, x, "meta.json")))
    if args.in_place:
        args.jobs = 1
    with ThreadPoolExecutor(max_workers=args.jobs) as ex:
        results = list(ex.map(lambda s: one(s, args), ids))
    missed = 0
    for r in results:
        if "error" in r:
            print("ERROR   %-22s %s" % (r["seed"], r["error"][:200]))
            missed += 1
            continue
        c = r["checks"][r["property"]]
        print("%-8s %-22s %s demo(unchanged/changed)=%s/%s %s by=%s %.0fs  %s" % (
            "DETECTED" if r["detected"] else "MISSED", r["seed"], r["property"], r.get("demo_unchanged_rc"), r.get("demo_changed_rc"),
            r.get("tests", ""), ",".join(r["detected_by"]), c["wall_s"], c["first_what"][:160]))
        missed += 0 if r["detected"] else 1
    sys.exit(1 if missed else 0)


if __name__ == "__main__":
    main()
