"""Compile every specification of a list ALONE: each one in a child forked from an interpreter that has imported the
compiler but never compiled anything (C15: the reference for "does not depend on what was compiled earlier").
usage: freshworker.py <in.json> <out.json>   ; in: [{"yaml":..., "arch": bool}]"""
import json
import os
import sys

sys.path.insert(0, os.path.dirname(os.path.abspath(__file__)))
import vlib  # noqa

vlib.setup_repo_path()
import runlib  # noqa
import teaal.parse  # noqa
import teaal.trans.hifiber  # noqa

# warm the LIBRARIES the compiler uses (lazy imports inside sympy's solver and networkx cost seconds in every child otherwise);
# no code of the compiler runs here
from sympy import Symbol, solve  # noqa
import networkx  # noqa

solve(Symbol("zz1") - 2 * Symbol("zz2") - Symbol("zz3"), Symbol("zz1"))
_g = networkx.DiGraph()
_g.add_edge(1, 2)
list(networkx.topological_sort(_g))


def one(it):
    try:
        spec = runlib.Spec(it["yaml"])
        return {"text": spec.compile(arch=it.get("arch", False))}
    except Exception as e:
        return {"error": type(e).__name__ + ": " + str(e)[:100]}


items = json.load(open(sys.argv[1]))
out = []
for it in items:
    r, w = os.pipe()
    pid = os.fork()
    if pid == 0:
        os.close(r)
        try:
            data = json.dumps(one(it)).encode()
        except BaseException as e:      # never fall back into the parent's loop
            data = json.dumps({"error": "worker: " + repr(e)[:100]}).encode()
        with os.fdopen(w, "wb") as f:
            f.write(data)
        os._exit(0)
    os.close(w)
    with os.fdopen(r, "rb") as f:
        data = f.read()
    os.waitpid(pid, 0)
    out.append(json.loads(data.decode()) if data else {"error": "worker died"})
json.dump(out, open(sys.argv[2], "w"))
