"""Common machinery for the /verif checks (see DESIGN.md sections 2 and 3.2).

Everything here runs under /venv/bin/python with /repo first on sys.path, so
`import teaal` is always the *current working tree* of /repo.
"""
import json
import os
import random
import re
import shutil
import subprocess
import sys
import time

VERIF = os.path.dirname(os.path.dirname(os.path.abspath(__file__)))
REPO = os.environ.get("TEAAL_REPO", "/repo")
COQDIR = os.path.join(VERIF, "coq")
GENDIR = os.path.join(COQDIR, "gen")
NPROC = int(os.environ.get("VERIF_NPROC", "16"))
# runs against a mutated tree (tools/run_seeded.py) redirect their evidence/replays so the committed evidence is untouched
EVIDENCE_DIR = os.environ.get("VERIF_EVIDENCE_DIR") or os.path.join(VERIF, "evidence")
REPLAY_DIR = os.environ.get("VERIF_REPLAY_DIR") or os.path.join(VERIF, "replays")


def setup_repo_path():
    """Make `import teaal` resolve to /repo's working tree."""
    if REPO not in sys.path[:1]:
        sys.path.insert(0, REPO)
    import teaal  # noqa
    assert os.path.abspath(teaal.__file__).startswith(os.path.abspath(REPO) + os.sep), teaal.__file__


# ----------------------------------------------------------------------------
# Coq term rendering
# ----------------------------------------------------------------------------

def cstr(s):
    """Python str -> Coq string literal.  Printable ASCII is written as is; every other character (and the backslash, to
    keep the encoding injective) is written as the ASCII escape \\u{<hex code point>} - both sides of a comparison go
    through this function, so equal Coq strings <=> equal Python strings."""
    assert isinstance(s, str), s
    out = []
    for ch in s:
        o = ord(ch)
        if ch == "\\" or not (32 <= o < 127 or o == 10):
            out.append("\\u{%x}" % o)
        else:
            out.append(ch)
    s = "".join(out)
    if "\n" in s:
        parts = s.split("\n")
        return "(" + " ++ nl ++ ".join('"%s"' % p.replace('"', '""') for p in parts) + ")%string"
    return '"%s"%%string' % s.replace('"', '""')


def cz(n):
    assert isinstance(n, int) and not isinstance(n, bool), n
    return "(%d)%%Z" % n


def cnat(n):
    assert isinstance(n, int) and 0 <= n < 5000, n
    return "%d%%nat" % n


def cpos(n):
    assert isinstance(n, int) and n >= 1, n
    return "%d%%positive" % n


def cbool(b):
    return "true" if b else "false"


def clist(items):
    items = list(items)
    if not items:
        return "[]"
    return "[" + "; ".join(items) + "]"


def cpair(a, b):
    return "(%s, %s)" % (a, b)


def copt(x):
    return "None" if x is None else "(Some %s)" % x


# ----------------------------------------------------------------------------
# Building the Coq project and evaluating generated case files
# ----------------------------------------------------------------------------

class CoqBuildError(Exception):
    def __init__(self, msg, log):
        Exception.__init__(self, msg)
        self.log = log


def coq_make(timeout=3000):
    """(Re)build the Coq development; a no-op when up to date."""
    mk = os.path.join(COQDIR, "Makefile")
    if not os.path.exists(mk) or os.path.getmtime(mk) < os.path.getmtime(os.path.join(COQDIR, "_CoqProject")):
        subprocess.run(["coq_makefile", "-f", "_CoqProject", "-o", "Makefile"], cwd=COQDIR, check=True,
                       stdout=subprocess.DEVNULL, stderr=subprocess.DEVNULL)
    p = subprocess.run(["timeout", str(timeout), "make", "-j%d" % NPROC, "-k"], cwd=COQDIR,
                       stdout=subprocess.PIPE, stderr=subprocess.STDOUT, text=True)
    if p.returncode != 0:
        raise CoqBuildError("coq build failed", p.stdout)
    return p.stdout


def vo_ok(relpath):
    """Is the compiled file for coq/<relpath>.v present and newer than its source?"""
    v = os.path.join(COQDIR, relpath + ".v")
    vo = os.path.join(COQDIR, relpath + ".vo")
    return os.path.exists(vo) and os.path.getmtime(vo) >= os.path.getmtime(v)


_RES_RE = re.compile(r'^\s*= "(.*)"\s*\n\s*: string\s*$', re.S | re.M)


def _parse_string_result(out):
    """Extract the string printed by `Eval vm_compute in (s : string)`."""
    i = out.find('     = "')
    if i < 0:
        return None
    j = out.rfind('"\n     : string')
    if j < 0:
        return None
    body = out[i + len('     = "'):j]
    return body.replace('""', '"')


def coq_eval_lines(tag, imports, defs, exprs, timeout=900, shard=250, keep=False, big_stack=True):
    """Evaluate Gallina expressions of type `string` inside coqc.

    imports : list of module names (`TV.Model.Fusion` ...)
    defs    : Coq text placed before the cases (may be '')
    exprs   : list of Coq terms of type string (must not produce newlines)
    Returns the list of result strings, one per expr (kernel VM evaluated).
    """
    os.makedirs(GENDIR, exist_ok=True)
    n = len(exprs)
    if n == 0:
        return []
    shards = [list(range(i, min(i + shard, n))) for i in range(0, n, shard)]
    files = []
    for k, idxs in enumerate(shards):
        name = "g_%s_%d_%d" % (tag, os.getpid(), k)
        path = os.path.join(GENDIR, name + ".v")
        with open(path, "w") as f:
            f.write("From Coq Require Import String List ZArith Ascii.\n")
            for m in imports:
                f.write("Require Import %s.\n" % m)
            f.write("Import ListNotations.\nOpen Scope string_scope.\nSet Printing Width 1000000.\nSet Printing Depth 10000000.\n")
            f.write("Definition nl := String (Ascii.ascii_of_nat 10) \"\".\n")
            f.write(defs + "\n")
            for j, i in enumerate(idxs):
                f.write("Definition case_%d : string := %s.\n" % (j, exprs[i]))
            f.write("Definition all_cases : list string := [%s].\n" % "; ".join("case_%d" % j for j in range(len(idxs))))
            f.write("Eval vm_compute in (String.concat nl all_cases).\n")
        files.append((name, path, idxs))
    procs = []
    results = [None] * n
    pending = list(files)
    running = []
    errors = []
    while pending or running:
        while pending and len(running) < NPROC:
            name, path, idxs = pending.pop(0)
            # output goes to a file: a pipe would block coqc once a shard prints more than the pipe buffer
            outf = open(os.path.join(GENDIR, name + ".out"), "w+")
            pr = subprocess.Popen(["timeout", str(timeout), "coqc", "-q", "-Q", COQDIR, "TV", "-w", "-all", path],
                                  cwd=GENDIR, stdout=outf, stderr=subprocess.STDOUT, text=True,
                                  preexec_fn=_big_stack if big_stack else None)
            pr.outf = outf
            running.append((pr, name, path, idxs))
        still = []
        for pr, name, path, idxs in running:
            if pr.poll() is None:
                still.append((pr, name, path, idxs))
                continue
            pr.outf.seek(0)
            out = pr.outf.read()
            pr.outf.close()
            try:
                os.remove(os.path.join(GENDIR, name + ".out"))
            except OSError:
                pass
            body = _parse_string_result(out) if pr.returncode == 0 else None
            if body is None:
                errors.append((path, pr.returncode, out[-3000:]))
            else:
                lines = body.split("\n")
                if len(lines) != len(idxs):
                    errors.append((path, "linecount %d != %d" % (len(lines), len(idxs)), out[-2000:]))
                else:
                    for i, ln in zip(idxs, lines):
                        results[i] = ln
            if not keep and body is not None:
                for ext in (".v", ".vo", ".vok", ".vos", ".glob"):
                    try:
                        os.remove(os.path.join(GENDIR, name + ext))
                    except OSError:
                        pass
                try:
                    os.remove(os.path.join(GENDIR, "." + name + ".aux"))
                except OSError:
                    pass
        running = still
        if running:
            time.sleep(0.05)
    if errors:
        raise CoqBuildError("coqc failed on generated case file(s): %s" % errors[0][0],
                            "\n".join("%s: %s\n%s" % e for e in errors))
    return results


def _big_stack():
    import resource
    try:
        resource.setrlimit(resource.RLIMIT_STACK, (resource.RLIM_INFINITY, resource.RLIM_INFINITY))
    except Exception:
        pass


# ----------------------------------------------------------------------------
# Reporting: evidence, violations, known findings
# ----------------------------------------------------------------------------

def load_known_findings():
    p = os.path.join(VERIF, "known_findings.json")
    if not os.path.exists(p):
        return []
    with open(p) as f:
        return json.load(f)["findings"]


class Ctx:
    """Per-run context handed to a property module's run(ctx)."""

    def __init__(self, pid, tier, seed):
        self.pid = pid
        self.tier = tier
        self.seed = seed
        self.rng = random.Random((seed, pid).__hash__() if False else "%s-%d" % (pid, seed))
        self.t0 = time.time()
        self.violations = []          # (key, what, replay_path)
        self.known_hits = {}          # finding id -> count
        self.known = [k for k in load_known_findings() if k["property"] == pid or pid in k.get("also", [])]
        self.coverage = {}
        self.assumptions = []
        self.notes = []
        self.level = "other"
        self._nrep = 0

    def quick(self):
        return self.tier == "quick"

    # -- known findings ------------------------------------------------------
    def match_known(self, key):
        """key: dict describing the failing case structurally; a finding matches
        when every item of its `match` dict equals the same item of key."""
        for k in self.known:
            if k.get("status") != "open":
                continue
            m = k["match"]
            if all(key.get(a) == b for a, b in m.items()):
                return k
        return None

    def violation(self, key, what, replay, no_input=False):
        """Report a violation of the property.  `key` is the structural key
        matched against known_findings.json; `replay` is a JSON-able object."""
        k = self.match_known(key)
        if k is not None:
            self.known_hits.setdefault(k["id"], [0, k, what])
            self.known_hits[k["id"]][0] += 1
            return False
        self._nrep += 1
        d = os.path.join(REPLAY_DIR, self.pid)
        os.makedirs(d, exist_ok=True)
        path = os.path.join(d, "%s_%d_%d.json" % (self.tier, self.seed, self._nrep))
        with open(path, "w") as f:
            json.dump({"property": self.pid, "key": key, "what": what, "tier": self.tier, "seed": self.seed,
                       "no_failing_input_found": bool(no_input), "replay": replay}, f, indent=1, default=str)
        self.violations.append((key, what, path, no_input))
        return True

    def finish(self):
        for fid, (n, k, what) in sorted(self.known_hits.items()):
            print("KNOWN-FINDING: property=%s %s [%s x%d] %s" % (self.pid, fid, k["what"], n, ""))
        # an open finding that no longer reproduces is noted, never an alarm
        for k in self.known:
            if k.get("status") == "open" and k["id"] not in self.known_hits:
                self.notes.append("known finding %s did not reproduce in this run" % k["id"])
        seen = 0
        for key, what, path, no_input in self.violations:
            seen += 1
            if seen > 20:
                break
            print("VIOLATION property=%s replay=%s%s" % (self.pid, path, " no-failing-input-found" if no_input else ""))
            print("  what: %s" % what[:600])
        cov = dict(self.coverage)
        cov.setdefault("known_findings_reproduced", {fid: v[0] for fid, v in self.known_hits.items()})
        if self.notes:
            cov["notes"] = self.notes
        ev = {
            "property_id": self.pid,
            "tier": self.tier,
            "seed": self.seed,
            "level": self.level,
            "coverage": cov,
            "assumptions": self.assumptions,
            "wall_s": round(time.time() - self.t0, 2),
            "violations": len(self.violations),
        }
        os.makedirs(EVIDENCE_DIR, exist_ok=True)
        with open(os.path.join(EVIDENCE_DIR, self.pid + ".json"), "w") as f:
            json.dump(ev, f, indent=1, default=str)
        return 1 if self.violations else 0


# ----------------------------------------------------------------------------
# Theorem bookkeeping
# ----------------------------------------------------------------------------

def props_status(pid):
    """Return (ok, assumptions_text) for coq/Props/<pid>.v: compiled and its
    Print Assumptions output (captured in Props/<pid>.assumptions by the Makefile rule)."""
    ok = vo_ok("Props/" + pid)
    txt = ""
    p = os.path.join(COQDIR, "Props", pid + ".assumptions")
    if os.path.exists(p):
        txt = open(p).read()
    return ok, txt


def list_theorems(pid):
    """Names of the theorems stated in Props/<pid>.v."""
    p = os.path.join(COQDIR, "Props", pid + ".v")
    if not os.path.exists(p):
        return []
    return re.findall(r'^\s*(?:Theorem|Lemma|Corollary)\s+([A-Za-z0-9_\']+)', open(p).read(), re.M)


FORBIDDEN = re.compile(r'\b(Admitted|admit|Axiom|Parameter|Conjecture|Unset Guard|bypass_check|Admit Obligations|type-in-type|impredicative-set)\b')


def scan_forbidden():
    bad = []
    for root, _, files in os.walk(COQDIR):
        if os.path.basename(root) == "gen":
            continue
        for fn in files:
            if fn.endswith(".v") or fn == "_CoqProject":
                txt = open(os.path.join(root, fn)).read()
                # strip comments
                txt2 = re.sub(r'\(\*.*?\*\)', '', txt, flags=re.S)
                for m in FORBIDDEN.finditer(txt2):
                    bad.append((os.path.join(root, fn), m.group(0)))
    return bad
