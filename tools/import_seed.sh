#!/bin/bash
# import_seed.sh c13 : copy /tmp/seedout-c13/{1,2} to /verif/seeded/C13-{1,2}, remove the agent's scratch worktree
p=$1; P=$(echo $p | tr a-z A-Z)
for i in 1 2 3; do
  if [ -f /tmp/seedout-$p/$i/patch.diff ]; then
    n=$i; while [ -e /verif/seeded/$P-$n ]; do n=$((n+1)); done
    mkdir -p /verif/seeded/$P-$n; cp /tmp/seedout-$p/$i/{patch.diff,demo.py,meta.json} /verif/seeded/$P-$n/; echo imported $P-$n
  fi
done
git -C /repo worktree remove --force /tmp/seed-$p 2>/dev/null; rm -rf /tmp/seedout-$p
