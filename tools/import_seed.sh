#!/bin/bash
# import_seed.sh c13 [2] : copy /tmp/seedout[2]-c13/{1,2} to /verif/seeded/C13-<n>, remove the agent's scratch worktree /tmp/seed[2]-c13
p=$1; r=$2; P=$(echo $p | tr a-z A-Z)
for i in 1 2 3; do
  if [ -f /tmp/seedout$r-$p/$i/patch.diff ]; then
    n=1; while [ -e /verif/seeded/$P-$n ]; do n=$((n+1)); done
    mkdir -p /verif/seeded/$P-$n; cp /tmp/seedout$r-$p/$i/{patch.diff,demo.py,meta.json} /verif/seeded/$P-$n/; echo imported $P-$n
  fi
done
git -C /repo worktree remove --force /tmp/seed$r-$p 2>/dev/null; rm -rf /tmp/seedout$r-$p
