"""Families of specifications that share ALL their names (tensors, ranks, hence every derived partition-level name) but
give those names a different meaning: the same Einsum under mappings in which e.g. `MK0` is the bottom level of the split
of the flattened rank MK (root MK), or the flattening of M with the level K0 of a shape split of K (its own root), or in
which `K1` is the top level of a one-level split, the middle level of a two-level split, a shape level or an occupancy
level, ...  Compiled one after the other in ONE interpreter they expose any state the compiler keeps outside the objects
of a single compilation keyed on such names (class-level / module-level memo tables, default arguments, caches) - the
gap shown by seeded C15-1: the populations compiled in one process never gave one name two ancestries.
Every choice comes from the `rng` handed in."""
import specgen

RANKS = ["K", "M", "N", "J", "P", "Q", "W", "I", "H", "X"]


def _styled(rng, r, coord_p):
    x = rng.random()
    if x < coord_p:
        return r + ".coord"
    if x < coord_p + 0.15:
        return r + ".pos"
    return r


def _spacetime(rng, loop, coord_p=0.5):
    k = rng.randint(0, len(loop))
    space = rng.sample(loop, k)
    time = [r for r in loop if r not in space]
    st = {"space": [_styled(rng, r, coord_p) for r in space], "time": [_styled(rng, r, coord_p) for r in time]}
    if rng.random() < 0.2:
        st["opt"] = "slip"
    return st


def _interleave(rng, seqs):
    seqs = [list(s) for s in seqs if s]
    out = []
    while any(seqs):
        s = rng.choice([q for q in seqs if q])
        out.append(s.pop(0))
    return out


VARIANTS = ["none", "shape1", "shape2", "shape3", "occ1", "occ2", "shape+occ", "flat", "flat+occ1", "flat+occ2",
            "shape-then-flat", "shape-then-flat+occ", "shape2-then-flat", "flat-swapped+occ1", "shapeX-then-flat"]


def variant_mapping(rng, v, X, Y, others, A, out, decl):
    """mapping of `out` for the family's Einsum: tensor A holds ranks X and Y (Y is the rank that gets split)."""
    part = {}
    sz = lambda: rng.choice([2, 3, 4, 6, 8])
    occ = lambda: "uniform_occupancy(%s.%d)" % (A, rng.choice([2, 3, 4, 6]))
    xs, ys = [X], [Y]
    ro = None
    if v == "none":
        units = [[X], [Y]]
    elif v in ("shape1", "shape2", "shape3"):
        n = int(v[-1])
        part[Y] = ["uniform_shape(%d)" % s for s in sorted([sz() for _ in range(n)], reverse=True)]
        units = [[X], specgen.levels_of(Y, n)]
    elif v in ("occ1", "occ2"):
        n = int(v[-1])
        part[Y] = [occ() for _ in range(n)]
        units = [[X], specgen.levels_of(Y, n)]
    elif v == "shape+occ":
        part[Y] = ["uniform_shape(%d)" % sz(), occ()]
        units = [[X], specgen.levels_of(Y, 2)]
    elif v in ("flat", "flat+occ1", "flat+occ2", "flat-swapped+occ1"):
        pair = [Y, X] if v.startswith("flat-swapped") else [X, Y]
        F = "".join(pair)
        part["(%s)" % ", ".join(pair)] = ["flatten()"]
        n = 0 if v == "flat" else int(v[-1])
        if n:
            part[F] = [occ() for _ in range(n)]
        units = [specgen.levels_of(F, n) if n else [F]]
        ro = [r for r in decl[A] if r not in pair] + pair
    elif v in ("shape-then-flat", "shape-then-flat+occ", "shape2-then-flat"):
        n = 2 if v.startswith("shape2") else 1
        part[Y] = ["uniform_shape(%d)" % s for s in sorted([sz() for _ in range(n)], reverse=True)]
        F = X + Y + "0"
        part["(%s, %s0)" % (X, Y)] = ["flatten()"]
        tops = specgen.levels_of(Y, n)[:-1]
        if v.endswith("+occ"):
            part[F] = [occ()]
            units = [tops + [F + "1", F + "0"]]
        else:
            units = [tops + [F]]
        ro = [r for r in decl[A] if r not in (X, Y)] + [Y, X]
    elif v == "shapeX-then-flat":
        part[X] = ["uniform_shape(%d)" % sz()]
        F = X + "0" + Y
        part["(%s0, %s)" % (X, Y)] = ["flatten()"]
        units = [[X + "1", F]]
        ro = [r for r in decl[A] if r not in (X, Y)] + [X, Y]
    else:
        raise ValueError(v)
    loop = _interleave(rng, units + [[o] for o in others])
    m = {"rank-order": {}, "partitioning": {out: part} if part else {}, "loop-order": {out: loop}}
    if ro is not None:
        m["rank-order"][A] = ro
    return m, loop


def _einsum(rng, shape, X, Y, Z):
    if shape == "matmul":        # Z[x, z] = A[y, x] * B[y, z]
        decl = {"A": [Y, X], "B": [Y, Z], "Z": [X, Z]}
        others = [Z]
    elif shape == "matvec":      # Z[x] = A[x, y] * B[y]
        decl = {"A": [X, Y], "B": [Y], "Z": [X]}
        others = []
    elif shape == "elementwise2":  # Z[x, y] = A[x, y] * B[x, y]
        decl = {"A": [X, Y], "B": [X, Y], "Z": [X, Y]}
        others = []
    else:                        # Z[z] = A[x, y, z] * B[y]
        decl = {"A": [X, Y, Z], "B": [Y], "Z": [Z]}
        others = [Z]
    if rng.random() < 0.5:
        decl["A"] = [decl["A"][i] for i in rng.sample(range(len(decl["A"])), len(decl["A"]))]
    idx = lambda t: "%s[%s]" % (t, ", ".join(r.lower() for r in decl[t]))
    expr = "%s = %s * %s" % (idx("Z"), idx("A"), idx("B"))
    return decl, expr, others


NOFLAT = ["none", "shape1", "shape2", "occ1", "occ2", "shape+occ"]


def gen_family(rng, size=None, spacetime_p=0.6, siblings=None):
    """-> list of dict(yaml, kind, family, variant): `size` specifications over one Einsum / one set of names, plus `siblings`
    specifications over the same tensor names whose DECLARED rank names are names the other members derive (XY, Y0, Y1, XY0 ...):
    there `XY0` is the bottom level of a split of the declared rank XY (not flattened), `Y0` is an unsplit rank that is its own root, ..."""
    names = rng.sample(RANKS, 3)
    X, Y, Z = names
    shape = rng.choice(["matmul", "matvec", "elementwise2", "reduce"])
    decl, expr, others = _einsum(rng, shape, X, Y, Z)
    size = size or rng.randint(4, 7)
    vs = rng.sample(VARIANTS, min(size, len(VARIANTS)))
    out = []
    fam = "%s:%s" % (shape, "".join(names))
    for v in vs:
        m, loop = variant_mapping(rng, v, X, Y, others, "A", "Z", decl)
        if rng.random() < spacetime_p:
            m["spacetime"] = {"Z": _spacetime(rng, loop)}
        out.append({"yaml": specgen.yaml_of(decl, [expr], m), "kind": "family", "family": fam, "variant": v, "syms": {}, "mapping": m})
    for _ in range(rng.randint(1, 3) if siblings is None else siblings):
        E = rng.choice([Y + "0", Y + "1", X + Y, X + Y + "0", X + Y + "1", Y + X, X + "0" + Y])
        sh = rng.choice(["matmul", "matvec", "elementwise2", "reduce"])
        d2, e2, o2 = _einsum(rng, sh, X, E, Z)
        v = rng.choice(NOFLAT)
        m, loop = variant_mapping(rng, v, X, E, o2, "A", "Z", d2)
        if rng.random() < spacetime_p:
            m["spacetime"] = {"Z": _spacetime(rng, loop)}
        out.append({"yaml": specgen.yaml_of(d2, [e2], m), "kind": "family", "family": fam, "variant": "declared-%s:%s" % (E, v), "syms": {}, "mapping": m})
    rng.shuffle(out)
    return out
