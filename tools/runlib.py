"""Building kernel-evaluated execution cases: specification -> emitted text (real
compiler) -> Gallina `rcase` (Model/Harness.v) with generated inputs and the dense
oracle's expectation (Model/Einsum.v)."""
import itertools
import random
import re

import vlib
from vlib import cstr, cz, clist, cpos
import py2coq

API_NAMES = ["Tensor", "Fiber", "Metrics", "Traffic", "Compute", "Format", "len", "enumerate", "min", "max", "int",
             "set", "createCanvas", "displayCanvas", "float", "range",
             "TwoFingerIntersector", "LeaderFollowerIntersector", "SkipAheadIntersector"]

COQ_IMPORTS = ["TV.Model.Show", "TV.Model.Py", "TV.Model.Rt", "TV.Model.Interp", "TV.Model.Einsum", "TV.Model.Harness"]


# ----------------------------------------------------------------------------
# independent reading of the Einsum from the parsed (Lark) expression trees
# ----------------------------------------------------------------------------

def _affine(tree):
    """iplus tree -> list of (coef, var)"""
    out = []
    for t in tree.children:
        if t.data == "ijust":
            out.append((1, str(t.children[0])))
        elif t.data == "itimes":
            out.append((int(t.children[0]), str(t.children[1])))
        else:
            raise ValueError("index term %s" % t.data)
    return out


def _factor(ch):
    if ch.data == "var":
        return ("V", str(ch.children[0]))
    if ch.data == "tensor":
        return ("T", str(ch.children[0]), [_affine(ie) for ie in ch.children[1].children])
    raise ValueError("factor %s" % ch.data)


def einsum_struct(expr):
    from lark.lexer import Token
    out = next(expr.find_data("output"))
    res = {"out": str(out.children[0]), "out_idx": [_affine(ie) for ie in out.children[1].children], "terms": []}
    # walk the right-hand side in textual order
    rhs = expr.children[1]
    stack = [rhs]
    tnodes = []

    def walk(n):
        if n.data in ("times", "take"):
            tnodes.append(n)
        else:
            for c in n.children:
                if not isinstance(c, Token):
                    walk(c)
    walk(rhs)
    for node in tnodes:
        if node.data == "times":
            res["terms"].append({"factors": [_factor(c) for c in node.children], "take": None})
        else:
            fs, sel = [], None
            for c in node.children:
                if isinstance(c, Token):
                    sel = int(c)
                else:
                    fs.append(_factor(c))
            res["terms"].append({"factors": fs, "take": sel})
    vars_ = []
    for a in res["out_idx"]:
        for _, v in a:
            if v not in vars_:
                vars_.append(v)
    for t in res["terms"]:
        for f in t["factors"]:
            if f[0] == "T":
                for a in f[2]:
                    for _, v in a:
                        if v not in vars_:
                            vars_.append(v)
    res["vars"] = vars_
    return res


def coq_affine(a):
    return clist("(%s, %s)" % (cz(c), cstr(v)) for c, v in a)


def coq_einsum(es, extents):
    terms = []
    for t in es["terms"]:
        fs = []
        for f in t["factors"]:
            if f[0] == "V":
                fs.append("(FVar %s)" % cstr(f[1]))
            else:
                fs.append("(FTensor %s %s)" % (cstr(f[1]), clist(coq_affine(a) for a in f[2])))
        terms.append("(mkTerm %s %s)" % (clist(fs), "None" if t["take"] is None else "(Some %d%%nat)" % t["take"]))
    vars_ = clist("(%s, %s)" % (cstr(v), cz(extents[v.upper()])) for v in es["vars"])
    return "(mkEinsum %s %s %s %s)" % (cstr(es["out"]), clist(coq_affine(a) for a in es["out_idx"]), clist(terms), vars_)


def coq_data(d):
    return clist("(%s, %s)" % (clist(cz(c) for c in k), cz(v)) for k, v in sorted(d.items()))


# ----------------------------------------------------------------------------
# cases
# ----------------------------------------------------------------------------

class Spec:
    """A parsed specification with what the harness needs to know about it."""

    def __init__(self, yaml):
        from teaal.parse import Einsum, Mapping
        self.yaml = yaml
        self.einsum = Einsum.from_str(yaml)
        self.mapping = Mapping.from_str(yaml)
        self.decl = {k: list(v) for k, v in self.einsum.get_declaration().items()}
        self.structs = [einsum_struct(x) for x in self.einsum.get_expressions()]
        self.outs = [s["out"] for s in self.structs]
        self.rank_orders = {k: list(v) for k, v in self.mapping.get_rank_orders().items()}
        self.scalars = []
        for s in self.structs:
            for t in s["terms"]:
                for f in t["factors"]:
                    if f[0] == "V" and f[1] not in self.scalars:
                        self.scalars.append(f[1])

    def order(self, t):
        return self.rank_orders.get(t, self.decl[t])

    def var_name(self, t):
        return t + "_" + "".join(self.order(t))

    def inputs(self):
        return [t for t in self.decl if t not in self.outs]

    def compile(self, arch=False):
        from teaal.trans.hifiber import HiFiber
        if arch:
            from teaal.parse import Architecture, Bindings, Format
            return str(HiFiber(self.einsum, self.mapping, Architecture.from_str(self.yaml),
                               Bindings.from_str(self.yaml), Format.from_str(self.yaml)))
        return str(HiFiber(self.einsum, self.mapping))


def rank_extent(rank, extents):
    return extents[rank]


def gen_inputs(spec, extents, rng, density=0.6, vmax=4, zero_rank0=False, block_p=0.3):
    """Random sparse integer inputs in declared coordinates."""
    data = {}
    mixed = rng.random() < 0.5      # operands of very different occupancy (one dense, another nearly empty)
    base = density
    for t in spec.inputs():
        ranks = spec.decl[t]
        d = {}
        density = rng.choice([1.0, 0.7, 0.4, 0.15]) if mixed else base
        for cs in itertools.product(*[range(extents[r]) for r in ranks]):
            if not ranks:
                d[cs] = 0 if zero_rank0 else rng.randint(1, vmax)
            elif rng.random() < density:
                d[cs] = rng.randint(1, vmax)
        if ranks and rng.random() < block_p:
            # structured sparsity: a whole interval of one rank is empty (whole partitions / fibers missing in one operand only)
            i = rng.randrange(len(ranks))
            e = extents[ranks[i]]
            lo = rng.randint(0, max(0, e - 1))
            hi = rng.randint(lo + 1, e) if rng.random() < 0.7 else e
            d = {k: v for k, v in d.items() if not (lo <= k[i] < hi)}
        data[t] = {k: v for k, v in d.items() if v != 0}
    scal = {v: rng.randint(1, 3) for v in spec.scalars}
    return data, scal


NAME_RE = re.compile(r'^([A-Z][A-Za-z0-9]*)_([A-Z0-9]*)(_flat)?$')


def build_case(spec, text, extents, data, scal, extra_ints=None, check_outputs=True):
    """-> (Coq term of type rcase, names table)."""
    prog, names = py2coq.translate(text)
    tr = py2coq.Translator(names)
    globals_ = [(tr.ident(n), n) for n in names if n in API_NAMES]
    ints = dict(extents)
    ints.update(scal)
    if extra_ints:
        ints.update(extra_ints)
    coq_ints = clist("(%s, %s)" % (tr.ident(k), cz(v)) for k, v in sorted(ints.items()))
    inputs = []
    tensors = []
    for t in spec.inputs():
        order = spec.order(t)
        ranks = spec.decl[t]
        perm = [ranks.index(r) for r in order]
        d2 = {tuple(k[i] for i in perm): v for k, v in data[t].items()}
        inputs.append("(mkInput %s %s %s %s)" % (tr.ident(spec.var_name(t)), clist(map(cstr, order)), cstr(t), coq_data(d2)))
        tensors.append("(%s, %s)" % (cstr(t), coq_data(data[t])))
    es = clist(coq_einsum(s, extents) for s in spec.structs)
    scal_c = clist("(%s, %s)" % (cstr(k), cz(v)) for k, v in sorted(scal.items()))
    outs = []
    if check_outputs:
        for o in spec.outs:
            order = spec.order(o)
            ranks = spec.decl[o]
            perm = [order.index(r) for r in ranks]
            outs.append("(mkOut %s %s %s (expected_of the_es the_ins the_scal %s))" % (
                tr.ident(spec.var_name(o)), clist(map(cstr, order)), clist("%d%%nat" % i for i in perm), cstr(o)))
    name_checks = []
    for n in list(tr.names):
        m = NAME_RE.match(n)
        if m and m.group(1) in spec.decl:
            name_checks.append("(%s, %s)" % (tr.ident(n), cstr(m.group(2))))
    term = ("(let the_es := %s in let the_ins := %s in let the_scal := %s in "
            "mkCase %s %s %s %s %s %s)") % (
        es, clist(tensors), scal_c, prog,
        clist("(%s, %s)" % (i, cstr(n)) for i, n in globals_), coq_ints, clist(inputs), clist(outs), clist(name_checks))
    return term, tr.names


def default_extents(spec, rng, lo=1, hi=5):
    ranks = []
    for t, rs in spec.decl.items():
        for r in rs:
            if r not in ranks:
                ranks.append(r)
    return {r: rng.randint(lo, hi) for r in ranks}
