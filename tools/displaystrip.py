"""Static side condition of C16 ("the display is observation-only"), read off the emitted texts.

`computation(text)` removes from an emitted program everything the display adds:
  * statements that mention the canvas / the slip time-stamp dictionary (createCanvas, canvas.addActivity,
    displayCanvas, `timestamps = {}`, `if <space> in timestamps.keys(): ... else: ...`);
  * `enumerate(...)` wrappers whose position variable `<r>_pos` is not read by what remains of that loop's body.
For every specification  computation(text with spacetime) == computation(text without spacetime)  must hold: then, on
EVERY input, the two programs perform the same tensor operations in the same order (the removed statements only read
loop variables and call the recording API), so the computed tensors are equal.  If the equality fails the display
changed the computation's text (a position variable that the computation itself needs is no longer bound, a loop
header / interval / partitioning differs ...) and the caller searches for a failing input by paired execution.
Fail closed: anything unexpected makes the two sides differ."""
import ast

DISPLAY_NAMES = ("canvas", "timestamps", "createCanvas", "displayCanvas")


def _mentions_display(node):
    return any(isinstance(n, ast.Name) and n.id in DISPLAY_NAMES for n in ast.walk(node))


class _Strip(ast.NodeTransformer):
    def visit_Assign(self, node):
        return None if _mentions_display(node) else node

    def visit_AugAssign(self, node):
        return None if _mentions_display(node) else node

    def visit_Expr(self, node):
        return None if _mentions_display(node) else node

    def visit_If(self, node):
        if _mentions_display(node.test):
            return None
        self.generic_visit(node)
        if not node.body:
            node.body = [ast.Pass()]
        return node

    def visit_For(self, node):
        self.generic_visit(node)
        if not node.body:
            node.body = [ast.Pass()]
        return node


def _reads(tree):
    return set(n.id for n in ast.walk(tree) if isinstance(n, ast.Name) and isinstance(n.ctx, ast.Load))


class _Unenumerate(ast.NodeTransformer):
    """drop `enumerate()` where the loop's own body does not read the position (a later Einsum of a cascade may read a
    variable of the same name: that one is bound by its own loop)"""

    def visit_For(self, node):
        self.generic_visit(node)
        it = node.iter
        if isinstance(it, ast.Call) and isinstance(it.func, ast.Name) and it.func.id == "enumerate" and len(it.args) == 1 \
                and isinstance(node.target, ast.Tuple) and len(node.target.elts) == 2 and isinstance(node.target.elts[0], ast.Name) \
                and node.target.elts[0].id.endswith("_pos"):
            reads = set()
            for stmt in node.body:
                reads |= _reads(stmt)
            if node.target.elts[0].id not in reads:
                node.iter = it.args[0]
                node.target = node.target.elts[1]
        return node


def computation(text):
    """-> canonical text of the program with the display removed"""
    tree = ast.parse(text)
    tree = _Strip().visit(tree)
    ast.fix_missing_locations(tree)
    tree = _Unenumerate().visit(tree)
    ast.fix_missing_locations(tree)
    return ast.unparse(tree)


def first_difference(a, b):
    la, lb = a.split("\n"), b.split("\n")
    for i in range(max(len(la), len(lb))):
        x = la[i] if i < len(la) else "<missing>"
        y = lb[i] if i < len(lb) else "<missing>"
        if x != y:
            return (i + 1, x.strip(), y.strip())
    return None


def unbound_positions(text):
    """`<r>_pos` names read by the program but bound by no loop target / assignment anywhere in it"""
    tree = ast.parse(text)
    bound = set()
    for n in ast.walk(tree):
        if isinstance(n, ast.Name) and isinstance(n.ctx, ast.Store):
            bound.add(n.id)
    return sorted(x for x in _reads(tree) if x.endswith("_pos") and x not in bound)
