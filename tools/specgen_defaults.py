"""Population for C19: structured Einsums (so that the very same object can be written as YAML for the
compiler and as a Gallina term for coqc) with a *partial* mapping - the omitted parts are what the check
fills in with the explicitly written default.

spec = {
  "decl":    {tensor: [declared ranks]},                       (insertion ordered)
  "einsums": [{"out": name, "oidx": access, "terms": [{"take": None|int, "factors": [factor]}]}],
  "mapping": {"rank-order": {tensor: [ranks]}, "loop-order": {out: [ranks]}, "partitioning": {out: {rank: [descr]}}},
}
access = [iexpr]; iexpr = [[coef|None, var]]; factor = ["V", name] | ["T", name, access]
Every choice comes from the rng handed in.
"""

RANK_POOL = ["J", "K", "M", "N", "P", "Q"]
AFFINE_RANKS = ["W", "V", "U"]
INPUT_NAMES = ["A", "B", "C", "D", "E", "F", "G", "H", "I", "L", "O", "R", "S", "X", "Y"] + \
              ["A" + c for c in "ABCDEFGHIJKLMNOPQRSTUVWXYZ"]
OUT_NAMES = ["Z", "T", "U2", "Y2"]


# ---------------------------------------------------------------------------------------------
# rendering
# ---------------------------------------------------------------------------------------------
def iexpr_str(ie):
    return " + ".join(("%d*%s" % (c, v)) if c is not None else v for c, v in ie)


def access_str(a):
    return "[" + ", ".join(iexpr_str(ie) for ie in a) + "]"


def factor_str(f):
    return f[1] if f[0] == "V" else f[1] + access_str(f[2])


def term_str(t):
    fs = [factor_str(f) for f in t["factors"]]
    if t["take"] is not None:
        return "take(" + ", ".join(fs) + ", %d)" % t["take"]
    return " * ".join(fs)


def einsum_str(e):
    return e["out"] + access_str(e["oidx"]) + " = " + " + ".join(term_str(t) for t in e["terms"])


def _flow(xs):
    return "[" + ", ".join(xs) + "]"


def yaml_of(spec, mapping=None, raw_sections=None):
    """YAML text. `mapping` overrides spec["mapping"]; values may be None (YAML null), {} or lists.
    `raw_sections`: {section: text} written verbatim instead of the rendered section (e.g. 'partitioning:' null)."""
    mp = spec["mapping"] if mapping is None else mapping
    y = "einsum:\n  declaration:\n"
    for t, rs in spec["decl"].items():
        y += "    %s: %s\n" % (t, _flow(rs))
    y += "  expressions:\n"
    for e in spec["einsums"]:
        y += "  - %s\n" % einsum_str(e)
    body = ""
    for sec in ("rank-order", "partitioning", "loop-order"):
        if raw_sections and sec in raw_sections:
            body += raw_sections[sec]
            continue
        if sec not in mp:
            continue
        v = mp[sec]
        if v is None:
            body += "  %s:\n" % sec
            continue
        if not v:
            body += "  %s: {}\n" % sec
            continue
        body += "  %s:\n" % sec
        for k, x in v.items():
            if x is None:
                body += "    %s:\n" % k
            elif sec in ("rank-order", "loop-order"):
                body += "    %s: %s\n" % (k, _flow(x))
            elif not x:
                body += "    %s: {}\n" % k
            else:
                body += "    %s:\n" % k
                for r, ds in x.items():
                    body += "      %s: %s\n" % (r, _flow(ds))
    if raw_sections and "mapping" in raw_sections:
        return y + raw_sections["mapping"]
    if body:
        y += "mapping:\n" + body
    return y


# ---------------------------------------------------------------------------------------------
# generation
# ---------------------------------------------------------------------------------------------
def _plain_access(ranks):
    return [[[None, r.lower()]] for r in ranks]


def _term_plain_vars(term):
    """index variables that occur as a plain, single-variable index of some tensor of the term"""
    s = set()
    for f in term["factors"]:
        if f[0] == "T":
            for ie in f[2]:
                if len(ie) == 1 and ie[0][0] is None:
                    s.add(ie[0][1])
    return s


def gen_einsum(rng, names, out_name, decl, prev=None, p_take=0.3, p_affine=0.25, p_scalar=0.12, p_rank0=0.08,
               max_ranks=4, max_terms=3):
    """One Einsum; `prev` = (name, declared ranks) of an earlier output to consume (cascade)."""
    base = list(prev[1]) if prev else []
    nr = max(len(base), rng.randint(1, max_ranks))
    extra = [r for r in RANK_POOL if r not in base]
    ranks = base + rng.sample(extra, min(len(extra), nr - len(base)))
    rng.shuffle(ranks)
    nterms = rng.choice([1, 1, 1, 2, 2, 3][:2 * max_terms])
    prev_term = rng.randrange(nterms) if prev else None
    terms = []
    shape = {"terms": nterms, "take": 0, "affine": 0, "coef": 0, "scalar": 0, "rank0": 0, "ranks": len(ranks)}
    aff_names = iter(AFFINE_RANKS)
    for ti in range(nterms):
        is_take = rng.random() < p_take
        nf = rng.randint(2, 3) if is_take else rng.randint(1, 3)
        facs = []
        for _ in range(nf):
            if rng.random() < p_rank0:
                facs.append([])
            else:
                facs.append(rng.sample(ranks, rng.randint(1, len(ranks))))
        if ti == prev_term:
            facs[rng.randrange(len(facs))] = None       # slot for the consumed intermediate
        own = [f for f in facs if f is not None]
        have = set(prev[1]) if ti == prev_term else set()
        missing = [r for r in ranks if r not in have and not any(r in f for f in own)]
        if missing and not own:
            facs.append([])
            own = [facs[-1]]
        for r in missing:
            f = rng.choice(own)
            f.insert(rng.randint(0, len(f)), r)
        factors = []
        for f in facs:
            if f is None:
                factors.append(["T", prev[0], _plain_access(prev[1])])
                continue
            n = next(names)
            decl[n] = list(f)
            if not f:
                shape["rank0"] += 1
            factors.append(["T", n, _plain_access(f)])
        term = {"take": None, "factors": factors}
        # affine index: merge two plain indices of one access into one expression on a fresh declared rank
        cands = [f for f in factors if f[1] != (prev[0] if prev else None) and len(f[2]) >= 2]
        if cands and rng.random() < p_affine:
            f = rng.choice(cands)
            i = rng.randrange(len(f[2]) - 1)
            x, y = f[2][i][0][1], f[2][i + 1][0][1]
            cx = rng.choice([None, None, 2, 3])
            cy = rng.choice([None, None, 2]) if cx is None else None
            ie = [[cx, x], [cy, y]]
            if rng.random() < 0.5:
                ie.reverse()
            try:
                w = next(aff_names)
            except StopIteration:
                w = None
            if w is not None:
                f[2][i:i + 2] = [ie]
                decl[f[1]][i:i + 2] = [w]
                shape["affine"] += 1
                if cx is not None or cy is not None:
                    shape["coef"] += 1
                # both variables must also be real ranks of some tensor of the Einsum
                plain = _term_plain_vars(term)
                need = [v for v in (x, y) if v not in plain]
                if need:
                    if rng.random() < 0.5 or len(need) == 1:
                        for v in need:
                            n = next(names)
                            decl[n] = [v.upper()]
                            factors.insert(rng.randint(0, len(factors)), ["T", n, _plain_access([v.upper()])])
                    else:
                        rng.shuffle(need)
                        n = next(names)
                        decl[n] = [v.upper() for v in need]
                        factors.insert(rng.randint(0, len(factors)), ["T", n, _plain_access(decl[n])])
        if is_take:
            term["take"] = rng.randrange(len(factors))
            if len(factors) < 2:
                term["take"] = None
            else:
                shape["take"] += 1
        elif rng.random() < p_scalar:
            factors.insert(rng.randint(0, len(factors)), ["V", rng.choice(["a", "b"])])
            shape["scalar"] += 1
        terms.append(term)
    out = rng.sample(ranks, rng.randint(0, len(ranks)))
    decl[out_name] = list(out)
    e = {"out": out_name, "oidx": _plain_access(out), "terms": terms}
    return e, ranks, shape


def einsum_tensors(e):
    return [e["out"]] + [f[1] for t in e["terms"] for f in t["factors"] if f[0] == "T"]


def affine_vars(e):
    return set(v.upper() for t in e["terms"] for f in t["factors"] if f[0] == "T" for ie in f[2] if len(ie) > 1 for _, v in ie)


def gen_partitioning(rng, e, ranks, decl, max_ranks=2, max_depth=3):
    """{rank: [descriptors]} : stacks of shape / occupancy splits on up to two loop ranks
    (ranks used in index arithmetic are partitioned only now and then: the compiler rejects most such mappings)"""
    part = {}
    av = affine_vars(e)
    cand = [r for r in ranks if r not in av or rng.random() < 0.1]
    if not cand:
        return part
    for r in rng.sample(cand, rng.randint(1, min(max_ranks, len(cand)))):
        depth = rng.choice([1, 1, 2, 2, 3][:1 + 2 * (max_depth - 1)])
        if max_depth >= 3 and rng.random() < 0.06:
            depth = rng.randint(9, 12)        # level names with two digits (K10, K11, ...)
        holders = [t for t in einsum_tensors(e)[1:] if r in decl[t]]
        ds = []
        dyn = False
        for lvl in range(depth):
            size = 2 ** min(depth - lvl, 12) * rng.choice([1, 2, 3])
            k = rng.random()
            if dyn and not holders:
                break
            if holders and (k < 0.3 or dyn):
                ds.append("uniform_occupancy(%s.%d)" % (rng.choice(holders), size))
                dyn = True
            elif k < 0.55 and not dyn:
                ds.append("nway_shape(%d)" % rng.randint(2, 5))
            else:
                ds.append("uniform_shape(%d)" % size)
        part[r] = ds
    return part


def gen_spec(rng, p_part=0.5, p_rank_order=0.3, p_loop_order=0.25, max_einsums=3):
    names = iter(INPUT_NAMES)
    decl = {}
    n = rng.choice([1, 1, 1, 1, 2, 2, 3][:1 + 3 * (max_einsums - 1)] if max_einsums > 1 else [1])
    einsums = []
    info = []
    prev = None
    for i in range(n):
        out_name = OUT_NAMES[0] if i == n - 1 else OUT_NAMES[1 + i]
        e, ranks, shape = gen_einsum(rng, names, out_name, decl, prev)
        einsums.append(e)
        info.append({"ranks": ranks, "shape": shape})
        prev = (out_name, decl[out_name])
    mapping = {"rank-order": {}, "loop-order": {}, "partitioning": {}}
    for e, inf in zip(einsums, info):
        if rng.random() < p_part:
            pt = gen_partitioning(rng, e, inf["ranks"], decl)
            if pt:
                mapping["partitioning"][e["out"]] = pt
    for t, rs in decl.items():
        if len(rs) > 1 and rng.random() < p_rank_order:
            p = list(rs)
            rng.shuffle(p)
            mapping["rank-order"][t] = p
    spec = {"decl": decl, "einsums": einsums, "mapping": mapping, "info": info}
    # explicit (non-default) loop orders are added by the caller once the level names are known
    spec["want_loop_order"] = [rng.random() < p_loop_order for _ in einsums]
    return spec


def hand_written():
    """Shapes the random generator reaches only now and then: always present."""
    def T(n, *idx):
        return ["T", n, [[[None, v]] if isinstance(v, str) else [list(x) for x in v] for v in idx]]
    specs = []
    # F9 witness 1: a take() written before the product
    specs.append({"decl": {"Z": [], "A": ["J", "M"], "B": ["N"], "C": ["N", "M", "J"]},
                  "einsums": [{"out": "Z", "oidx": [], "terms": [{"take": 0, "factors": [T("A", "j", "m"), T("B", "n")]},
                                                                  {"take": None, "factors": [T("C", "n", "m", "j")]}]}],
                  "mapping": {"rank-order": {}, "loop-order": {}, "partitioning": {}}})
    # F9 witness 2: coefficient index written before a plain one
    specs.append({"decl": {"Z": [], "I": ["W"], "F": ["S"], "G": ["Q"]},
                  "einsums": [{"out": "Z", "oidx": [], "terms": [{"take": None, "factors": [
                      ["T", "I", [[[2, "q"], [None, "s"]]]], T("F", "s"), T("G", "q")]}]}],
                  "mapping": {"rank-order": {}, "loop-order": {}, "partitioning": {}}})
    # gemm, nothing written / split K twice, M by occupancy
    gemm = {"decl": {"Z": ["M", "N"], "A": ["K", "M"], "B": ["K", "N"]},
            "einsums": [{"out": "Z", "oidx": [[[None, "m"]], [[None, "n"]]],
                         "terms": [{"take": None, "factors": [T("A", "k", "m"), T("B", "k", "n")]}]}]}
    specs.append(dict(gemm, mapping={"rank-order": {}, "loop-order": {}, "partitioning": {}}))
    specs.append(dict(gemm, mapping={"rank-order": {"Z": ["N", "M"]}, "loop-order": {},
                                     "partitioning": {"Z": {"K": ["uniform_shape(4)", "uniform_shape(2)"],
                                                            "M": ["uniform_occupancy(A.5)"]}}}))
    specs.append(dict(gemm, mapping={"rank-order": {"A": ["M", "K"]}, "loop-order": {},
                                     "partitioning": {"Z": {"N": ["nway_shape(3)"],
                                                            "K": ["uniform_occupancy(A.6)", "uniform_occupancy(A.3)"]}}}))
    # convolution, strided; output rank first
    specs.append({"decl": {"O": ["Q"], "I": ["W"], "F": ["S"]},
                  "einsums": [{"out": "O", "oidx": [[[None, "q"]]], "terms": [{"take": None, "factors": [
                      ["T", "I", [[[2, "q"], [None, "s"]]]], T("F", "s")]}]}],
                  "mapping": {"rank-order": {}, "loop-order": {}, "partitioning": {}}})
    # two products whose ranks are written in different orders + cascade
    specs.append({"decl": {"T": ["M"], "A": ["K", "M"], "B": ["K"], "C": ["M", "K"], "Z": ["N"], "D": ["N", "M"]},
                  "einsums": [{"out": "T", "oidx": [[[None, "m"]]],
                               "terms": [{"take": None, "factors": [T("A", "k", "m"), T("B", "k")]},
                                         {"take": None, "factors": [T("C", "m", "k")]}]},
                              {"out": "Z", "oidx": [[[None, "n"]]],
                               "terms": [{"take": None, "factors": [T("T", "m"), T("D", "n", "m")]}]}],
                  "mapping": {"rank-order": {"D": ["M", "N"]}, "loop-order": {},
                              "partitioning": {"Z": {"M": ["uniform_shape(3)"]}}}})
    # a product written first, a take() with another rank order after it
    specs.append({"decl": {"Z": [], "B": ["M", "J", "K"], "D": ["Q", "M"], "C": ["Q", "K"], "E": ["K", "J", "M"]},
                  "einsums": [{"out": "Z", "oidx": [], "terms": [
                      {"take": None, "factors": [T("B", "m", "j", "k"), T("D", "q", "m")]},
                      {"take": 1, "factors": [T("C", "q", "k"), T("E", "k", "j", "m")]}]}],
                  "mapping": {"rank-order": {}, "loop-order": {}, "partitioning": {}}})
    # the leading loop rank split into four levels; three contracted ranks written in non-alphabetical order
    specs.append({"decl": {"Z": ["N"], "A": ["N", "Q", "K", "J"], "B": ["J", "Q"]},
                  "einsums": [{"out": "Z", "oidx": [[[None, "n"]]], "terms": [
                      {"take": None, "factors": [T("A", "n", "q", "k", "j"), T("B", "j", "q")]}]}],
                  "mapping": {"rank-order": {}, "loop-order": {},
                              "partitioning": {"Z": {"N": ["uniform_shape(8)", "uniform_shape(4)", "uniform_shape(2)"]}}}})
    # cascade of three: the first two partitioned, the last one not
    specs.append({"decl": {"T": ["M"], "A": ["K", "M"], "U2": ["M"], "B": ["M", "K"], "Z": ["M"], "C": ["K", "M"]},
                  "einsums": [{"out": "T", "oidx": [[[None, "m"]]], "terms": [{"take": None, "factors": [T("A", "k", "m")]}]},
                              {"out": "U2", "oidx": [[[None, "m"]]], "terms": [{"take": None, "factors": [T("T", "m"), T("B", "m", "k")]}]},
                              {"out": "Z", "oidx": [[[None, "m"]]], "terms": [{"take": None, "factors": [T("U2", "m"), T("C", "k", "m")]}]}],
                  "mapping": {"rank-order": {}, "loop-order": {},
                              "partitioning": {"T": {"K": ["uniform_shape(4)"]}, "U2": {"K": ["uniform_shape(2)"], "M": ["nway_shape(3)"]}}}})
    # an input used by two Einsums, stored in an order the first Einsum's default loop order has to swizzle, nothing mapped:
    # the declared rank order must still be what the second Einsum starts from
    specs.append({"decl": {"T": ["M", "N"], "A": ["K", "M"], "B": ["K", "N"], "Z": ["M"], "C": ["M"]},
                  "einsums": [{"out": "T", "oidx": [[[None, "m"]], [[None, "n"]]], "terms": [{"take": None, "factors": [T("A", "k", "m"), T("B", "k", "n")]}]},
                              {"out": "Z", "oidx": [[[None, "m"]]], "terms": [{"take": None, "factors": [T("A", "k", "m"), T("C", "m")]}]}],
                  "mapping": {"rank-order": {}, "loop-order": {}, "partitioning": {}}})
    # the same input shared by three Einsums, the middle one with an explicit loop order only
    specs.append({"decl": {"T": ["N"], "A": ["K", "N", "M"], "B": ["M"], "U2": ["M"], "Z": ["K"]},
                  "einsums": [{"out": "T", "oidx": [[[None, "n"]]], "terms": [{"take": None, "factors": [T("A", "k", "n", "m"), T("B", "m")]}]},
                              {"out": "U2", "oidx": [[[None, "m"]]], "terms": [{"take": None, "factors": [T("A", "k", "n", "m"), T("T", "n")]}]},
                              {"out": "Z", "oidx": [[[None, "k"]]], "terms": [{"take": None, "factors": [T("A", "k", "n", "m"), T("U2", "m")]}]}],
                  "mapping": {"rank-order": {}, "loop-order": {"U2": ["N", "M", "K"]}, "partitioning": {}}})
    for s in specs:
        s["want_loop_order"] = [False] * len(s["einsums"])
        s["info"] = [{"ranks": None, "shape": {"hand": 1}} for _ in s["einsums"]]
    return specs
