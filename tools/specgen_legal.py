"""Specifications for C18 (stated legality rules): an independent reader of the YAML data (NOT the
compiler's parsers), the abstraction handed to Model/Legal.v, extra legal base specifications, and
the violation injections (every rule x every site).

A specification is the plain data loaded from YAML (dict/list/str, key order = YAML order); it is
always handed to the compiler as YAML *text* (dump), so that what is compiled is what the replay shows.
"""
import copy
import io
import itertools
import re

from ruamel.yaml import YAML

from vlib import cstr, clist, cz, copt, cbool


# ----------------------------------------------------------------------------
# YAML
# ----------------------------------------------------------------------------

def load(text):
    return YAML(typ="safe", pure=True).load(text)


def dump(data):
    y = YAML(typ="safe", pure=True)
    y.default_flow_style = None
    y.width = 100000
    y.sort_base_mapping_type_on_output = False
    buf = io.StringIO()
    y.dump(data, buf)
    return buf.getvalue()


# ----------------------------------------------------------------------------
# expressions: own recursive-descent reader of the Einsum sub-language (fail closed)
# ----------------------------------------------------------------------------

_TOK = re.compile(r"\s*(?:(?P<name>[A-Za-z_][A-Za-z0-9_]*)|(?P<num>\d+)|(?P<op>take\(|[\[\]\(\)=\+\*,\-]))")


def _tokens(s):
    out, i = [], 0
    s = s.rstrip()
    while i < len(s):
        m = _TOK.match(s, i)
        if not m:
            raise ValueError("cannot read expression %r at %d" % (s, i))
        # `take(` is one token only when the name is exactly take followed by (
        if m.group("name") == "take" and s[m.end():m.end() + 1] == "(":
            out.append(("op", "take("))
            i = m.end() + 1
            continue
        for k in ("name", "num", "op"):
            if m.group(k) is not None:
                out.append((k, m.group(k)))
        i = m.end()
    return out


class _P:
    def __init__(self, toks):
        self.t, self.i = toks, 0

    def peek(self):
        return self.t[self.i] if self.i < len(self.t) else (None, None)

    def eat(self, kind=None, val=None):
        k, v = self.peek()
        if (kind is not None and k != kind) or (val is not None and v != val):
            raise ValueError("unexpected token %r (wanted %r %r)" % ((k, v), kind, val))
        self.i += 1
        return v


def _iterm(p):
    k, v = p.peek()
    if k == "name":
        p.eat()
        return (1, v)
    neg = False
    if (k, v) == ("op", "-"):
        p.eat()
        neg = True
    n = int(p.eat("num"))
    p.eat("op", "*")
    var = p.eat("name")
    return (-n if neg else n, var)


def _iexpr(p):
    terms = [_iterm(p)]
    while p.peek() == ("op", "+"):
        p.eat()
        terms.append(_iterm(p))
    return terms


def _ranks(p):
    p.eat("op", "[")
    idx = []
    if p.peek() != ("op", "]"):
        idx.append(_iexpr(p))
        while p.peek() == ("op", ","):
            p.eat()
            idx.append(_iexpr(p))
    p.eat("op", "]")
    return idx


def _factor(p):
    name = p.eat("name")
    if p.peek() == ("op", "["):
        return {"name": name, "idx": _ranks(p)}
    return {"var": name}


def _term(p):
    if p.peek() == ("op", "take("):
        p.eat()
        facs = [_factor(p)]
        sel = None
        while p.peek() == ("op", ","):
            p.eat()
            if p.peek()[0] == "num":
                sel = int(p.eat("num"))
                break
            facs.append(_factor(p))
        p.eat("op", ")")
        if sel is None:
            raise ValueError("take without selector")
        return {"take": sel, "factors": facs}
    facs = [_factor(p)]
    while p.peek() == ("op", "*"):
        p.eat()
        facs.append(_factor(p))
    return {"take": None, "factors": facs}


def parse_expr(s):
    p = _P(_tokens(s))
    name = p.eat("name")
    out = {"name": name, "idx": _ranks(p)}
    p.eat("op", "=")
    terms = [_term(p)]
    while p.peek() == ("op", "+"):
        p.eat()
        terms.append(_term(p))
    if p.peek() != (None, None):
        raise ValueError("trailing tokens in %r" % s)
    return {"out": out, "terms": terms}


def _r_iterm(c, v):
    if c == 1:
        return v
    if c < 0:
        return "-%d * %s" % (-c, v)
    return "%d * %s" % (c, v)


def _r_acc(a):
    if "var" in a:
        return a["var"]
    return a["name"] + "[" + ", ".join(" + ".join(_r_iterm(c, v) for c, v in x) for x in a["idx"]) + "]"


def render_expr(e):
    ts = []
    for t in e["terms"]:
        if t["take"] is not None:
            ts.append("take(" + ", ".join(_r_acc(f) for f in t["factors"]) + ", %d)" % t["take"])
        else:
            ts.append(" * ".join(_r_acc(f) for f in t["factors"]))
    return _r_acc(e["out"]) + " = " + " + ".join(ts)


# ----------------------------------------------------------------------------
# partitioning keys and directives
# ----------------------------------------------------------------------------

_NAME = r"[A-Za-z_][A-Za-z0-9_]*"


def parse_key(k):
    k = str(k).strip()
    if re.fullmatch(_NAME, k):
        return [k]
    m = re.fullmatch(r"\(\s*(%s(?:\s*,\s*%s)+)\s*\)" % (_NAME, _NAME), k)
    if not m:
        raise ValueError("cannot read partitioning key %r" % k)
    return [x.strip() for x in m.group(1).split(",")]


def render_key(ranks):
    return ranks[0] if len(ranks) == 1 else "(" + ", ".join(ranks) + ")"


def parse_directive(d):
    d = str(d).strip()
    m = re.fullmatch(r"(uniform_shape|nway_shape)\(\s*([A-Za-z0-9_\.]+)\s*\)", d)
    if m:
        return (m.group(1), m.group(2))
    m = re.fullmatch(r"uniform_occupancy\(\s*(%s)\s*\.\s*([A-Za-z0-9_]+)\s*\)" % _NAME, d)
    if m:
        return ("uniform_occupancy", m.group(1), m.group(2))
    if re.fullmatch(r"flatten\(\s*\)", d):
        return ("flatten",)
    m = re.fullmatch(r"follow\(\s*(%s)\s*\)" % _NAME, d)
    if m:
        return ("follow", m.group(1))
    raise ValueError("cannot read directive %r" % d)


def coq_directive(d):
    return {"uniform_shape": lambda: "DUShape", "nway_shape": lambda: "DNway",
            "uniform_occupancy": lambda: "(DUOcc %s)" % cstr(d[1]), "flatten": lambda: "DFlatten",
            "follow": lambda: "(DFollow %s)" % cstr(d[1])}[d[0]]()


# ----------------------------------------------------------------------------
# the abstraction handed to Model/Legal.v
# ----------------------------------------------------------------------------

def _get(d, *path):
    for k in path:
        if not isinstance(d, dict) or k not in d or d[k] is None:
            return None
        d = d[k]
    return d


def to_model(data):
    """Read the specification data into the structure of Model/Legal.v `spec` (index variables upper-cased)."""
    decl = [(str(t), [str(r) for r in (rs or [])]) for t, rs in (_get(data, "einsum", "declaration") or {}).items()]
    rorder = [(str(t), [str(r) for r in (rs or [])]) for t, rs in (_get(data, "mapping", "rank-order") or {}).items()]
    parts_all = _get(data, "mapping", "partitioning") or {}
    loops = _get(data, "mapping", "loop-order") or {}
    einsums = []
    for s in _get(data, "einsum", "expressions") or []:
        e = parse_expr(s)
        out = e["out"]["name"]

        def acc(a):
            return (a["name"], [[(c, v.upper()) for c, v in x] for x in a["idx"]])
        terms = [[acc(f) for f in t["factors"] if "name" in f] for t in e["terms"]]
        parts = []
        for k, ds in (parts_all.get(out) or {}).items():
            parts.append((parse_key(k), [parse_directive(d) for d in (ds or [])]))
        loop = loops.get(out)
        einsums.append({"out": acc(e["out"]), "terms": terms, "parts": parts,
                        "loop": None if loop is None else [str(r) for r in loop]})
    bind = None
    if isinstance(data, dict) and "bindings" in data:
        bind = []
        for es, items in data["bindings"].items():
            bind.append((str(es), [("config" in it) for it in (items or [])]))
    return {"decl": decl, "rorder": rorder, "einsums": einsums, "bind": bind}


def _coq_acc(a):
    return "(mkAcc %s %s)" % (cstr(a[0]), clist(clist("(%s, %s)" % (cz(c), cstr(v)) for c, v in x) for x in a[1]))


def _coq_named(l):
    return clist("(%s, %s)" % (cstr(t), clist(map(cstr, rs))) for t, rs in l)


def coq_spec(m):
    es = []
    for e in m["einsums"]:
        es.append("(mkEin %s %s %s %s)" % (
            _coq_acc(e["out"]), clist(clist(_coq_acc(a) for a in t) for t in e["terms"]),
            clist("(mkPE %s %s)" % (clist(map(cstr, k)), clist(map(coq_directive, ds))) for k, ds in e["parts"]),
            copt(None if e["loop"] is None else clist(map(cstr, e["loop"])))))
    bind = copt(None if m["bind"] is None else
                clist("(%s, %s)" % (cstr(n), clist(map(cbool, cs))) for n, cs in m["bind"]))
    return "(mkSpec %s %s %s %s)" % (_coq_named(m["decl"]), _coq_named(m["rorder"]), clist(es), bind)


# ----------------------------------------------------------------------------
# views used by the injections
# ----------------------------------------------------------------------------

def exprs_of(data):
    return [parse_expr(s) for s in data["einsum"]["expressions"]]


def set_expr(data, i, e):
    data["einsum"]["expressions"][i] = render_expr(e)


def parts_of(data, out, create=False):
    mp = data.get("mapping")
    if mp is None:
        if not create:
            return None
        mp = data["mapping"] = {}
    if mp.get("partitioning") is None:
        if not create:
            return None
        mp["partitioning"] = {}
    if mp["partitioning"].get(out) is None:
        if not create:
            return None
        mp["partitioning"][out] = {}
    return mp["partitioning"][out]


def loop_of(data, out):
    return _get(data, "mapping", "loop-order", out)


def set_loop(data, out, loop):
    data.setdefault("mapping", {})
    if data["mapping"] is None:
        data["mapping"] = {}
    if data["mapping"].get("loop-order") is None:
        data["mapping"]["loop-order"] = {}
    data["mapping"]["loop-order"][out] = list(loop)


def insert_entry(d, key, val, pos):
    """Insert key: val at position pos of the (ordered) dict d, in place."""
    items = list(d.items())
    items.insert(max(0, min(pos, len(items))), (key, val))
    d.clear()
    for k, v in items:
        d[k] = v


def drop_loop(d, out):
    """Remove the explicit loop order and spacetime of Einsum `out`: the defaults then follow the partitioning."""
    for sec in ("loop-order", "spacetime"):
        m = _get(d, "mapping", sec)
        if m and out in m:
            del m[out]


def maybe_default_loop(d, out, rng, site, p=0.5):
    """With probability p let the default loop order apply, so that the rest of the specification stays consistent with
    the changed partitioning (otherwise a stale explicit loop order is what gets rejected, whatever the guard does)."""
    if _get(d, "architecture") is None and rng.random() < p:
        drop_loop(d, out)
        return site + " default-loop"
    return site


def fresh(used, stem):
    for i in itertools.count():
        n = stem if i == 0 else "%s%s" % (stem, "ABCDEFGH"[i - 1] if i <= 8 else "X%d" % i)
        if n not in used:
            return n


def eff_ranks(data, t):
    ro = _get(data, "mapping", "rank-order") or {}
    if t in ro:
        return list(ro[t])
    return list((data["einsum"]["declaration"].get(t)) or [])


def tensor_factors(e):
    return [f for t in e["terms"] for f in t["factors"] if "name" in f]


def has_index_math(data, e):
    """Index variables (upper) that take part in a non-trivial coordinate relation (harness-side, used only to
    pick injection sites; the kernel re-decides every instance)."""
    im = set()
    for a in [e["out"]] + tensor_factors(e):
        dr = data["einsum"]["declaration"].get(a["name"]) or []
        for d, x in zip(dr, a["idx"]):
            if [(c, v.upper()) for c, v in x] != [(1, d)]:
                im.add(d)
                im.update(v.upper() for _, v in x)
    return im


# ----------------------------------------------------------------------------
# injections: (rule, site, mutated data).  Each takes an otherwise legal specification
# and violates ONE stated rule at ONE site.
# ----------------------------------------------------------------------------

def inj_dup_rank(data, rng, cap):
    decl = data["einsum"]["declaration"]
    sites = []
    for t, rs in decl.items():
        rs = list(rs or [])
        for i in range(len(rs)):
            for j in range(len(rs) + 1):
                sites.append((t, i, j, "insert"))
            for j in range(len(rs)):
                if j != i:
                    sites.append((t, i, j, "replace"))
    rng.shuffle(sites)
    for t, i, j, how in sites[:cap]:
        d = copy.deepcopy(data)
        rs = list(d["einsum"]["declaration"][t])
        if how == "insert":
            rs.insert(j, rs[i])
        else:
            rs[j] = rs[i]
        d["einsum"]["declaration"][t] = rs
        yield "dup_rank", "%s:%s rank %d at %d" % (how, t, i, j), d


def inj_undeclared(data, rng, cap):
    es = exprs_of(data)
    decl = data["einsum"]["declaration"]
    sites = []
    for ei, e in enumerate(es):
        occ = [("out", None)] + [("in", k) for k in range(len(tensor_factors(e)))]
        for o in occ:
            sites.append((ei, o, "rename"))
            sites.append((ei, o, "undeclare"))
    rng.shuffle(sites)
    for ei, (kind, k), how in sites[:cap]:
        d = copy.deepcopy(data)
        e = parse_expr(d["einsum"]["expressions"][ei])
        a = e["out"] if kind == "out" else tensor_factors(e)[k]
        if how == "rename":
            new = fresh(set(decl), "XQ")
            old = a["name"]
            a["name"] = new
            set_expr(d, ei, e)
            if kind == "out":
                # keep the mapping attached to the Einsum (it is keyed by the output name)
                if not any(parse_expr(x)["out"]["name"] == old for x in d["einsum"]["expressions"]):
                    for m in [_get(d, "mapping", sec) for sec in ("partitioning", "loop-order", "spacetime")] + [d.get("bindings")]:
                        if m and old in m:
                            items = [(new if k == old else k, v) for k, v in m.items()]
                            m.clear()
                            m.update(items)
        else:
            if a["name"] not in d["einsum"]["declaration"]:
                continue
            del d["einsum"]["declaration"][a["name"]]
        yield "undeclared_tensor", "%s einsum %d %s %s" % (how, ei, kind, k), d


def inj_repeated(data, rng, cap):
    es = exprs_of(data)
    sites = []
    for ei, e in enumerate(es):
        n = len(tensor_factors(e))
        for k in range(n):
            sites.append((ei, "out", k, "rename"))            # an input renamed to the output
            for k2 in range(n):
                if k2 != k:
                    sites.append((ei, k2, k, "rename"))        # input k renamed to input k2
            sites.append((ei, k, k, "dupfactor"))             # the factor written twice in its term
    rng.shuffle(sites)
    for ei, src, k, how in sites[:cap]:
        d = copy.deepcopy(data)
        e = parse_expr(d["einsum"]["expressions"][ei])
        facs = tensor_factors(e)
        if how == "rename":
            srcname = e["out"]["name"] if src == "out" else facs[src]["name"]
            if facs[k]["name"] == srcname:
                continue
            facs[k]["name"] = srcname
        else:
            for t in e["terms"]:
                for pos, f in enumerate(t["factors"]):
                    if f is facs[k]:
                        t["factors"].insert(pos + rng.randint(0, 1), copy.deepcopy(f))
                        if t["take"] is not None and t["take"] >= pos:
                            pass
                        break
                else:
                    continue
                break
        set_expr(d, ei, e)
        yield "repeated_tensor", "%s einsum %d %s->%s" % (how, ei, src, k), d


def occurrences(data, name):
    """How often tensor `name` is written in the expressions (outputs and factors, every Einsum)."""
    n = 0
    for e in exprs_of(data):
        n += sum(1 for a in [e["out"]] + tensor_factors(e) if a["name"] == name)
    return n


def inj_term_mismatch(data, rng, cap):
    es = exprs_of(data)
    decl = data["einsum"]["declaration"]
    sites = []
    for ei, e in enumerate(es):
        nt = len(e["terms"])
        for ti in range(nt + 1):
            sites.append((ei, ti, "newterm_sub"))
            sites.append((ei, ti, "newterm_sup"))
        if nt >= 2:
            for ti in range(nt):
                sites.append((ei, ti, "droprank"))
                sites.append((ei, ti, "addrank"))
    rng.shuffle(sites)
    for ei, ti, how in sites[:cap]:
        d = copy.deepcopy(data)
        e = parse_expr(d["einsum"]["expressions"][ei])
        # pad with 0-2 further terms over the SAME rank set (still legal), so that the odd term can sit at any index
        tv0 = []
        for f in tensor_factors(e):
            for x in f["idx"]:
                for _, v in x:
                    if v not in tv0:
                        tv0.append(v)
        npad = rng.choice([0, 0, 1, 2]) if not has_index_math(d, e) and _get(d, "architecture") is None else 0
        for _ in range(npad):
            nm = fresh(set(d["einsum"]["declaration"]), "NP")
            vs = list(tv0)
            rng.shuffle(vs)
            d["einsum"]["declaration"][nm] = [v.upper() for v in vs]
            e["terms"].insert(rng.randint(0, len(e["terms"])), {"take": None, "factors": [{"name": nm, "idx": [[(1, v)] for v in vs]}]})
        if npad:
            ti = rng.randint(0, len(e["terms"]) - (0 if how.startswith("newterm") else 1))
        allv = []
        for f in tensor_factors(e):
            for x in f["idx"]:
                for _, v in x:
                    if v not in allv:
                        allv.append(v)
        used = set(d["einsum"]["declaration"])
        if how in ("newterm_sub", "newterm_sup"):
            if how == "newterm_sub":
                if not allv:
                    continue
                vs = rng.sample(allv, rng.randint(0, len(allv) - 1))
            else:
                extra = fresh(set(v.upper() for v in allv) | set(r for rs in decl.values() for r in (rs or [])), "V").lower()
                vs = allv + [extra]
                rng.shuffle(vs)
            nm = fresh(used, "NT")
            d["einsum"]["declaration"][nm] = [v.upper() for v in vs]
            newt = {"take": None, "factors": [{"name": nm, "idx": [[(1, v)] for v in vs]}]}
            if rng.random() < 0.3 and len(vs) >= 1:
                nm2 = fresh(used | {nm}, "NU")
                d["einsum"]["declaration"][nm2] = [vs[0].upper()]
                newt = {"take": 0, "factors": newt["factors"] + [{"name": nm2, "idx": [[(1, vs[0])]]}]}
            e["terms"].insert(ti, newt)
        elif how == "droprank":
            t = e["terms"][ti]
            tv = []
            for f in t["factors"]:
                if "name" in f:
                    for x in f["idx"]:
                        tv.extend(v for _, v in x)
            if not tv:
                continue
            v = rng.choice(sorted(set(tv)))
            # remove every index position of the term that mentions v; the declaration follows
            ok = True
            for f in t["factors"]:
                if "name" not in f:
                    continue
                keep = [i for i, x in enumerate(f["idx"]) if all(v2 != v for _, v2 in x)]
                if len(keep) != len(f["idx"]):
                    if occurrences(d, f["name"]) != 1:
                        ok = False
                        break
                    dr = list(d["einsum"]["declaration"][f["name"]])
                    d["einsum"]["declaration"][f["name"]] = [dr[i] for i in keep]
                    ro = _get(d, "mapping", "rank-order")
                    if ro and f["name"] in ro:
                        dropped = [dr[i] for i in range(len(dr)) if i not in keep]
                        ro[f["name"]] = [r for r in ro[f["name"]] if r not in dropped]
                    f["idx"] = [f["idx"][i] for i in keep]
            if not ok:
                continue
        else:
            t = e["terms"][ti]
            cands = [f for f in t["factors"] if "name" in f and occurrences(d, f["name"]) == 1]
            if not cands:
                continue
            f = rng.choice(cands)
            extra = fresh(set(v.upper() for v in allv) | set(r for rs in decl.values() for r in (rs or [])), "V")
            pos = rng.randint(0, len(f["idx"]))
            f["idx"].insert(pos, [(1, extra.lower())])
            dr = list(d["einsum"]["declaration"][f["name"]])
            dr.insert(pos, extra)
            d["einsum"]["declaration"][f["name"]] = dr
            ro = _get(d, "mapping", "rank-order")
            if ro and f["name"] in ro:
                ro[f["name"]] = list(ro[f["name"]]) + [extra]
        set_expr(d, ei, e)
        kinds = "".join("k" if t["take"] is not None else "t" for t in e["terms"])
        yield "term_rank_mismatch", "%s einsum %d term %d of %s" % (how, ei, ti, kinds), d


def _flatten_entries(parts):
    return [(k, parse_key(k)) for k, ds in parts.items() if ds and any(parse_directive(x)[0] == "flatten" for x in ds)]


def _some_leader(data, e, rank):
    for f in tensor_factors(e):
        if rank in (data["einsum"]["declaration"].get(f["name"]) or []):
            return f["name"]
    fs = tensor_factors(e)
    return fs[0]["name"] if fs else e["out"]["name"]


def _other_directives(data, e, rank, rng):
    ld = _some_leader(data, e, rank)
    return rng.choice(["uniform_shape(3)", "nway_shape(2)", "uniform_occupancy(%s.3)" % ld, "uniform_shape(KS)",
                       "flatten()", "follow(%s)" % rank])


def inj_flatten_with_others(data, rng, cap):
    es = exprs_of(data)
    sites = []
    for ei, e in enumerate(es):
        parts = parts_of(data, e["out"]["name"])
        if not parts:
            continue
        for k, ranks in _flatten_entries(parts):
            for pos in ("before", "after", "both"):
                sites.append((ei, k, pos))
    rng.shuffle(sites)
    for ei, k, pos in sites[:cap]:
        d = copy.deepcopy(data)
        e = es[ei]
        parts = parts_of(d, e["out"]["name"])
        ranks = parse_key(k)
        extra = _other_directives(d, e, ranks[0], rng)
        ds = list(parts[k])
        if pos in ("before", "both"):
            ds.insert(0, extra)
        if pos in ("after", "both"):
            ds.append(_other_directives(d, e, ranks[-1], rng))
        parts[k] = ds
        yield "flatten_with_others", maybe_default_loop(d, e["out"]["name"], rng, "einsum %d key %s %s [%s]" % (
            ei, k, pos, ",".join(parse_directive(x)[0] for x in ds))), d


def _all_root_ranks(data, e):
    rs = []
    for a in [e["out"]] + tensor_factors(e):
        for r in eff_ranks(data, a["name"]):
            if r not in rs:
                rs.append(r)
    return rs


def inj_flatten_lt2(data, rng, cap):
    es = exprs_of(data)
    sites = []
    for ei, e in enumerate(es):
        parts = parts_of(data, e["out"]["name"]) or {}
        busy = set(r for k in parts for r in parse_key(k))
        for r in _all_root_ranks(data, e):
            if r in busy:
                continue
            for pos in range(len(parts) + 1):
                sites.append((ei, r, pos))
    rng.shuffle(sites)
    for ei, r, pos in sites[:cap]:
        d = copy.deepcopy(data)
        parts = parts_of(d, es[ei]["out"]["name"], create=True)
        insert_entry(parts, r, ["flatten()"], pos)
        yield "flatten_lt2", maybe_default_loop(d, es[ei]["out"]["name"], rng, "einsum %d rank %s at entry %d" % (ei, r, pos)), d


def inj_flatten_index_math(data, rng, cap):
    es = exprs_of(data)
    sites = []
    for ei, e in enumerate(es):
        im = has_index_math(data, e)
        if not im:
            continue
        parts = parts_of(data, e["out"]["name"]) or {}
        busy = set(r for k in parts for r in parse_key(k))
        roots = [r for r in _all_root_ranks(data, e) if r not in busy]
        ims = [r for r in roots if r in im]
        for r in ims:
            others = [x for x in roots if x != r]
            for n in (2, 3):
                if len(others) < n - 1:
                    continue
                for p in range(n):
                    sites.append((ei, r, n, p))
    rng.shuffle(sites)
    for ei, r, n, p in sites[:cap]:
        d = copy.deepcopy(data)
        e = es[ei]
        parts = parts_of(d, e["out"]["name"], create=True)
        busy = set(x for k in parts for x in parse_key(k))
        others = [x for x in _all_root_ranks(d, e) if x != r and x not in busy]
        im = has_index_math(d, e)
        plain = [x for x in others if x not in im]
        if len(plain) >= n - 1:
            others = plain                      # the violation sits at position p only
        tup = rng.sample(others, n - 1)
        tup.insert(p, r)
        insert_entry(parts, render_key(tup), ["flatten()"], rng.randint(0, len(parts)))
        yield "flatten_index_math", maybe_default_loop(d, e["out"]["name"], rng, "einsum %d rank %s position %d of %d%s" % (
            ei, r, p, n, " others-plain" if others is plain else "")), d


def inj_flatten_and_partitioned(data, rng, cap):
    es = exprs_of(data)
    sites = []
    for ei, e in enumerate(es):
        parts = parts_of(data, e["out"]["name"]) or {}
        im = has_index_math(data, e)
        # (a) an existing flatten tuple: partition one of its ranks independently
        for k, ranks in _flatten_entries(parts):
            for p, r in enumerate(ranks):
                if r in parts and parts[r]:
                    continue
                for where in ("before", "after"):
                    sites.append((ei, "part", k, p, where))
        # (b) an existing independent partitioning: flatten that rank with others
        roots = [r for r in _all_root_ranks(data, e) if r not in im]
        for k, ds in parts.items():
            ranks = parse_key(k)
            if len(ranks) == 1 and ds and ranks[0] in roots and parse_directive(ds[0])[0] != "flatten":
                for n in (2, 3):
                    for p in range(n):
                        for where in ("before", "after"):
                            sites.append((ei, "flat", k, (n, p), where))
    rng.shuffle(sites)
    for ei, how, k, p, where in sites[:cap]:
        d = copy.deepcopy(data)
        e = es[ei]
        parts = parts_of(d, e["out"]["name"])
        keys = list(parts)
        if how == "part":
            r = parse_key(k)[p]
            pos = keys.index(k) + (0 if where == "before" else 1)
            if r in parts:
                del parts[r]
                keys = list(parts)
                pos = keys.index(k) + (0 if where == "before" else 1)
            insert_entry(parts, r, [rng.choice(["uniform_shape(3)", "nway_shape(2)", "uniform_occupancy(%s.3)" % _some_leader(d, e, r),
                                                "uniform_shape(3), uniform_shape(2)"])], pos)
            parts[r] = [x.strip() for x in parts[r][0].split(", ")]
        else:
            n, pp = p
            r = parse_key(k)[0]
            busy = set(x for kk in parts for x in parse_key(kk))
            im = has_index_math(d, e)
            others = [x for x in _all_root_ranks(d, e) if x != r and x not in busy and x not in im]
            if len(others) < n - 1:
                continue
            tup = rng.sample(others, n - 1)
            tup.insert(pp, r)
            pos = keys.index(k) + (0 if where == "before" else 1)
            insert_entry(parts, render_key(tup), ["flatten()"], pos)
        yield "flatten_and_partitioned", maybe_default_loop(d, e["out"]["name"], rng, "einsum %d %s key %s pos %s %s" % (ei, how, k, p, where)), d


def inj_flatten_of_flattened(data, rng, cap):
    es = exprs_of(data)
    sites = []
    for ei, e in enumerate(es):
        parts = parts_of(data, e["out"]["name"]) or {}
        for k, ranks in _flatten_entries(parts):
            for n in (2, 3):
                for p in range(n):
                    for where in ("before", "after"):
                        sites.append((ei, k, n, p, where))
    rng.shuffle(sites)
    for ei, k, n, p, where in sites[:cap]:
        d = copy.deepcopy(data)
        e = es[ei]
        parts = parts_of(d, e["out"]["name"])
        name = "".join(parse_key(k))
        busy = set(x for kk in parts for x in parse_key(kk))
        im = has_index_math(d, e)
        others = [x for x in _all_root_ranks(d, e) if x not in busy and x not in im]
        if len(others) < n - 1:
            continue
        # the flattened rank must not be split itself for this to be an instance of this rule only
        if name in parts and parts[name]:
            del parts[name]
        tup = rng.sample(others, n - 1)
        tup.insert(p, name)
        keys = list(parts)
        pos = keys.index(k) + (0 if where == "before" else 1)
        insert_entry(parts, render_key(tup), ["flatten()"], pos)
        yield "flatten_of_flattened", maybe_default_loop(d, e["out"]["name"], rng, "einsum %d key %s position %d of %d %s" % (ei, k, p, n, where)), d


def inj_nway_after_occupancy(data, rng, cap):
    es = exprs_of(data)
    sites = []
    for ei, e in enumerate(es):
        parts = parts_of(data, e["out"]["name"]) or {}
        for k, ds in parts.items():
            if not ds:
                continue
            kinds = [parse_directive(x)[0] for x in ds]
            if "flatten" in kinds or "follow" in kinds or len(parse_key(k)) != 1:
                continue
            occ = [i for i, x in enumerate(kinds) if x == "uniform_occupancy"]
            nway = [i for i, x in enumerate(kinds) if x == "nway_shape"]
            # (a) there is an occupancy split: add an n-way split at any later position
            for i in occ:
                for j in range(i + 1, len(ds) + 1):
                    sites.append((ei, k, "add_nway", i, j))
            # (b) there is an n-way split: add an occupancy split at any earlier position
            for j in nway:
                for i in range(0, j + 1):
                    sites.append((ei, k, "add_occ", i, j))
            # (c) a shape stack without either: add both, anywhere
            if not occ and not nway:
                for i in range(len(ds) + 1):
                    for j in range(i, len(ds) + 1):
                        sites.append((ei, k, "add_both", i, j))
        # (d) an unpartitioned rank gets a fresh stack
        busy = set(x for kk in parts for x in parse_key(kk))
        im = has_index_math(data, e)
        for r in _all_root_ranks(data, e):
            if r not in busy and r not in im and any(r in (data["einsum"]["declaration"].get(f["name"]) or []) for f in tensor_factors(e)):
                for shape in (0, 1, 2):
                    sites.append((ei, r, "fresh", shape, 0))
    rng.shuffle(sites)
    for ei, k, how, i, j in sites[:cap]:
        d = copy.deepcopy(data)
        e = es[ei]
        parts = parts_of(d, e["out"]["name"], create=True)
        if how == "fresh":
            ld = _some_leader(d, e, k)
            stack = [["uniform_occupancy(%s.4)" % ld, "nway_shape(2)"],
                     ["uniform_shape(6)", "uniform_occupancy(%s.4)" % ld, "nway_shape(2)"],
                     ["uniform_occupancy(%s.4)" % ld, "uniform_occupancy(%s.2)" % (ld,), "nway_shape(2)"]][i]
            insert_entry(parts, k, stack, rng.randint(0, len(parts)))
        else:
            ds = list(parts[k])
            ld = _some_leader(d, e, parse_key(k)[0])
            for x in ds:
                px = parse_directive(x)
                if px[0] == "uniform_occupancy":
                    ld = px[1]
            if how == "add_nway":
                ds.insert(j, "nway_shape(2)")
            elif how == "add_occ":
                ds.insert(i, "uniform_occupancy(%s.3)" % ld)
            else:
                ds.insert(j, "nway_shape(2)")
                ds.insert(i, "uniform_occupancy(%s.3)" % ld)
            parts[k] = ds
        pat = "".join({"uniform_shape": "S", "nway_shape": "N", "uniform_occupancy": "O"}.get(parse_directive(x)[0], "?") for x in parts[k])
        yield "nway_after_occupancy", maybe_default_loop(d, e["out"]["name"], rng, "einsum %d stack %s (%s)" % (ei, pat, how), 0.9), d


def inj_shape_after_flatten(data, rng, cap):
    es = exprs_of(data)
    sites = []
    for ei, e in enumerate(es):
        parts = parts_of(data, e["out"]["name"]) or {}
        for k, ranks in _flatten_entries(parts):
            for variant in range(6):
                for where in ("before", "after"):
                    sites.append((ei, k, variant, where))
    rng.shuffle(sites)
    for ei, k, variant, where in sites[:cap]:
        d = copy.deepcopy(data)
        e = es[ei]
        parts = parts_of(d, e["out"]["name"])
        name = "".join(parse_key(k))
        ld = None
        for f in tensor_factors(e):
            if all(r in eff_ranks(d, f["name"]) or r[:-1] in eff_ranks(d, f["name"]) for r in parse_key(k)):
                ld = f["name"]
        ld = ld or _some_leader(d, e, parse_key(k)[0])
        old = list(parts.get(name) or [])
        if name in parts:
            del parts[name]
        if variant == 0:
            ds = ["uniform_shape(3)"]
        elif variant == 1:
            ds = ["nway_shape(2)"]
        elif variant == 2:
            ds = ["uniform_shape(6)", "uniform_shape(2)"]
        elif variant == 3:
            ds = (old or ["uniform_occupancy(%s.4)" % ld]) + ["uniform_shape(2)"]
        elif variant == 4:
            ds = ["uniform_shape(8)"] + (old or ["uniform_occupancy(%s.4)" % ld])
        else:
            # the flattened rank follows a rank that is split by shape
            busy = set(x for kk in parts for x in parse_key(kk))
            im = has_index_math(d, e)
            free = [x for x in _all_root_ranks(d, e) if x not in busy and x not in im]
            shaped = [kk for kk, dd in parts.items() if dd and len(parse_key(kk)) == 1 and
                      all(parse_directive(x)[0] in ("uniform_shape", "nway_shape") for x in dd) and kk in _all_root_ranks(d, e)]
            if shaped:
                lead = rng.choice(shaped)
            elif free:
                lead = rng.choice(free)
                parts[lead] = ["uniform_shape(4)"]
            else:
                continue
            ds = ["follow(%s)" % lead]
        keys = list(parts)
        pos = keys.index(k) + (0 if where == "before" else 1)
        insert_entry(parts, name, ds, pos)
        yield "shape_after_flatten", maybe_default_loop(d, e["out"]["name"], rng, "einsum %d key %s variant %d %s" % (ei, k, variant, where), 0.9), d


def inj_directive_on_tuple(data, rng, cap):
    es = exprs_of(data)
    sites = []
    for ei, e in enumerate(es):
        parts = parts_of(data, e["out"]["name"]) or {}
        # (a) an existing flatten tuple loses its flatten()
        for k, ranks in _flatten_entries(parts):
            for variant in range(5):
                sites.append((ei, "replace", k, variant))
        # (b) a fresh tuple of unpartitioned ranks
        busy = set(x for kk in parts for x in parse_key(kk))
        roots = [r for r in _all_root_ranks(data, e) if r not in busy]
        for n in (2, 3):
            if len(roots) >= n:
                for variant in range(5):
                    sites.append((ei, "fresh", n, variant))
    rng.shuffle(sites)
    for ei, how, k, variant in sites[:cap]:
        d = copy.deepcopy(data)
        e = es[ei]
        parts = parts_of(d, e["out"]["name"], create=True)
        if how == "replace":
            ranks = parse_key(k)
        else:
            busy = set(x for kk in parts for x in parse_key(kk))
            roots = [r for r in _all_root_ranks(d, e) if r not in busy]
            ranks = rng.sample(roots, k)
        ld = _some_leader(d, e, ranks[0])
        ds = [["uniform_shape(3)"], ["nway_shape(2)"], ["uniform_occupancy(%s.3)" % ld], ["nway_shape(3)", "uniform_shape(2)"],
              ["follow(%s)" % ranks[0]]][variant]
        if how == "replace":
            parts[k] = ds
        else:
            insert_entry(parts, render_key(ranks), ds, rng.randint(0, len(parts)))
        yield "directive_on_tuple", maybe_default_loop(d, e["out"]["name"], rng, "einsum %d %s %s variant %d" % (ei, how, k, variant)), d


def inj_project_into_output(data, rng, cap):
    """Replace the (innermost level of the) output rank in the explicit loop order by the input rank it is
    computed with: O[q] = I[q + s] * F[s], loop [Q, S] -> [W, S]."""
    es = exprs_of(data)
    sites = []
    for ei, e in enumerate(es):
        out = e["out"]["name"]
        loop = loop_of(data, out)
        if loop is None:
            continue
        parts = parts_of(data, out) or {}
        decl = data["einsum"]["declaration"]
        for x in e["out"]["idx"]:
            if len(x) != 1:
                continue
            q = x[0][1].upper()
            # an input rank W declared for a position whose expression mentions q among others
            for f in tensor_factors(e):
                for dname, fx in zip(decl.get(f["name"]) or [], f["idx"]):
                    if len(fx) >= 2 and any(v.upper() == q for _, v in fx):
                        inner_q = q + "0" if (q in parts and parts[q]) else q
                        inner_w = dname + "0" if (q in parts and parts[q]) else dname
                        if inner_q in loop and inner_w not in loop:
                            for newpos in range(len(loop)):
                                sites.append((ei, inner_q, inner_w, newpos))
                            # every level of the output rank replaced by the same level of the input rank, in place
                            # ([Q1, S, Q0] -> [W1, S, W0])
                            if q in parts and parts[q] and not any(r.startswith(dname) and r[len(dname):].isdigit() for r in loop):
                                sites.append((ei, q, dname, -1))
    rng.shuffle(sites)
    for ei, iq, iw, newpos in sites[:cap]:
        d = copy.deepcopy(data)
        out = es[ei]["out"]["name"]
        if newpos == -1:
            loop = [iw + r[len(iq):] if (r.startswith(iq) and r[len(iq):].isdigit()) else r for r in loop_of(d, out)]
        else:
            loop = [r for r in loop_of(d, out) if r != iq]
            loop.insert(newpos, iw)
        set_loop(d, out, loop)
        st = _get(d, "mapping", "spacetime", out)
        if st:
            for sec in ("space", "time"):
                st[sec] = [str(r).replace(iq, iw) if str(r).split(".")[0] == iq else r for r in st[sec]]
        yield "project_into_output", "einsum %d %s->%s at %d" % (ei, iq, iw, newpos), d


def inj_output_only_flattened(data, rng, cap):
    """Flatten ranks that only the output tensor holds together and iterate the flattened rank."""
    es = exprs_of(data)
    sites = []
    for ei, e in enumerate(es):
        out = e["out"]["name"]
        parts = parts_of(data, out) or {}
        if parts:
            continue
        im = has_index_math(data, e)
        outr = [r for r in eff_ranks(data, out) if r not in im]
        ins = [set(eff_ranks(data, f["name"])) for f in tensor_factors(e)]
        for n in (2, 3):
            for tup in itertools.permutations(outr, n):
                if any(set(tup) <= s for s in ins):
                    continue
                sites.append((ei, tup))
    rng.shuffle(sites)
    for ei, tup in sites[:cap]:
        d = copy.deepcopy(data)
        e = es[ei]
        out = e["out"]["name"]
        parts = parts_of(d, out, create=True)
        parts[render_key(list(tup))] = ["flatten()"]
        loop = loop_of(d, out)
        if loop is None:
            loop = []
            for a in [e["out"]] + tensor_factors(e):
                for x in a["idx"]:
                    for _, v in x:
                        if v.upper() not in loop:
                            loop.append(v.upper())
            explicit = rng.random() < 0.7
        else:
            loop = list(loop)
            explicit = True
        name = "".join(tup)
        pos = min(loop.index(r) for r in tup if r in loop) if any(r in loop for r in tup) else 0
        loop = [r for r in loop if r not in tup]
        loop.insert(rng.randint(0, len(loop)) if rng.random() < 0.5 else min(pos, len(loop)), name)
        if explicit:
            set_loop(d, out, loop)
        st = _get(d, "mapping", "spacetime")
        if st and out in st:
            del st[out]
        yield "output_only_flattened_loop", "einsum %d tuple %s loop %s" % (ei, tup, loop if explicit else None), d


def inj_missing_config(data, rng, cap):
    b = data.get("bindings") if isinstance(data, dict) else None
    if not b:
        return
    sites = []
    for es, items in b.items():
        for i, it in enumerate(items or []):
            if "config" in it:
                sites.append((es, i, "drop"))
                sites.append((es, i, "drop_and_reorder"))
    rng.shuffle(sites)
    for es, i, how in sites[:cap]:
        d = copy.deepcopy(data)
        items = d["bindings"][es]
        del items[i]
        if how == "drop_and_reorder":
            rng.shuffle(items)
        yield "missing_config", "einsum %s item %d %s" % (es, i, how), d


def inj_extras(data, rng, cap):
    """Guards of the code that are NOT among the stated rules (the guard model has them too): a duplicate rank in a
    rank-order entry, an upper partition level in a flatten tuple, an n-way split after follow().  They exercise the
    correspondence of the guard model with the code where no stated rule applies (rule name prefixed `extra:`)."""
    es = exprs_of(data)
    sites = []
    decl = data["einsum"]["declaration"]
    for t, rs in decl.items():
        if rs and len(rs) >= 1:
            sites.append(("rank_order", t, None))
    for ei, e in enumerate(es):
        parts = parts_of(data, e["out"]["name"]) or {}
        roots = _all_root_ranks(data, e)
        im = has_index_math(data, e)
        for k, ds in parts.items():
            ranks = parse_key(k)
            if len(ranks) == 1 and ds and ranks[0] in roots and ranks[0] not in im and \
                    all(parse_directive(x)[0] in ("uniform_shape", "nway_shape") for x in ds):
                sites.append(("upper_level", ei, k))
                sites.append(("nway_after_follow", ei, k))
    rng.shuffle(sites)
    for how, a, k in sites[:cap]:
        d = copy.deepcopy(data)
        if how == "rank_order":
            rs = list(eff_ranks(d, a))
            rs.insert(rng.randint(0, len(rs)), rng.choice(rs))
            d.setdefault("mapping", {})
            if d["mapping"] is None:
                d["mapping"] = {}
            if d["mapping"].get("rank-order") is None:
                d["mapping"]["rank-order"] = {}
            d["mapping"]["rank-order"][a] = rs
            yield "extra:dup_rank_order", "tensor %s" % a, d
        elif how == "upper_level":
            e = es[a]
            parts = parts_of(d, e["out"]["name"])
            busy = set(x for kk in parts for x in parse_key(kk))
            others = [x for x in _all_root_ranks(d, e) if x not in busy and x not in has_index_math(d, e)]
            if not others:
                continue
            lvl = "%s%d" % (k, rng.randint(1, len(parts[k])))
            tup = [lvl, rng.choice(others)]
            rng.shuffle(tup)
            insert_entry(parts, render_key(tup), ["flatten()"], rng.randint(0, len(parts)))
            yield "extra:multiple_partitionings", maybe_default_loop(d, e["out"]["name"], rng, "einsum %d level %s" % (a, lvl)), d
        else:
            e = es[a]
            parts = parts_of(d, e["out"]["name"])
            busy = set(x for kk in parts for x in parse_key(kk))
            others = [x for x in _all_root_ranks(d, e) if x not in busy and x not in has_index_math(d, e)]
            if not others:
                continue
            o = rng.choice(others)
            insert_entry(parts, o, ["follow(%s)" % k, "nway_shape(2)"], rng.randint(0, len(parts)))
            yield "extra:nway_after_follow", maybe_default_loop(d, e["out"]["name"], rng, "einsum %d rank %s follows %s" % (a, o, k)), d


INJECTORS = [inj_dup_rank, inj_undeclared, inj_repeated, inj_term_mismatch, inj_flatten_with_others, inj_flatten_lt2,
             inj_flatten_index_math, inj_flatten_and_partitioned, inj_flatten_of_flattened, inj_nway_after_occupancy,
             inj_shape_after_flatten, inj_directive_on_tuple, inj_project_into_output, inj_output_only_flattened,
             inj_missing_config, inj_extras]

RULES = ["dup_rank", "undeclared_tensor", "repeated_tensor", "term_rank_mismatch", "flatten_with_others", "flatten_lt2",
         "flatten_index_math", "flatten_and_partitioned", "flatten_of_flattened", "nway_after_occupancy",
         "shape_after_flatten", "directive_on_tuple", "project_into_output", "output_only_flattened_loop", "missing_config"]


# ----------------------------------------------------------------------------
# extra legal base specifications (what the shared populations lack): flatten of 2-3 ranks in several
# shapes (with occupancy of the flattened rank, with the bottom level of a shape split, several
# flatten entries), affine Einsums with plain ranks next to index-math ranks, deep stacks
# ----------------------------------------------------------------------------

def _y(decl, exprs, rank_order=None, parts=None, loops=None):
    d = {"einsum": {"declaration": {t: list(rs) for t, rs in decl.items()}, "expressions": list(exprs)}}
    mp = {}
    if rank_order:
        mp["rank-order"] = rank_order
    if parts:
        mp["partitioning"] = parts
    if loops:
        mp["loop-order"] = loops
    if mp:
        d["mapping"] = mp
    return d


def gen_flatten_base(rng):
    """Z[...] = A[...] * B[...] where A holds the flattened ranks."""
    pool = ["J", "K", "M", "N", "P"]
    nr = rng.randint(2, 4)
    ranks = rng.sample(pool, nr)
    k = rng.randint(2, min(3, nr))
    fr = rng.sample(ranks, k)
    a_ranks = list(fr) + [r for r in ranks if r not in fr and rng.random() < 0.5]
    rng.shuffle(a_ranks)
    rest = [r for r in ranks if r not in a_ranks]
    b_ranks = rest + [r for r in ranks if r not in rest and rng.random() < 0.5]
    rng.shuffle(b_ranks)
    outr = [r for r in ranks if rng.random() < 0.6]
    decl = {"A": a_ranks, "Z": outr}
    facs = ["A[%s]" % ", ".join(r.lower() for r in a_ranks)]
    if b_ranks:
        decl["B"] = b_ranks
        facs.append("B[%s]" % ", ".join(r.lower() for r in b_ranks))
    if rng.random() < 0.3 and set(fr) <= set(a_ranks):
        c_ranks = list(fr)
        rng.shuffle(c_ranks)
        decl["C"] = c_ranks
        facs.append("C[%s]" % ", ".join(r.lower() for r in c_ranks))
    expr = "Z[%s] = %s" % (", ".join(r.lower() for r in outr), " * ".join(facs))
    parts = {}
    name = "".join(fr)
    variant = rng.choice(["plain", "occ", "occ2", "bottom", "bottom_occ"])
    levels = {}
    if variant in ("bottom", "bottom_occ"):
        # the first flattened rank is split by shape; its bottom level is what gets flattened
        r0 = fr[0]
        depth = rng.choice([1, 2])
        parts[r0] = ["uniform_shape(%d)" % s for s in ([6, 3][:depth])]
        levels[r0] = ["%s%d" % (r0, i) for i in range(depth, 0, -1)]
        fr2 = [r0 + "0"] + fr[1:]
        if rng.random() < 0.5:
            rng.shuffle(fr2)
        name = "".join(fr2)
        key = fr2
    else:
        key = list(fr)
    entry_first = rng.random() < 0.5
    if entry_first and variant in ("bottom", "bottom_occ"):
        parts = {render_key(key): ["flatten()"], **parts}
    else:
        parts[render_key(key)] = ["flatten()"]
    flv = [name]
    if variant in ("occ", "occ2", "bottom_occ"):
        n = 2 if variant == "occ2" else 1
        parts[name] = ["uniform_occupancy(A.%d)" % s for s in ([5, 2][:n])]
        flv = ["%s%d" % (name, i) for i in range(n, -1, -1)]
    units = []
    seen = False
    for r in ranks:
        if r in fr:
            if r in levels:
                units.append(levels[r])
            if not seen:
                units.append(flv)
                seen = True
        else:
            units.append([r])
    # keep each unit's levels in order; the split levels of the bottom rank stay above the flattened rank
    loop = []
    us = [list(u) for u in units]
    if levels:
        # upper levels first, then a random interleaving of the remaining units
        up = [u for u in us if u and u[0] in sum(levels.values(), [])]
        for u in up:
            loop.extend(u)
            us.remove(u)
    while any(us):
        u = rng.choice([q for q in us if q])
        loop.append(u.pop(0))
    ro = {}
    if rng.random() < 0.6:
        restA = [r for r in a_ranks if r not in fr]
        ro["A"] = restA + fr if rng.random() < 0.5 else fr + restA
    return _y(decl, [expr], ro, {"Z": parts}, {"Z": loop})


def gen_affine_mixed(rng):
    """Convolution-like Einsums with plain ranks next to the index-math ranks."""
    form = rng.choice(["1d", "1d_m", "2d", "stride", "2term", "2term_take"])
    if form == "1d":
        decl = {"I": ["W"], "F": ["S"], "O": ["Q"]}
        expr = "O[q] = I[q + s] * F[s]"
        loop = ["Q", "S"]
    elif form == "1d_m":
        decl = {"I": ["M", "W"], "F": ["S", "N"], "O": ["M", "N", "Q"]}
        expr = "O[m, n, q] = I[m, q + s] * F[s, n]"
        loop = ["M", "N", "Q", "S"]
    elif form == "2d":
        decl = {"I": ["H", "W"], "F": ["R", "S"], "O": ["P", "Q"]}
        expr = "O[p, q] = I[p + r, q + s] * F[r, s]"
        loop = ["P", "Q", "R", "S"]
    elif form == "2term":
        decl = {"I": ["W"], "F": ["S"], "J": ["W"], "G": ["S"], "O": ["Q"]}
        expr = "O[q] = I[q + s] * F[s] + J[q + s] * G[s]"
        loop = ["Q", "S"]
    elif form == "2term_take":
        decl = {"I": ["M", "W"], "F": ["S"], "J": ["W"], "G": ["M", "S"], "O": ["M", "Q"]}
        expr = "O[m, q] = I[m, q + s] * F[s] + take(J[q + s], G[m, s], %d)" % rng.randint(0, 1)
        loop = ["M", "Q", "S"]
    else:
        decl = {"I": ["C", "W"], "F": ["C", "S"], "O": ["Q"]}
        expr = "O[q] = I[c, 2 * q + s] * F[c, s]"
        loop = ["Q", "C", "S"]
    rng.shuffle(loop)
    parts = None
    if rng.random() < 0.4 and not form.startswith("2term"):
        depth = rng.choice([1, 1, 2])
        parts = {"O": {"Q": ["uniform_shape(%d)" % s for s in [6, 3][:depth]], "W": ["follow(Q)"]}}
        lv = ["Q%d" % i for i in range(depth, -1, -1)]
        i = loop.index("Q")
        loop[i:i + 1] = lv
    return _y(decl, [expr], None, parts, {"O": loop})


def gen_stack_base(rng):
    """Deep legal stacks: shape levels, then occupancy levels."""
    decl = {"A": ["K", "M"], "B": ["K", "N"], "Z": ["M", "N"]}
    expr = "Z[m, n] = A[k, m] * B[k, n]"
    r = rng.choice(["K", "M", "N"])
    ld = {"K": rng.choice(["A", "B"]), "M": "A", "N": "B"}[r]
    ns = rng.randint(0, 2)
    no = rng.randint(0 if ns else 1, 2)
    ds = []
    for i in range(ns):
        ds.append(rng.choice(["uniform_shape(%d)" % (12 >> i), "nway_shape(%d)" % (2 + i), "uniform_shape(%sS%d)" % (r, i)]))
    for i in range(no):
        ds.append("uniform_occupancy(%s.%d)" % (ld, 6 >> i))
    lv = ["%s%d" % (r, i) for i in range(len(ds), -1, -1)]
    others = [x for x in ["M", "N", "K"] if x != r]
    rng.shuffle(others)
    loop = list(lv)
    for o in others:
        loop.insert(rng.randint(0, len(loop)), o)
    parts = {"Z": {r: ds}}
    if rng.random() < 0.3:
        o = others[0]
        parts["Z"][o] = ["uniform_shape(4)"]
        i = loop.index(o)
        loop[i:i + 1] = [o + "1", o + "0"]
    return _y(decl, [expr], None, parts, {"Z": loop})
