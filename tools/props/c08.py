"""C08 - emission-order nondeterminism is benign.

What the model cannot exhibit: CPython's hash-seeded iteration order itself; the check samples
it (worker processes started with N different PYTHONHASHSEEDs).  Per specification every
DISTINCT emitted text is (a) passed through the verified closedness checker of C06 (theorem
C06_da_block_sound applies to each variant) and (b) executed in coqc on identical inputs: all
variants must compute the oracle's tensors.  Within one process, compiling the same parsed
objects twice must give identical text."""
import json
import os
import subprocess
import sys
import tempfile

import vlib
import runlib
import execlib
import popgen
import specgen_metrics
from props import c06
from props.c06 import partition_info

LEVEL = "translation_validation"


def compile_under_seeds(items, seeds):
    d = tempfile.mkdtemp(prefix="c08_", dir=vlib.GENDIR if os.path.isdir(vlib.GENDIR) else None)
    inp = os.path.join(d, "in.json")
    json.dump([{"yaml": it["yaml"], "arch": it.get("arch", False)} for it in items], open(inp, "w"))
    procs = []
    for s in seeds:
        env = dict(os.environ)
        env["PYTHONHASHSEED"] = str(s % 1000)
        if s >= 1000:
            env["VERIF_PERMSET"] = str(s // 1000)      # seed 1000*k + h: hash seed h, adversarial set order k
        out = os.path.join(d, "out_%d.json" % s)
        procs.append((s, out, subprocess.Popen([sys.executable, os.path.join(vlib.VERIF, "tools", "seedworker.py"), inp, out], env=env,
                                               stdout=subprocess.PIPE, stderr=subprocess.STDOUT)))
    res = {}
    for s, out, p in procs:
        log = p.communicate()[0]
        if p.returncode != 0:
            raise RuntimeError("seed worker %d failed: %s" % (s, log[-500:]))
        res[s] = json.load(open(out))
    import shutil
    shutil.rmtree(d, ignore_errors=True)
    return res


def run(ctx):
    rng = ctx.rng
    q = ctx.quick()
    os.makedirs(vlib.GENDIR, exist_ok=True)
    items = []
    items += list(popgen.shape(rng, 50 if q else 400))
    items += list(popgen.occupancy(rng, 70 if q else 500))
    items += list(popgen.cascade(rng, 20 if q else 150))
    items += list(popgen.affine(rng, 40 if q else 300))        # index math: follow() directives, projections
    # several partitioned ranks per tensor (shape beneath / above occupancy stacks with a leader per level, flatten, renamed
    # ranks): the sets of partitionings then have several elements, whose iteration order matters
    import specgen_wide
    items += list(specgen_wide.wide_items(rng, 60 if q else 400))
    # two flattenings of one tensor (declared ranks / bottom levels of shape-split ranks), in different partitioning waves
    items += list(specgen_wide.wide_items(rng, 50 if q else 300, max_ranks=4, flatten_p=1.0, second_flatten_p=0.85, shape_p=0.6))
    items += popgen.accelerators()
    for _ in range(50 if q else 400):
        y, meta = specgen_metrics.gen(rng)
        items.append({"yaml": y, "kind": "generated-metrics", "arch": True, "syms": {}})
    # hash seeds, plus forced pseudo-random iteration orders of the compiler's sets (tools/seedworker.py VERIF_PERMSET)
    seeds = list(range(6 if q else 24)) + [1000 * k for k in range(1, 5 if q else 17)]
    res = compile_under_seeds(items, seeds)
    cases = []
    da_items = []
    stats = {"specs": 0, "specs_with_variants": 0, "max_variants": 0, "distinct_texts": 0, "rejected": 0, "by_kind": {}}
    bad = 0
    for i, it in enumerate(items):
        outs = [res[s][i] for s in seeds]
        if any("error" in o for o in outs):
            if not all("error" in o for o in outs):
                bad += 1
                ctx.violation({"kind": "seed-dependent-rejection"}, "the specification compiles under some hash seeds and fails under others: %s" % [o.get("error") for o in outs],
                              {"yaml": it["yaml"], "outcomes": [o.get("error", "ok") for o in outs]})
            else:
                stats["rejected"] += 1
            continue
        if not all(o["twice_equal"] for o in outs):
            bad += 1
            errs = [o.get("second_error") for o in outs if o.get("second_error")]
            ctx.violation({"kind": "recompile-differs"}, "compiling the same parsed specification twice in one process gives different text"
                          + (" (the second compilation fails: %s)" % errs[0] if errs else ""),
                          {"yaml": it["yaml"], "seeds": [s for s, o in zip(seeds, outs) if not o["twice_equal"]], "second_errors": errs[:3]})
            continue
        texts = []
        for o in outs:
            if o["text"] not in texts:
                texts.append(o["text"])
        stats["specs"] += 1
        kind = it["kind"].split(":")[0]
        stats["by_kind"][kind] = stats["by_kind"].get(kind, 0) + 1
        stats["distinct_texts"] += len(texts)
        stats["max_variants"] = max(stats["max_variants"], len(texts))
        if len(texts) > 1:
            stats["specs_with_variants"] += 1
        spec = runlib.Spec(it["yaml"])
        syms = dict(it.get("syms") or {})
        for k in partition_info(spec)[0]:
            syms.setdefault(k, rng.randint(1, 4))
        ext = runlib.default_extents(spec, rng, 1, 5)
        data, scal = runlib.gen_inputs(spec, ext, rng, density=rng.choice([1.0, 0.6]))
        for j, t in enumerate(texts):
            c = execlib.Case(spec, t, ext, data, scal, extra_ints=syms, meta={"kind": it["kind"], "variant": j, "nvariants": len(texts), "spec_index": i})
            cases.append(c)
            da_items.append((it["kind"], spec, syms, t, {"mapping": it.get("mapping")}))
    execlib.evaluate(cases, "c08")
    # index-math specifications carry C04's known defects under EVERY order: for them the property is judged by comparing the
    # variants with each other (identical outcome), not with the oracle
    by_spec = {}
    for c in cases:
        by_spec.setdefault(c.meta["spec_index"], []).append(c)
    relative = set()
    for i, cs in by_spec.items():
        if cs[0].meta["kind"].startswith("affine"):
            relative.add(i)
            outs_ = set(getattr(c, "raw", str(c.result)) for c in cs)
            if len(outs_) > 1:
                bad += 1
                ctx.violation({"kind": "variants-differ", "nvariants": True},
                              "texts emitted for one index-math specification under different iteration orders behave differently: %s" % sorted(outs_)[:3],
                              cs[0].replay())
    for c in cases:
        r = c.result
        if c.meta["spec_index"] in relative:
            continue
        if r["status"] == "RAN" and r["out"] == "OK" and r["inp"] == "OK":
            continue
        bad += 1
        key = {"kind": "variant-wrong", "nvariants": c.meta["nvariants"] > 1}
        ctx.violation(key, "a text emitted under some hash seed computes %s (variant %d of %d)" % (
            getattr(c, "raw", r)[:200] if isinstance(getattr(c, "raw", ""), str) else r, c.meta["variant"], c.meta["nvariants"]), c.replay())
    da = c06.analyse(ctx, da_items, "c08da")
    da_by_yaml = {}
    for (label, spec, syms, text, meta), r in da:
        if label.startswith("affine"):
            da_by_yaml.setdefault(spec.yaml, set()).add(r)
    for (label, spec, syms, text, meta), r in da:
        if r == "OK":
            continue
        if label.startswith("affine"):
            if len(da_by_yaml[spec.yaml]) > 1:
                bad += 1
                ctx.violation({"kind": "variants-differ-closedness"}, "closedness of the texts of one index-math specification depends on the iteration order: %s"
                              % sorted(da_by_yaml[spec.yaml]), {"yaml": spec.yaml, "text": text, "result": r})
                da_by_yaml[spec.yaml] = set([r])
            continue
        bad += 1
        key = {"kind": "variant-not-closed"}
        if r.startswith("UNBOUND:"):
            key.update(c06.unbound_flags(r[8:], text, spec))
        ctx.violation(key, "a text emitted under some hash seed is not closed: %s" % r, {"yaml": spec.yaml, "text": text, "result": r})
    ctx.coverage.update({
        "programs": stats["distinct_texts"], "executions": len(cases), "disagreements_checked": bad, "evaluations": len(cases) + len(da),
        "distinct_nontrivial": stats["distinct_texts"], "population": stats, "hash_seeds": seeds,
        "rule": "shape-partitioned, occupancy/flatten, cascade, accelerator and generated metrics specifications compiled in worker processes under PYTHONHASHSEED 0..5 (quick) / 0..23 and under 4 / 16 forced pseudo-random iteration orders of every set the compiler builds with set(); "
                "every distinct text per specification is checked by the verified da checker and executed on identical inputs; each process also compiles every specification twice",
        "samples": [{"kind": c.meta, "result": c.raw} for c in cases if c.meta["nvariants"] > 1][:3] or [{"kind": cases[0].meta, "result": cases[0].raw}],
        "trusted_base": ["Coq 8.16.1 kernel + VM", "Model/Rt.v + Model/Interp.v", "tools/py2coq.py", "Model/Closed.v da (proved sound and complete)", "sampling of hash seeds (not exhaustive over iteration orders)"],
    })
    ctx.assumptions += ["iteration orders of CPython sets/dicts/networkx are sampled through the hash seed, not enumerated; the order-independence theorems are those of C10 (any topological order) and C06 (per variant)"]


def replay(ctx, rep):
    """Recompile the specification under the hash seeds and re-run every distinct text on the recorded inputs."""
    r = rep["replay"]
    it = {"yaml": r["yaml"], "arch": (r.get("meta") or {}).get("kind", "").startswith(("generated-metrics", "accel"))}
    seeds = list(range(6)) + [1000 * k for k in range(1, 5)]
    res = compile_under_seeds([it], seeds)
    outs = [res[s][0] for s in seeds]
    print("outcomes per seed:", [o.get("error", "ok") for o in outs])
    if any("error" in o for o in outs):
        if not all("error" in o for o in outs):
            print("VIOLATION property=C08 replay=<given file>")
            return 1
        return 0
    texts = []
    for o in outs:
        if o["text"] not in texts:
            texts.append(o["text"])
    if "inputs" not in r:
        print("%d distinct texts; no recorded inputs to execute" % len(texts))
        return 0
    spec = runlib.Spec(r["yaml"])
    data = {t: {tuple(int(x) for x in k.split(",") if x != ""): v for k, v in d.items()} for t, d in r["inputs"].items()}
    cs = [execlib.Case(spec, t, r["extents"], data, r["scalars"], extra_ints=r.get("extra_ints")) for t in texts]
    execlib.evaluate(cs, "c08r")
    rc = 0
    for c in cs:
        print(c.text)
        print("result:", c.raw)
        if not c.raw.startswith("RAN;OK;OK"):
            rc = 1
    if rc:
        print("VIOLATION property=C08 replay=<given file>")
    return rc
