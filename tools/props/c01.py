"""C01 - the generated loop nest computes the Einsum for every loop order and rank order.

Theorem: Props/C01.v (core induction nest_sound, unbounded in loop order, terms, inputs).
Tie: every specification of a generated population of plain Einsums (products, sums,
take(), scalars, rank-0 tensors, reductions) x random loop orders x random rank orders is
compiled by the CURRENT tree; the emitted text is translated (fail-closed) and executed
inside coqc (Model/Interp.v over Model/Rt.v) on several generated inputs; the final
output tensor is compared with the dense oracle Model/Einsum.v denote."""
import random

import vlib
import specgen
import runlib
import execlib

LEVEL = "translation_validation"


def population(ctx):
    n = 260 if ctx.quick() else 2500
    specs = []
    rng = ctx.rng
    for i in range(n):
        big = (not ctx.quick()) and rng.random() < 0.4
        es = specgen.gen_plain_einsum(rng, max_ranks=4 if big else 3, max_terms=3 if big else 2,
                                      max_factors=3 if big else 2, out_only_p=0.1)
        mp = specgen.random_mapping(rng, es)
        specs.append((specgen.yaml_of(es["decl"], [es["expr"]], mp), es["shape"]))
    return specs


def make_cases(ctx, specs, n_inputs):
    cases = []
    stats = {"compiled": 0, "compile_errors": {}, "shapes": {"take": 0, "multi_term": 0, "scalar": 0, "rank0": 0}}
    for y, shape in specs:
        try:
            spec = runlib.Spec(y)
            text = spec.compile()
        except Exception as e:
            k = type(e).__name__ + ": " + str(e)[:60]
            stats["compile_errors"][k] = stats["compile_errors"].get(k, 0) + 1
            continue
        stats["compiled"] += 1
        for k in ("take", "scalar", "rank0"):
            if shape[k]:
                stats["shapes"][k] += 1
        if shape["terms"] > 1:
            stats["shapes"]["multi_term"] += 1
        for j in range(n_inputs):
            ext = runlib.default_extents(spec, ctx.rng, 1, 4)
            dens = ctx.rng.choice([1.0, 0.6, 0.6, 0.3])
            data, scal = runlib.gen_inputs(spec, ext, ctx.rng, density=dens)
            cases.append(execlib.Case(spec, text, ext, data, scal, meta={"shape": shape}))
    return cases, stats


def classify(ctx, c):
    """-> None if fine, else reports the violation."""
    r = c.result
    st = c.spec.structs[0]
    f7 = specgen.take_selected_lacks_rank(st)
    key = {"kind": "wrong-result", "take_in_sum_selected_lacks_rank": f7}
    if r["status"] == "RAN":
        if r["out"] == "OK":
            return False
        ctx.violation(key, "emitted program computes a wrong output for `%s`: %s" % (
            c.spec.einsum.get_expressions() and c.spec.yaml.split("expressions:")[1].split("mapping:")[0].strip(), r["out"][:300]),
            c.replay())
        return True
    key = {"kind": "execution-error", "error": r.get("err", r["status"])[:40]}
    ctx.violation(key, "emitted program cannot be executed on the modelled runtime: %s" % r, c.replay())
    return True


def certify(ctx, cases, stats, allow_partition=False):
    """T-val: evaluate the certified validator nest_okb on the structure read off every plain program."""
    import nestview
    from vlib import cstr, clist
    seen = set()
    exprs, who = [], []
    stats["tval"] = {"certified": 0, "not_a_plain_nest": {}, "validator_rejected": 0, "validator": {}}
    for c in cases:
        if c.text in seen:
            continue
        seen.add(c.text)
        try:
            if allow_partition:
                L, shape, views, acc, lv, outr, sels, part = nestview.extract(c.spec, c.text, allow_partition=True)
                c.part = part
            else:
                L, shape, views, acc, lv, outr, sels = nestview.extract(c.spec, c.text)
        except nestview.NotANest as e:
            k = " ".join(str(e).split(" ")[:2 if allow_partition else 1])
            stats["tval"]["not_a_plain_nest"][k] = stats["tval"]["not_a_plain_nest"].get(k, 0) + 1
            continue
        cl = clist(map(cstr, L))
        csh = clist(clist(clist(map(cstr, rs)) for rs in tm) for tm in shape)
        cv = clist("(%s, %s)" % (cstr(r), clist(clist("%d%%nat" % i for i in p) for p in per)) for r, per in views)
        clv = clist(clist("%d%%nat" % i for i in ps) for ps in lv)
        cacc, cout = "true" if acc else "false", clist(map(cstr, outr))
        csel = lambda x: "None" if x is None else "(Some %d%%nat)" % x
        if all(x is None for x in sels):
            exprs.append("(show_bool (nest_full_okb %s %s %s %s %s %s))" % (cl, csh, cv, cacc, clv, cout))
            stats["tval"]["validator"]["nest_full_okb"] = stats["tval"]["validator"].get("nest_full_okb", 0) + 1
        elif len(sels) == 1:
            ctsh = clist(clist(map(cstr, rs)) for rs in shape[0])
            exprs.append("(show_bool (nest_take1_full_okb %s %s %s %s %s %s %s))" % (cl, ctsh, cv, csel(sels[0]), cacc, clv, cout))
            stats["tval"]["validator"]["nest_take1_full_okb"] = stats["tval"]["validator"].get("nest_take1_full_okb", 0) + 1
        else:
            exprs.append("(show_bool (nest_take_full_okb %s %s %s %s %s %s %s))" % (cl, csh, cv, clist(map(csel, sels)), cacc, clv, cout))
            stats["tval"]["validator"]["nest_take_full_okb"] = stats["tval"]["validator"].get("nest_take_full_okb", 0) + 1
        who.append((c, L, shape, {"views": views, "accumulates": acc, "leaf": lv, "out": outr, "selectors": sels}))
    res = vlib.coq_eval_lines("c01v", ["TV.Model.Show", "TV.Model.Nest", "TV.Model.NestTake"], "", exprs)
    for (c, L, shape, views), r in zip(who, res):
        if r == "T":
            stats["tval"]["certified"] += 1
            c.certified = True
        else:
            stats["tval"]["validator_rejected"] += 1
            c.certified = False
            c.nest = {"L": L, "shape": shape, "views": views}
    return who


def affine_cases(ctx, stats):
    """Unpartitioned Einsums with affine index expressions (O[q] = I[a*q+b*s]*F[s] and variants with further operands,
    two tensors read through the same expression, sums of convolutions) under any loop order; keyed like C04."""
    from props import c04
    rng = ctx.rng
    out = []
    stats["affine"] = 0
    total = 130 if ctx.quick() else 900
    for i in range(total):
        if i % 3 == 0:
            # several projections co-iterated in one loop: two tensors through the same access, sums of convolutions
            es = specgen.gen_affine_einsum(rng, two_d_p=0.0, extra_p=0.1, same_p=0.5, sum_p=0.35, single_p=0.0)
        else:
            es = specgen.gen_affine_einsum(rng, same_p=0.2, sum_p=0.15)
        mp, kind, syms = specgen.affine_mapping(rng, es, part_p=0.0)
        try:
            spec = runlib.Spec(specgen.yaml_of(es["decl"], [es["expr"]], mp))
            text = spec.compile()
        except Exception as e:
            k = type(e).__name__ + ": " + str(e)[:60]
            stats["compile_errors"][k] = stats["compile_errors"].get(k, 0) + 1
            continue
        stats["affine"] += 1
        for j in range(2 if ctx.quick() else 3):
            ext = specgen.affine_extents(rng, es)
            data, scal = runlib.gen_inputs(spec, ext, rng, density=rng.choice([1.0, 0.8, 0.5]))
            out.append(execlib.Case(spec, text, ext, data, scal, extra_ints=syms,
                                    meta={"affine": True, "flags": c04.flags_of(text, mp, es["out"]), "shape": es["shape"]}))
    return out


def flatten_cases(ctx, stats):
    """Product Einsums whose mapping only flattens two ranks of one tensor (often an output rank with a reduced rank) - the
    mapping changes the schedule only."""
    rng = ctx.rng
    out = []
    stats["flatten_only"] = 0
    for _ in range(50 if ctx.quick() else 500):
        es = specgen.gen_product_einsum(rng)
        mp = specgen.flatten_only_mapping(rng, es)
        if mp is None:
            continue
        try:
            spec = runlib.Spec(specgen.yaml_of(es["decl"], [es["expr"]], mp))
            text = spec.compile()
        except Exception as e:
            k = type(e).__name__ + ": " + str(e)[:60]
            stats["compile_errors"][k] = stats["compile_errors"].get(k, 0) + 1
            continue
        stats["flatten_only"] += 1
        for j in range(2):
            ext = runlib.default_extents(spec, rng, 1, 4)
            data, scal = runlib.gen_inputs(spec, ext, rng, density=rng.choice([1.0, 0.6]))
            out.append(execlib.Case(spec, text, ext, data, scal, meta={"flatten_only": True, "shape": es["shape"]}))
    return out


def reassign_cases(ctx, stats):
    """A tensor that is written, read, written again and read again (T = A*B; S = sum T; T = A+B; R = sum T) with random
    declared orders, so that the reads need the same swizzle twice: every Einsum must be computed from the CURRENT tensor."""
    rng = ctx.rng
    out = []
    stats["reassigned"] = 0
    for _ in range(24 if ctx.quick() else 200):
        r1, r2 = rng.sample(specgen.RANK_POOL, 2)
        a, b = r1.lower(), r2.lower()
        ord_ = lambda: rng.sample([r1, r2], 2)
        decl = {"A": ord_(), "B": ord_(), "T": ord_(), "S": [rng.choice([r1, r2])], "R": [rng.choice([r1, r2])]}
        idx = lambda t: "[" + ", ".join(x.lower() for x in decl[t]) + "]"
        ops = [rng.choice(["*", "+"]), rng.choice(["*", "+"])]
        if ops[0] == ops[1] == "*":
            ops[1] = "+"
        exprs = ["T%s = A%s %s B%s" % (idx("T"), idx("A"), ops[0], idx("B")), "S%s = T%s" % (idx("S"), idx("T")),
                 "T%s = A%s %s B%s" % (idx("T"), idx("A"), ops[1], idx("B")), "R%s = T%s" % (idx("R"), idx("T"))]
        if rng.random() < 0.5:
            exprs[3] = "R%s = T%s * A%s" % (idx("R"), idx("T"), idx("A"))
        try:
            spec = runlib.Spec(specgen.yaml_of(decl, exprs, {}))
            text = spec.compile()
        except Exception as e:
            k = type(e).__name__ + ": " + str(e)[:60]
            stats["compile_errors"][k] = stats["compile_errors"].get(k, 0) + 1
            continue
        stats["reassigned"] += 1
        for j in range(2):
            ext = runlib.default_extents(spec, rng, 2, 4)
            data, scal = runlib.gen_inputs(spec, ext, rng, density=rng.choice([1.0, 0.6]))
            out.append(execlib.Case(spec, text, ext, data, scal, meta={"reassigned": True, "shape": {"terms": 1, "take": 0, "scalar": 0, "rank0": 0}}))
    return out


def hardware_cases(ctx, stats):
    """The same product Einsums compiled WITH an architecture binding a leader-follower / two-finger / skip-ahead intersector
    on a co-iterated rank (tools/specgen_hw.wrap_single): the loop nest must still compute the Einsum.  Executed against the
    oracle; the static payload-order condition of tools/patterns.py is evaluated as well."""
    import popgen
    import specgen_hw
    import patterns
    rng = ctx.rng
    out = []
    stats["hardware"] = 0
    for _ in range(110 if ctx.quick() else 800):
        es = specgen.gen_plain_einsum(rng, max_ranks=3, max_terms=1, max_factors=3, take_p=0.0, rank0_p=0.0)
        mp = specgen.random_mapping(rng, es)
        it = {"yaml": specgen.yaml_of(es["decl"], [es["expr"]], mp), "syms": {}, "kind": "plain", "es": es, "mapping": mp}
        w = specgen_hw.wrap_single(rng, it)
        if w is None:
            continue
        try:
            spec = runlib.Spec(w["yaml"])
            text = spec.compile(arch=True)
        except Exception as e:
            k = type(e).__name__ + ": " + str(e)[:60]
            stats["compile_errors"][k] = stats["compile_errors"].get(k, 0) + 1
            continue
        stats["hardware"] += 1
        lf = patterns.lf_payload_problems(text)
        for j in range(2 + (6 if lf else 0)):
            ext = runlib.default_extents(spec, rng, 1, 4)
            data, scal = runlib.gen_inputs(spec, ext, rng, density=rng.choice([1.0, 0.6]))
            out.append(execlib.Case(spec, text, ext, data, scal, meta={"hardware": True, "lf": lf, "shape": it["es"]["shape"]}))
    return out


def run(ctx):
    specs = population(ctx)
    cases, stats = make_cases(ctx, specs, 2 if ctx.quick() else 3)
    aff = affine_cases(ctx, stats)
    flat = flatten_cases(ctx, stats)
    hw = hardware_cases(ctx, stats)
    rea = reassign_cases(ctx, stats)
    execlib.evaluate(cases + aff + flat + hw + rea, "c01")
    for c in rea:
        if not (c.result["status"] == "RAN" and c.result["out"] == "OK"):
            ctx.violation({"kind": "wrong-result" if c.result["status"] == "RAN" else "execution-error", "reassigned_tensor": True},
                          "a specification that writes a tensor twice computes %s" % str(c.result)[:300], c.replay())
    seen_lf = set()
    for c in hw:
        ok = c.result["status"] == "RAN" and c.result["out"] == "OK"
        if not ok:
            ctx.violation({"kind": "wrong-result" if c.result["status"] == "RAN" else "execution-error", "hardware": True,
                           "error": str(c.result.get("err", ""))[:30]},
                          "the loop nest compiled with an architecture (intersector bound) does not compute the Einsum: %s" % str(c.result)[:300], c.replay())
        elif c.meta["lf"] and c.text not in seen_lf and all(d.result["status"] == "RAN" and d.result["out"] == "OK" for d in hw if d.text == c.text):
            seen_lf.add(c.text)
            ctx.violation({"kind": "lf-payload-order"}, "leader-follower payload pattern does not follow the argument order of Fiber.intersection: %s; "
                          "all sampled executions agree with the oracle" % str(c.meta["lf"][0])[:200], c.replay(), no_input=True)
    for c in flat:
        if not (c.result["status"] == "RAN" and c.result["out"] == "OK"):
            key = {"kind": "wrong-result" if c.result["status"] == "RAN" else "execution-error", "flatten_only": True}
            ctx.violation(key, "a mapping that only flattens two ranks changes the result: %s" % str(c.result)[:300], c.replay())
    from props import c04
    for c in aff:
        if not (c.result["status"] == "RAN" and c.result["out"] == "OK"):
            key, what = c04.key_of(c)
            ctx.violation(key, what, c.replay())
    who = certify(ctx, cases, stats)
    # a program the validator rejects is a broken proof obligation: its executions are the failing-input search
    rejected = {id(c): c for c, _, _, _ in who if not c.certified}
    for c in rejected.values():
        same = [d for d in cases if d.text == c.text]
        if all(d.result["status"] == "RAN" and d.result["out"] == "OK" for d in same):
            ctx.violation({"kind": "validator-rejected", "take_in_sum_selected_lacks_rank": specgen.take_selected_lacks_rank(c.spec.structs[0])},
                          "the certified validator (nest_full_okb / nest_take_full_okb / nest_take1_full_okb) rejects the loop nest / update statement read off the emitted program (theorems C01_nest*_full_okb_sound_partial no longer cover it); "
                          "executions on %d inputs agree with the oracle" % len(same),
                          dict(c.replay(), nest=c.nest, theorem="C01_nest_full_okb_sound_partial"), no_input=True)
    bad = 0
    for c in cases:
        if classify(ctx, c):
            bad += 1
    distinct = len(set(c.text for c in cases))
    ctx.coverage.update({
        "programs": distinct,
        "executions": len(cases),
        "disagreements_checked": bad,
        "evaluations": len(cases),
        "distinct_nontrivial": distinct,
        "population": stats, "obligations_note": "programs certified by nest_okb: %d" % stats["tval"]["certified"],
        "rule": "(plus unpartitioned index-math Einsums, any loop order) random plain Einsums (1-3/4 ranks, 1-2/3 terms, 1-2/3 factors, take(), scalars, rank-0 tensors, any output sub-list) x random rank orders x "
                "random loop orders; each distinct emitted program executed in coqc on 2-3 random sparse inputs (extents 1-4, densities 1/.6/.3); "
                "non-trivial = distinct emitted text",
        "samples": [{"yaml": cases[i].spec.yaml, "extents": cases[i].extents, "result": cases[i].raw} for i in (0, len(cases) // 2)],
        "trusted_base": ["Coq 8.16.1 kernel + VM", "Model/Rt.v (modelled fibertree runtime) and Model/Interp.v", "tools/py2coq.py (fail-closed translator)",
                         "Model/Einsum.v dense oracle", "CPython ast.parse"],
    })
    ctx.assumptions += ["fibertree is absent from the sandbox: its semantics is the model Model/Rt.v",
                        "rank-0 input tensors are non-zero (zero-valued rank-0 take operands: finding F7b, reported separately)"]


def replay(ctx, rep):
    r = rep["replay"]
    spec = runlib.Spec(r["yaml"])
    text = spec.compile()
    data = {t: {tuple(int(x) for x in k.split(",") if x != ""): v for k, v in d.items()} for t, d in r["inputs"].items()}
    c = execlib.Case(spec, text, r["extents"], data, r["scalars"])
    execlib.evaluate([c], "c01r")
    print(text)
    print("inputs:", data, "extents:", r["extents"])
    print("result:", c.raw)
    if c.result["status"] != "RAN" or c.result["out"] != "OK":
        print("VIOLATION property=C01 replay=<given file>")
        return 1
    return 0
