"""C14 - execution time is the bottleneck-per-block roll-up of component times.

Theorems (coq/Props/C14.v, all closed under the global context): Collector.__build_time, modelled literally,
denotes SUM_blocks MAX_active-components SUM_Einsums time (any commutative-associative add/max, all inputs)
and holds every registered (Einsum, component) time as a leaf exactly as often as registered; the validator
time_okb is sound for ANY expression; NAME[0..N] declares N+1 instances; divisor = frequency (bandwidth) x
instances of the declaring level of the Einsum's configuration.

Tie (re-established on every run, on /repo's current tree): a seeded population of cascades (1-4 Einsums) over
generated multi-configuration architectures (DRAM / cache / buffets / intersectors / compute / sequencer /
merger, nested NAME[0..N] levels, names shared or not between configurations) plus the accelerator YAMLs is
compiled by the real HiFiber; the straight-line dump of every emitted program is translated (fail-closed) and
handed to the kernel together with the specification's own view (tools/specgen_time.features):
  T-val   time_okb(expression of metrics["time"]; blocks recomputed from the specification by Model/Fusion.v;
          the components that received a ["time"] in each section)                       [verified validator]
  T-val   each-once: leaves of the expression = the ["time"] assignments, no duplicates
  T-eq    the expression equals Model/Time.v build_time (recorded; a legal rewrite is not an alarm)
  T-eq    registrations: ["time"] assignments of a section = timed components recomputed from the bindings
          = Fusion.get_components(e) of the real object; blocks = Fusion.get_blocks() = metrics["blocks"]
  T-ref   the dump is EXECUTED by Model/Time.v drun on stand-in runtime counts (distinct primes, and one
          dominating count per component in turn); every metrics[e][c]["time"] must equal
          count(e, c) / (frequency-or-bandwidth x instances) with the divisor recomputed by the Gallina model
          from the raw level names, and metrics["time"] must equal the independent roll-up
  T-eq    Model/Time.v parse_level against teaal.parse.Architecture on level-name strings (incl. near misses)
"""
import ast
import copy
import glob
import json
import os
import re

import vlib
from vlib import cstr, cz, clist, cpair
import specgen_time as sgt

LEVEL = "proof"

PRIMES = []


def _primes(n):
    global PRIMES
    if len(PRIMES) < n:
        k = max(n * 20, 2000)
        sieve = bytearray([1]) * k
        sieve[0:2] = b"\0\0"
        for i in range(2, int(k ** 0.5) + 1):
            if sieve[i]:
                sieve[i * i::i] = bytearray(len(sieve[i * i::i]))
        PRIMES = [i for i in range(k) if sieve[i] and i > 10]
    return PRIMES[:n]


# ---------------------------------------------------------------------------------------------
# the real compiler
# ---------------------------------------------------------------------------------------------

def compile_yaml(y):
    from teaal.parse import Einsum, Mapping, Architecture, Bindings, Format
    from teaal.parse.yaml import YamlParser
    from teaal.trans.hifiber import HiFiber
    d = YamlParser.parse_str(y)          # read once (ruamel is the slow part); every parser gets its own copy
    h = HiFiber(Einsum(copy.deepcopy(d)), Mapping(copy.deepcopy(d)), Architecture(copy.deepcopy(d)),
                Bindings(copy.deepcopy(d)), Format(copy.deepcopy(d)))
    text = str(h)
    blocks = [list(b) for b in h.fusion.get_blocks()]
    reg = {e: list(cs) for e, cs in h.fusion.component_dict.items()}
    return text, blocks, reg


# ---------------------------------------------------------------------------------------------
# emitted text -> Model/Time.v dstmt (fail closed on anything that touches the metrics dictionary)
# ---------------------------------------------------------------------------------------------

class Untranslatable(Exception):
    pass


def _path(node, root):
    """metrics["a"]["b"] -> ["a", "b"] ; None when not rooted at Name(root)."""
    keys = []
    while isinstance(node, ast.Subscript):
        k = node.slice
        if not isinstance(k, ast.Constant):
            return None
        keys.append(k.value)
        node = node.value
    if isinstance(node, ast.Name) and node.id == root:
        return list(reversed(keys))
    return None


def _mentions(node, names):
    return any(isinstance(n, ast.Name) and n.id in names for n in ast.walk(node))


def mexp(node):
    if isinstance(node, ast.Constant):
        if isinstance(node.value, bool) or not isinstance(node.value, int):
            raise Untranslatable("constant %r" % (node.value,))
        return "(MInt %s)" % cz(node.value)
    if isinstance(node, ast.Dict) and not node.keys:
        return "MEmptyDict"
    if isinstance(node, ast.List):
        return "MOpaque"
    if isinstance(node, ast.BinOp) and isinstance(node.op, (ast.Add, ast.Div)):
        return "(%s %s %s)" % ("MAdd" if isinstance(node.op, ast.Add) else "MDiv", mexp(node.left), mexp(node.right))
    if isinstance(node, ast.Call) and isinstance(node.func, ast.Name) and node.func.id == "max" and not node.keywords:
        if len(node.args) < 2 or any(isinstance(a, ast.Starred) for a in node.args):
            raise Untranslatable("max with %d arguments" % len(node.args))
        acc = mexp(node.args[0])
        for a in node.args[1:]:
            acc = "(MMax %s %s)" % (acc, mexp(a))
        return acc
    if isinstance(node, ast.Subscript):
        p = _path(node, "metrics")
        if p is not None:
            if not all(isinstance(k, str) for k in p):
                raise Untranslatable("non-string key in " + ast.unparse(node))
            return "(MGet %s)" % clist(map(cstr, p))
        p = _path(node, "traffic")
        if p is not None:
            if len(p) == 3 and p[0] == 0 and isinstance(p[1], str) and p[2] in ("read", "write"):
                return "(MTraffic %s %s)" % (cstr(p[1]), cstr(p[2]))
            raise Untranslatable(ast.unparse(node))
        # Metrics.dump()["Compute"]["payload_mul"]
        keys = []
        n = node
        while isinstance(n, ast.Subscript) and isinstance(n.slice, ast.Constant) and isinstance(n.slice.value, str):
            keys.append(n.slice.value)
            n = n.value
        if (isinstance(n, ast.Call) and isinstance(n.func, ast.Attribute) and isinstance(n.func.value, ast.Name)
                and n.func.value.id == "Metrics" and n.func.attr == "dump" and not n.args and not n.keywords):
            return "(MStand %s)" % clist(map(cstr, reversed(keys)))
        raise Untranslatable(ast.unparse(node))
    if isinstance(node, ast.Call) and isinstance(node.func, ast.Attribute) and isinstance(node.func.value, ast.Name):
        obj, meth = node.func.value.id, node.func.attr
        if meth == "getNumIntersects" and not node.args:
            return "(MStand %s)" % clist([cstr("isect"), cstr(obj)])
        if obj == "Compute" and meth == "numSwaps" and node.args and isinstance(node.args[0], ast.Name):
            return "(MStand %s)" % clist([cstr("swaps"), cstr(node.args[0].id)])
        if obj == "Compute" and meth == "numIters" and len(node.args) == 1 and isinstance(node.args[0], ast.Constant):
            return "(MStand %s)" % clist([cstr("iters"), cstr(node.args[0].value)])
        # any other runtime query: an opaque value (harmless unless it flows into a time)
        return "(MStand %s)" % clist([cstr("unknown"), cstr(ast.unparse(node)[:60])])
    raise Untranslatable(ast.unparse(node)[:80])


def translate_dump(text):
    """-> (list of Coq dstmt terms, info dict)."""
    mod = ast.parse(text)
    out = []
    info = {"time_text": None, "blocks_literal": None, "n_time_assigns": 0}
    for st in mod.body:
        if isinstance(st, ast.Expr) and isinstance(st.value, ast.Call) and isinstance(st.value.func, ast.Attribute) \
                and isinstance(st.value.func.value, ast.Name) and st.value.func.value.id == "Metrics" \
                and st.value.func.attr == "beginCollect":
            a = st.value.args
            if len(a) != 1 or not isinstance(a[0], ast.Constant) or not isinstance(a[0].value, str):
                raise Untranslatable(ast.unparse(st))
            out.append("(DBegin %s)" % cstr(a[0].value))
            continue
        if isinstance(st, ast.Assign) and len(st.targets) == 1:
            tg = st.targets[0]
            if isinstance(tg, ast.Name) and tg.id == "metrics":
                if not (isinstance(st.value, ast.Dict) and not st.value.keys):
                    raise Untranslatable(ast.unparse(st))
                out.append("DReset")
                continue
            if isinstance(tg, ast.Name) and tg.id == "bindings":
                try:
                    val = ast.literal_eval(st.value)
                    ts = [b["tensor"] for b in val]
                except Exception:
                    raise Untranslatable(ast.unparse(st)[:80])
                out.append("(DBindings %s)" % clist(map(cstr, ts)))
                continue
            if isinstance(tg, ast.Name) and tg.id == "traffic":
                v = st.value
                if not (isinstance(v, ast.Call) and isinstance(v.func, ast.Attribute) and isinstance(v.func.value, ast.Name)
                        and v.func.value.id == "Traffic" and v.args and isinstance(v.args[0], ast.Name) and v.args[0].id == "bindings"):
                    raise Untranslatable(ast.unparse(st)[:80])
                out.append("(DTraffic %s)" % cstr(v.func.attr))
                continue
            p = _path(tg, "metrics")
            if p is not None:
                if not p or not all(isinstance(k, str) for k in p):
                    raise Untranslatable(ast.unparse(st)[:80])
                out.append("(DSet %s %s)" % (clist(map(cstr, p)), mexp(st.value)))
                if p == ["time"]:
                    info["time_text"] = ast.unparse(st.value)
                if p == ["blocks"]:
                    try:
                        info["blocks_literal"] = ast.literal_eval(st.value)
                    except Exception:
                        pass
                if len(p) == 3 and p[2] == "time":
                    info["n_time_assigns"] += 1
                continue
        if isinstance(st, ast.AugAssign):
            p = _path(st.target, "metrics")
            if p is not None:
                if not isinstance(st.op, ast.Add) or not all(isinstance(k, str) for k in p):
                    raise Untranslatable(ast.unparse(st)[:80])
                out.append("(DInc %s %s)" % (clist(map(cstr, p)), mexp(st.value)))
                continue
        # everything else must not touch the metrics dictionary or the traffic result
        if _mentions(st, {"metrics", "traffic"}):
            raise Untranslatable("statement touches metrics/traffic: " + ast.unparse(st)[:80])
    return out, info


# ---------------------------------------------------------------------------------------------
# specification -> Gallina terms
# ---------------------------------------------------------------------------------------------

def coq_level(tree):
    locs = []
    for c in tree["local"]:
        bw = c["attrs"].get("bandwidth", 0)
        locs.append("(mkC %s %s %s)" % (cstr(c["name"]), cstr(c["class"].lower()), cz(bw if isinstance(bw, int) else 0)))
    f = tree.get("freq")
    return "(Level %s %s %s %s)" % (cstr(tree["name"]), cz(f if isinstance(f, int) else 0), clist(locs),
                                    clist(coq_level(s) for s in tree["subtree"]))


def coq_arch(arch):
    return clist(cpair(cstr(c), coq_level(t)) for c, t in arch)


def coq_hist(feats):
    return clist("(mkE %s %s (temporal_prefix %s %s) %s)" % (
        cstr(f["name"]), cstr(f["config"]), clist(map(cstr, f["loop"])), clist(map(cstr, f["space"])),
        clist(map(cstr, f["fcomps"]))) for f in feats)


def coq_key(k):
    return clist(map(cstr, k))


def coq_espec(feats, keyname=None):
    ck = (lambda k: keyname[tuple(k)]) if keyname else coq_key
    return clist("(mkES %s %s %s %s)" % (
        cstr(f["name"]), cstr(f["config"]), cstr(f["prefix"]),
        clist(cpair(cstr(c), clist(map(ck, ks))) for c, ks in f["timed"])) for f in feats)


def all_keys(feats):
    ks = []
    for f in feats:
        for c, kk in f["timed"]:
            for k in kk:
                if k not in ks:
                    ks.append(k)
    return ks


def make_envs(feats, rng, n_dominant):
    """Stand-in counts: distinct primes in random order; then, per chosen (Einsum, component), the same
    with that component's counts multiplied by a large prime (it must then win its block's max)."""
    keys = all_keys(feats)
    ps = _primes(len(keys) + 4)
    perm = list(ps[:len(keys)])
    rng.shuffle(perm)
    base = dict((tuple(k), p) for k, p in zip(keys, perm))
    envs = [dict(base)]
    timed = [(f["name"], c, kk) for f in feats for c, kk in f["timed"] if kk]
    rng.shuffle(timed)
    for e, c, kk in timed[:n_dominant]:
        env = dict(base)
        for k in kk:
            env[tuple(k)] = env[tuple(k)] * 1000003
        envs.append(env)
    return envs


def coq_env(env):
    return clist(cpair(coq_key(list(k)), cz(v)) for k, v in env.items())


# ---------------------------------------------------------------------------------------------
# shipped accelerator YAMLs: raw architecture (level names as written) and configuration per Einsum
# ---------------------------------------------------------------------------------------------

def raw_spec_from_yaml(path):
    from ruamel.yaml import YAML
    with open(path) as f:
        d = YAML(typ="safe").load(f)

    def conv(t):
        attrs = t.get("attributes") or {}
        return {"name": t["name"], "freq": attrs.get("clock_frequency"),
                "local": [{"name": c["name"], "class": c["class"], "attrs": dict(c.get("attributes") or {})} for c in (t.get("local") or [])],
                "subtree": [conv(s) for s in (t.get("subtree") or [])]}
    arch = [(cfg, conv(trees[0])) for cfg, trees in d["architecture"].items()]
    feats = []
    exprs = d["einsum"]["expressions"]
    for ex in exprs:
        nm = ex.split("[")[0].strip()
        bs = d["bindings"][nm]
        cfg = [b for b in bs if "config" in b][0]
        feats.append({"name": nm, "config": cfg["config"], "prefix": cfg["prefix"], "loop": [], "space": [], "fcomps": [], "timed": []})
    return arch, feats


# ---------------------------------------------------------------------------------------------
# the check
# ---------------------------------------------------------------------------------------------

IMPORTS = ["TV.Model.Fusion", "TV.Model.Show", "TV.Model.Time"]


_LIT = re.compile(r'"(?:[^"]|"")*"%string')


def share_strings(expr):
    """Bind every distinct string literal once (`let sx3 := "Mem"%string in ...`): elaborating string
    literals dominates the kernel-side cost, and the dump repeats the same few names many times."""
    table = {}

    def sub(m):
        lit = m.group(0)
        if lit not in table:
            table[lit] = "sx%d" % len(table)
        return table[lit]
    body = _LIT.sub(sub, expr)
    return "(" + "".join("let %s := %s in " % (v, lit) for lit, v in table.items()) + body + ")"


class Case:
    def __init__(self, kind, yaml, S=None, path=None):
        self.kind, self.yaml, self.S, self.path = kind, yaml, S, path
        self.err = None


def build_case(c, rng, n_dominant):
    """Compile with the real code and prepare the Gallina expression. Sets c.expr or c.err."""
    try:
        c.text, c.blocks, c.reg = compile_yaml(c.yaml)
    except Exception as e:
        c.err = "%s: %s" % (type(e).__name__, str(e)[:60])
        return
    c.dump, c.info = translate_dump(c.text)
    if c.S is not None:
        c.feats = sgt.features(c.S)
        c.arch = c.S["arch"]
        blocks = "(get_blocks (frun %s))" % coq_hist(c.feats)
        c.envs = make_envs(c.feats, rng, n_dominant)
    else:
        c.arch, c.feats = raw_spec_from_yaml(c.path)
        blocks = clist(clist(map(cstr, b)) for b in c.blocks)
        c.envs = []
    # the count keys are bound once (K0, K1, ...) and shared by the specification and the environments
    keys = [tuple(k) for k in all_keys(c.feats)]
    keyname = {k: "K%d" % i for i, k in enumerate(keys)}
    lets = "".join("let K%d := %s in " % (i, coq_key(list(k))) for i, k in enumerate(keys))
    lets += "let KS : list skey := %s in " % clist(keyname[k] for k in keys)
    envs = clist("(combine KS %s)" % clist(cz(e[k]) for k in keys) for e in c.envs)
    c.expr = share_strings("(%sc14_report %s %s %s %s %s)" % (lets, coq_arch(c.arch), blocks, coq_espec(c.feats, keyname), clist(c.dump), envs))


def parse_report(r):
    f = r.split("#")
    assert len(f) == 7, r[:300]
    rep = {"model_blocks": [b.split(",") for b in f[0].split("|")] if f[0] else [],
           "shape_ok": f[1], "literal_eq": f[2], "each_once": f[3], "registered_ok": f[4], "assigns": [], "runs": []}
    for a in filter(None, f[5].split(";")):
        e, cname, kt, ks, kc = a.split(",")
        rep["assigns"].append({"einsum": e, "component": cname, "k_text": kt, "k_spec": ks, "k_code": kc})
    for run in filter(None, f[6].split("|")):
        g = run.split("@")
        d = {"status": g[0], "got": g[1], "exp_spec": g[2], "exp_code": g[3], "ctimes": []}
        for a in filter(None, g[4].split(";")):
            e, cname, oks, okc = a.split(",")
            d["ctimes"].append({"einsum": e, "component": cname, "ok_spec": oks, "ok_code": okc})
        rep["runs"].append(d)
    return rep


def judge(ctx, c, rep, stats):
    """Turn one kernel report into violations. Returns the number of disagreements."""
    bad = 0
    generated = c.S is not None
    names = [f["name"] for f in c.feats]
    conflicts = sgt.shared_name_conflicts(c.S) if generated else {}
    replay = {"kind": c.kind, "yaml": c.yaml, "S": c.S, "path": c.path, "time_text": c.info["time_text"], "report": rep}

    def viol(key, what, extra=None, no_input=False):
        nonlocal bad
        bad += 1
        r = dict(replay)
        if extra:
            r.update(extra)
        ctx.violation(key, what, r, no_input=no_input)

    # -- blocks: code = dump literal = model recomputed from the specification
    if c.info["blocks_literal"] is not None and c.info["blocks_literal"] != c.blocks:
        viol({"kind": "blocks-literal"}, "metrics[\"blocks\"] = %s but Fusion.get_blocks() = %s" % (c.info["blocks_literal"], c.blocks), no_input=True)
    if generated and rep["model_blocks"] != c.blocks:
        viol({"kind": "blocks-differ"}, "Fusion.get_blocks() = %s but the specification gives %s (property C13 decides which is right)" % (
            c.blocks, rep["model_blocks"]), no_input=True)
    # -- registrations: ["time"] assignments = Fusion.get_components = recomputed from the bindings
    text_reg = {}
    for a in rep["assigns"]:
        text_reg.setdefault(a["einsum"], []).append(a["component"])
    for e in names:
        if sorted(text_reg.get(e, [])) != sorted(c.reg.get(e, [])):
            viol({"kind": "registration", "einsum_named_reserved": e in ("time", "blocks")},
                 "Einsum %s: components that receive a [\"time\"] in the dump %s differ from the registered ones %s" % (
                     e, text_reg.get(e, []), c.reg.get(e, [])), no_input=True)
            break
    # -- the time expression
    first_run_err = rep["runs"] and rep["runs"][0]["status"].startswith("ERR")
    reserved = [n for n in names if n == "blocks"]
    if rep["shape_ok"] != "T" or rep["each_once"] != "T":
        # failing-input search: an execution whose value differs from the roll-up
        witness = None
        for i, run in enumerate(rep["runs"]):
            if run["status"] == "OK" and run["got"] != run["exp_code"]:
                witness = {"env": sorted(("/".join(k), v) for k, v in c.envs[i].items()), "got": run["got"], "expected": run["exp_code"]}
                break
        viol({"kind": "rollup-shape", "einsum_named_blocks": bool(reserved)},
             "metrics[\"time\"] = %s is not the roll-up of blocks %s over the timed components %s (validator %s, each-once %s)%s" % (
                 c.info["time_text"], rep["model_blocks"], text_reg, rep["shape_ok"], rep["each_once"],
                 "; e.g. counts %s give %s instead of %s" % (witness["env"][:6], witness["got"], witness["expected"]) if witness else ""),
             {"witness": witness}, no_input=witness is None)
    if rep["literal_eq"] == "T":
        stats["literal_model_matches"] += 1
    if generated and rep["registered_ok"] != "T":
        viol({"kind": "timed-components", "einsum_named_reserved": any(n in ("time", "blocks") for n in names)},
             "the components timed by the dump %s differ from the timed components of the specification %s" % (
                 text_reg, {f["name"]: [t[0] for t in f["timed"]] for f in c.feats}), no_input=True)
    # -- divisors (static): k of every  metrics[e][c]["time"] = X / k
    cfg_of = {f["name"]: f["config"] for f in c.feats}
    reported = set()
    for a in rep["assigns"]:
        stats["divisors_checked"] += 1
        if a["k_text"] == "-":
            stats["divisor_not_literal"] += 1
            continue
        if a["k_text"] != a["k_spec"]:
            shared = a["component"] in conflicts
            key = {"kind": "component-divisor", "observed": "text", "shared_name_conflict": shared, "code_model_agrees": a["k_text"] == a["k_code"]}
            sig = (shared, key["code_model_agrees"])
            if sig in reported:           # one report per kind and program; a known finding never hides another kind
                continue
            reported.add(sig)
            viol(key, "Einsum %s (configuration %s): time of %s divides by %s; frequency-or-bandwidth x instances of its level in that configuration is %s%s" % (
                a["einsum"], cfg_of.get(a["einsum"]), a["component"], a["k_text"], a["k_spec"],
                " (the name is declared in several configurations: %s)" % conflicts[a["component"]] if shared else ""),
                 {"assign": a})
    # -- executions
    f14_shaped = False
    for i, run in enumerate(rep["runs"]):
        stats["executions"] += 1
        if run["status"] != "OK":
            viol({"kind": "dump-execution-error", "einsum_named_blocks": bool(reserved)},
                 "executing the dump on stand-in counts fails: %s" % run["status"],
                 {"env": sorted(("/".join(k), v) for k, v in c.envs[i].items())})
            break
        wrong = [t for t in run["ctimes"] if t["ok_spec"] != "T"]
        if wrong:
            t = wrong[0]
            shared = all(x["component"] in conflicts for x in wrong)
            agrees = all(x["ok_code"] == "T" for x in wrong)
            f14_shaped = all(x["component"] in conflicts for x in wrong) and agrees
            viol({"kind": "component-divisor", "observed": "execution", "shared_name_conflict": shared, "code_model_agrees": agrees},
                 "Einsum %s: metrics[..][%s][\"time\"] is not count / (frequency-or-bandwidth x instances) for the stand-in counts" % (
                     t["einsum"], t["component"]),
                 {"env": sorted(("/".join(k), v) for k, v in c.envs[i].items()), "wrong": wrong})
        exp = run["exp_code"] if f14_shaped else run["exp_spec"]
        if run["got"] != exp:
            viol({"kind": "rollup-value", "shared_name_conflict": bool(conflicts)},
                 "metrics[\"time\"] = %s but the independent roll-up of the specification gives %s (blocks %s)" % (run["got"], exp, rep["model_blocks"]),
                 {"env": sorted(("/".join(k), v) for k, v in c.envs[i].items())})
        if wrong or run["got"] != exp:
            break
    return bad


LEVEL_NAMES = ["PE", "PE[0..7]", " PE [0.. 7 ] ", "PE[0..0]", "PE[0..299]", "PE[0..007]", "_x9[0..12]", "P_E[0..16383]",
               "PE[0 ..7]", "PE[1..7]", "PE[0..]", "PE[0..7", "PE[0..7]x", "P E", "9PE", "PE[0..-1]", "PE[0..7][0..2]", "PE[0...7]",
               "PE[0..4.5]", "PE[0..1e1]", "", "PE\t[0..3]", "pe[0..3 ]"]


def cstr_any(s):
    """Coq string literal for any ASCII string (tabs included)."""
    parts = []
    cur = ""
    for ch in s:
        if 32 <= ord(ch) < 127:
            cur += ch
        else:
            assert ord(ch) < 128, s
            if cur:
                parts.append(cstr(cur))
                cur = ""
            parts.append("(String (Ascii.ascii_of_nat %d) EmptyString)" % ord(ch))
    if cur or not parts:
        parts.append(cstr(cur))
    return "(" + " ++ ".join(parts) + ")%string"


def check_level_names(ctx, rng, stats):
    """T-eq: Model/Time.v parse_level against teaal.parse.Architecture."""
    from teaal.parse import Architecture
    names = list(LEVEL_NAMES)
    for _ in range(40):
        base = rng.choice(["PE", "Lane", "x", "A1_b", "Stage0to1"])
        n = rng.choice([0, 1, 9, 10, 99, 100, 255, 256, 1023, rng.randint(0, 99999)])
        names.append(rng.choice(["%s[0..%d]", "%s [0..%d]", "%s[0.. %d ]", " %s[0..%d] "]) % (base, n))
    exprs = []
    code = []
    for nm in names:
        try:
            y = {"architecture": {"C": [{"name": nm}]}}
            a = Architecture(y)
            t = a.get_spec()["architecture"]["C"][0]
            code.append("%s,%d" % (t["name"], t["num"]))
        except Exception:
            code.append("-")
        exprs.append("(match parse_level %s with Some (n, k) => (n ++ \",\" ++ show_Z k)%%string | None => \"-\" end)" % cstr_any(nm))
    def judge_names(res):
        for nm, a, b in zip(names, code, res):
            stats["level_names"] += 1
            if a != b:
                ctx.violation({"kind": "level-name"}, "level name %r: Architecture gives (name, instances) = %s, the model %s" % (nm, a, b),
                              {"level_name": nm, "code": a, "model": b})
    return exprs, judge_names


def population(ctx):
    rng = ctx.rng
    q = ctx.quick()
    cases = []
    repo = vlib.REPO
    for nm in ("gamma", "outerspace", "sigma", "extensor", "extensor-energy"):
        p = os.path.join(repo, "tests", "integration", nm + ".yaml")
        if os.path.exists(p):
            cases.append(Case("accelerator:" + nm, open(p).read(), None, p))
    # hand-written corner cases: the witness of theorem C14_shared_name_divisor_refuted, reserved Einsum names
    for nm in ("f14", "blocks", "time"):
        S = corner_case(nm)
        cases.append(Case("corner:" + nm, sgt.to_yaml(S), S))
    n = 150 if q else 1500
    for i in range(n):
        S = sgt.gen(rng, rich=True)
        cases.append(Case("generated", sgt.to_yaml(S), S))
    return cases


def corner_case(which):
    """Deterministic specifications: the F14 witness (theorem C14_shared_name_divisor_refuted) and Einsums
    named like the reserved keys of the metrics dictionary."""
    lvl = lambda n, f, bw: {"name": "System", "freq": f, "local": [{"name": "Mem", "class": "DRAM", "attrs": {"bandwidth": bw}}],
                            "subtree": [{"name": "PE[0..%d]" % (n - 1), "freq": None, "subtree": [], "local": [
                                {"name": "Buf", "class": "Buffet", "attrs": {"width": 64, "depth": 128}},
                                {"name": "Mul", "class": "compute", "attrs": {"type": "mul"}}]}]}
    second = {"f14": "Z", "blocks": "blocks", "time": "time"}[which]
    arch = [("P1", lvl(4, 1000, 512)), ("P2", lvl(8, 7, 4096))] if which == "f14" else [("P1", lvl(4, 1000, 512))]
    fA = {"rank-order": ["M", "K"], "M": {"format": "C", "pbits": 32}, "K": {"format": "C", "cbits": 32, "pbits": 64}}
    e1 = {"name": "T", "expr": "T[m, n] = A[k, m] * B[k, n]", "inputs": {"A": ["K", "M"], "B": ["K", "N"]}, "loop": ["M", "K", "N"],
          "space": [], "config": "P1", "prefix": "tmp/T", "tensors": {"A": ["K", "M"], "B": ["K", "N"], "T": ["M", "N"]},
          "bindings": [("Mem", [{"tensor": "A", "rank": "K", "type": "payload", "format": "fMK"}]),
                       ("Buf", [{"tensor": "A", "rank": "K", "type": "payload", "format": "fMK", "evict-on": "M"}]),
                       ("Mul", [{"op": "mul"}])]}
    e2 = {"name": second, "expr": "%s[m, n] = T[m, n] * A[k, m]" % second, "inputs": {"T": ["M", "N"], "A": ["K", "M"]},
          "loop": ["M", "N", "K"], "space": ["K"], "config": "P2" if which == "f14" else "P1", "prefix": "tmp/" + second,
          "tensors": {"A": ["K", "M"], "T": ["M", "N"], second: ["M", "N"]}, "bindings": [("Mul", [{"op": "mul"}])]}
    return {"decl": {"A": ["K", "M"], "B": ["K", "N"], "T": ["M", "N"], second: ["M", "N"]}, "einsums": [e1, e2],
            "formats": {"A": {"fMK": fA}}, "arch": arch, "shared_names": True}


def run(ctx):
    import time
    t0 = time.time()
    phases = {}
    rng = ctx.rng
    stats = {"literal_model_matches": 0, "divisors_checked": 0, "divisor_not_literal": 0, "executions": 0, "level_names": 0}
    lv_exprs, judge_names = check_level_names(ctx, rng, stats)
    cases = population(ctx)
    rejected = {}
    good = []
    for c in cases:
        try:
            build_case(c, rng, 2 if ctx.quick() else 4)
        except Untranslatable as e:
            ctx.violation({"kind": "dump-untranslatable"},
                          "the dump of an emitted program has a statement on the metrics dictionary outside the modelled fragment: %s" % e,
                          {"kind": c.kind, "yaml": c.yaml, "S": c.S, "path": c.path}, no_input=True)
            continue
        if c.err:
            rejected[c.err] = rejected.get(c.err, 0) + 1
            continue
        good.append(c)
    phases["compile_and_translate_s"] = round(time.time() - t0, 1)
    t0 = time.time()
    exprs = [c.expr for c in good] + lv_exprs
    res = vlib.coq_eval_lines("c14", IMPORTS, "", exprs, shard=min(24, max(10, -(-len(exprs) // 12))), big_stack=False)
    phases["kernel_evaluation_s"] = round(time.time() - t0, 1)
    judge_names(res[len(good):])
    res = res[:len(good)]
    n_bad = 0
    dist = {"einsums": {}, "configs": {}, "blocks": {}, "timed_per_einsum": {}, "classes": {}, "shared_name_conflicts": 0,
            "multi_einsum_blocks": 0, "single_component_blocks": 0, "empty_blocks": 0, "kinds": {}}

    def bump(d, k):
        d[k] = d.get(k, 0) + 1
    seen = set()
    samples = []
    for c, r in zip(good, res):
        rep = parse_report(r)
        n_bad += judge(ctx, c, rep, stats)
        bump(dist["kinds"], c.kind.split(":")[0])
        bump(dist["einsums"], len(c.feats))
        bump(dist["blocks"], len(c.blocks))
        seen.add(c.info["time_text"])
        if any(len(b) > 1 for b in c.blocks):
            dist["multi_einsum_blocks"] += 1
        for b in c.blocks:
            ncomp = len(set(x for e in b for x in c.reg.get(e, [])))
            if ncomp == 1:
                dist["single_component_blocks"] += 1
            if ncomp == 0:
                dist["empty_blocks"] += 1
        if c.S is not None:
            bump(dist["configs"], len(c.S["arch"]))
            if sgt.shared_name_conflicts(c.S):
                dist["shared_name_conflicts"] += 1
            for f in c.feats:
                bump(dist["timed_per_einsum"], len(f["timed"]))
            decl = {}
            for cfg, tr in c.S["arch"]:
                for d, _ in sgt.config_components(tr):
                    decl[d["name"]] = d["class"].lower()
            for f in c.feats:
                for t, _ in f["timed"]:
                    bump(dist["classes"], decl.get(t, "?"))
        if len(samples) < 3 and len(c.blocks) >= 2 and any(len(b) > 1 for b in c.blocks):
            samples.append({"kind": c.kind, "blocks": c.blocks, "registered": c.reg, "time": c.info["time_text"],
                            "report": {k: rep[k] for k in ("shape_ok", "literal_eq", "each_once", "registered_ok")},
                            "first_execution": rep["runs"][0] if rep["runs"] else None})
    ctx.coverage.update({
        "programs": len(good),
        "rejected_by_compiler": rejected,
        "disagreements_checked": n_bad,
        "evaluations": stats["executions"] + len(good) + stats["level_names"],
        "executions_on_standin_counts": stats["executions"],
        "component_time_divisors_checked": stats["divisors_checked"],
        "divisor_not_a_literal": stats["divisor_not_literal"],
        "level_name_strings_compared": stats["level_names"],
        "literal_model_matches": "%d/%d" % (stats["literal_model_matches"], len(good)),
        "distinct_nontrivial": len(seen),
        "distribution": dist,
        "phase_seconds": phases,
        "rule": "accelerator YAMLs of tests/integration (static checks: validator on the code's blocks, divisors from the raw level names) + "
                "3 hand-written corner cases (F14 witness; Einsums named `blocks`, `time`) + seeded cascades of 1-4 Einsums over 1-3 generated "
                "configurations (DRAM, optional cache/buffet L2, 1-2 buffets, intersector of each type, mul/add, sequencer, merger; levels "
                "NAME[0..N] with N+1 in {1..300}, functional units one level deeper at random; component names shared between configurations "
                "or not; random loop orders, space ranks, binding subsets, binding order); per program 1 + 2 (quick) / 1 + 4 (thorough) "
                "executions of the dump on stand-in counts; non-trivial = distinct metrics[\"time\"] expressions",
        "samples": samples,
        "trusted_base": ["Coq 8.16.1 kernel + VM (vm_compute)", "CPython ast.parse and tools/props/c14.py translate_dump (fail-closed) for the dump section",
                         "tools/specgen_time.py features(): which runtime counts belong to which component, from the bindings alone",
                         "stand-in runtime of Model/Time.v Part 6: Metrics.dump()/getNumIntersects/numSwaps/numIters/Traffic.*Traffic return numbers determined by "
                         "(collection, query) only", "Model/Fusion.v (C13) for the blocks of the specification"],
    })
    ctx.assumptions += [
        "the theorems are about the expression as mathematics (any commutative, associative add/max); Python floats are not associative",
        "a literal-model mismatch alone (literal_model_matches < programs) is recorded, not an alarm: the per-program validator decides",
        "eager buffet bindings and partitioned ranks do not occur in the generated population (accelerator YAMLs: static checks only)"]


class _Collect:
    def __init__(self):
        self.violations = []

    def violation(self, key, what, replay, no_input=False):
        self.violations.append((key, what, None, no_input))
        return True


def replay(ctx, rep):
    r = rep["replay"]
    c = Case(r.get("kind", "replay"), r["yaml"], r.get("S"), r.get("path"))
    if r.get("level_name") is not None:
        from teaal.parse import Architecture
        try:
            a = Architecture({"architecture": {"C": [{"name": r["level_name"]}]}})
            t = a.get_spec()["architecture"]["C"][0]
            code = "%s,%d" % (t["name"], t["num"])
        except Exception:
            code = "-"
        print("level name %r: code %s, model %s" % (r["level_name"], code, r["model"]))
        if code != r["model"]:
            print("VIOLATION property=C14 replay=<given file>")
            return 1
        return 0
    import random
    build_case(c, random.Random(0), 3)
    if c.err:
        print("the compiler now rejects the specification:", c.err)
        return 0
    res = vlib.coq_eval_lines("c14r", IMPORTS, "", [c.expr], big_stack=False)
    report = parse_report(res[0])
    sub = _Collect()
    stats = {"literal_model_matches": 0, "divisors_checked": 0, "divisor_not_literal": 0, "executions": 0, "level_names": 0}
    n = judge(sub, c, report, stats)
    for l in c.text.split("\n"):
        if l.startswith("metrics["):
            print(l)
    print("blocks:", c.blocks, "registered:", c.reg)
    print("report:", json.dumps(report)[:3000])
    for key, what, path, no_input in sub.violations:
        print("  ", key, what[:400])
    if n:
        print("VIOLATION property=C14 replay=<given file>")
        return 1
    return 0
