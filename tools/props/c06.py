"""C06 - every emitted program is valid, closed Python.

Theorem (Props/C06.v): the definite-assignment analysis `da` (Model/Closed.v) is sound (and
complete) for the all-paths name semantics: da U p = Some _  ==>  on EVERY path (loops zero or
more times, either branch) no statement reads an unbound name.
Tie (T-val): every program emitted by the current tree for the populations of C01-C05, C16
(graphics mode) and C11 (metrics mode) is parsed with CPython's ast (so it IS Python),
translated fail-closed into Model/Py.v and `da_block (user_names spec) program` is evaluated
by the kernel.  user_names is computed from the specification alone."""
import re

import vlib
from vlib import clist
import py2coq
import runlib
import popgen
import specgen

LEVEL = "proof"

COQ_IMPORTS = ["TV.Model.Show", "TV.Model.Py", "TV.Model.Closed"]


def user_names(spec, syms):
    """Names the user is expected to supply, from the specification alone."""
    names = set(runlib.API_NAMES)
    produced = []
    for s in spec.structs:
        produced.append(s["out"])
    for t in spec.decl:
        if t not in produced:
            names.add(spec.var_name(t))
    for t, rs in spec.decl.items():
        for r in rs:
            names.add(r)
    for v in spec.scalars:
        names.add(v)
    for k in syms:
        names.add(k)
    for k in partition_info(spec)[0]:
        names.add(k)
    return names


def partition_info(spec):
    """-> (symbolic size names, flattened rank tuples, partitioned rank roots) read from the parsed mapping."""
    syms, flats, roots = set(), [], set()
    for out, parts in (spec.mapping.get_partitioning() or {}).items():
        for key, dirs in parts.items():
            ranks = [str(t) for t in key.children]
            if len(ranks) > 1:
                flats.append(tuple(ranks))
            for r in ranks:
                roots.add(r)
            for d in dirs:
                for sz in d.find_data("str_sz"):
                    syms.add(str(sz.children[0]))
    return syms, flats, roots


def unbound_flags(name, text, spec):
    syms, flats, roots = partition_info(spec)
    m = re.match(r'^([A-Z]+)(\d)$', name)
    in_range_args = any(re.search(r'\b%s\b' % re.escape(name), a) for a in re.findall(r'iterRangeShapeRef\(([^\n]*)', text))
    level = bool(m and m.group(1) in roots and in_range_args)
    st_lines = "".join(l for l in text.split("\n") if "addActivity" in l or "timestamps" in l)
    flat_names = set("".join(f).lower() for f in flats)
    base = re.sub(r'\d$', '', name)
    coord_flat = bool(base in flat_names and re.search(r'\b%s\b' % re.escape(name), st_lines))
    return {"unbound_is_level_name": level, "coord_stamp_on_flattened_rank": coord_flat}


def format_concordant(name, spec):
    """Is some format of the tensor named by the variable `name` written in the order in which the FIRST Einsum using the
    tensor iterates it (its levels in that Einsum's explicit loop order)?  Computed from the specification alone.
    None when it cannot be decided (no explicit loop order / no format)."""
    from teaal.parse.yaml import YamlParser      # ruamel-based reader shipped with the repository (JSON is YAML)
    m = runlib.NAME_RE.match(name)
    try:
        d = YamlParser.parse_str(spec.yaml)
    except Exception:
        return None
    if not m or not isinstance(d, dict) or m.group(1) not in (d.get("format") or {}):
        return None
    t = m.group(1)
    loops = (d.get("mapping") or {}).get("loop-order") or {}
    # the FIRST Einsum (program order) that uses the tensor is the one whose section reads the format first
    first = None
    for st in spec.structs:
        if st["out"] == t or any(fc[0] == "T" and fc[1] == t for tm in st["terms"] for fc in tm["factors"]):
            first = st
            break
    if first is None or first["out"] not in loops:
        return None
    verdicts = []
    for fname, f in (d["format"][t] or {}).items():
        order = list(f.get("rank-order") or [])
        verdicts.append([r for r in loops[first["out"]] if r in order] == order)
    return any(verdicts) if verdicts else None


def metrics_flags(name, text, spec):
    """keys of the metrics-mode findings (as computed by C11) + whether the format read is the loop-concordant one"""
    from props import c11
    fl = c11.unbound_class(name, text, spec)
    fl["format_is_loop_concordant"] = format_concordant(name, spec)
    return fl


def analyse(ctx, items, tag):
    """items: list of (label, spec, syms, text, meta) -> list of (item, 'OK' | unbound name | error)."""
    exprs, ok_items, out = [], [], []
    for it in items:
        label, spec, syms, text, meta = it
        try:
            prog, names = py2coq.translate(text)
        except SyntaxError as e:
            out.append((it, "SYNTAX:" + str(e)))
            continue
        except py2coq.Unsupported as e:
            out.append((it, "UNSUPPORTED:" + str(e)))
            continue
        tr = py2coq.Translator(names)
        un = [tr.ident(n) for n in sorted(user_names(spec, syms)) if n in tr.idx]
        exprs.append("(let p := %s in let U := of_list %s in match da_block U p with Some _ => \"OK\" | None => "
                     "match first_unbound_block U p with Some x => \"UNBOUND:\" ++ show_N (Npos x) | None => \"UNBOUND:?\" end end)"
                     % (prog, clist(un)))
        ok_items.append((it, names))
    res = vlib.coq_eval_lines(tag, COQ_IMPORTS, "", exprs, shard=60)
    for (it, names), r in zip(ok_items, res):
        if r.startswith("UNBOUND:") and r[8:].isdigit():
            r = "UNBOUND:" + names[int(r[8:]) - 1]
        out.append((it, r))
    return out


def gather(ctx):
    rng = ctx.rng
    q = ctx.quick()
    pops = []
    pops += list(popgen.plain(rng, 150 if q else 1200))
    pops += list(popgen.shape(rng, 120 if q else 1000))
    pops += list(popgen.occupancy(rng, 150 if q else 1200))
    pops += list(popgen.affine(rng, 120 if q else 1000))
    pops += list(popgen.affine_occ(rng, 50 if q else 400))
    pops += list(popgen.cascade(rng, 60 if q else 500))
    base = list(popgen.plain(rng, 80 if q else 600)) + list(popgen.shape(rng, 80 if q else 600)) + list(popgen.occupancy(rng, 120 if q else 900))
    base += list(popgen.affine(rng, 60 if q else 500)) + list(popgen.affine_occ(rng, 20 if q else 150))
    pops += list(popgen.with_spacetime(rng, base))
    pops += popgen.accelerators()
    pops += list(popgen.compute_only(rng, 25 if q else 200))
    # metrics mode beyond the shipped accelerators: hardware cascades with partitioning (shape, occupancy, stacks), the
    # partitioned populations wrapped in an architecture, buffer hierarchies with lazy/eager bindings and evict-on ranks
    import specgen_hw
    import specgen_c12
    pops += [specgen_hw.gen_cascade(rng) for _ in range(60 if q else 500)]
    stacked = []
    for _ in range(40 if q else 300):
        # a shape level above occupancy levels on one rank (an intermediate rank such as K1I exists)
        es = specgen.gen_product_einsum(rng)
        mp, syms = specgen.occupancy_mapping(rng, es, flatten_p=0.0, shape_above_p=1.0)
        if mp is not None:
            stacked.append({"yaml": specgen.yaml_of(es["decl"], [es["expr"]], mp), "syms": syms or {}, "kind": "occupancy", "es": es, "mapping": mp})
    for its in (popgen.shape(rng, 30 if q else 250), popgen.occupancy(rng, 50 if q else 400), stacked):
        for it in its:
            w = specgen_hw.wrap_single(rng, it)
            if w is not None:
                pops.append(w)
    for _ in range(90 if q else 700):
        y, meta = specgen_c12.gen(rng)
        pops.append({"yaml": y, "kind": "generated-c12", "arch": True, "syms": {}})
    for _ in range(15 if q else 100):
        y, meta = specgen_c12.gen_sigma(rng)
        pops.append({"yaml": y, "kind": "generated-c12-sigma", "arch": True, "syms": {}})
    return pops


def run(ctx):
    pops = gather(ctx)
    items = []
    stats = {"by_kind": {}, "rejected": 0, "crashed": {}}
    for it in pops:
        try:
            spec = runlib.Spec(it["yaml"])
            text = spec.compile(arch=it.get("arch", False))
        except ValueError:
            stats["rejected"] += 1
            continue
        except Exception as e:
            k = type(e).__name__
            stats["crashed"][k] = stats["crashed"].get(k, 0) + 1
            continue
        kind = it["kind"].split(":")[0]
        stats["by_kind"][kind] = stats["by_kind"].get(kind, 0) + 1
        items.append((it["kind"], spec, it.get("syms") or {}, text, it))
    res = analyse(ctx, items, "c06")
    bad = 0
    for (label, spec, syms, text, meta), r in res:
        if r == "OK":
            continue
        bad += 1
        if r.startswith("UNBOUND:"):
            name = r[8:]
            key = {"kind": "unbound-name"}
            key.update(unbound_flags(name, text, spec))
            if meta.get("arch"):
                key.update(metrics_flags(name, text, spec))
            what = "identifier `%s` is read but not bound on every path (mode %s)" % (name, label)
        else:
            key = {"kind": "not-python-subset", "detail": r[:40]}
            what = "emitted text is not valid Python / outside the emitted subset: %s" % r
        ctx.violation(key, what, {"yaml": spec.yaml, "text": text, "mode": label, "result": r, "user_names": sorted(user_names(spec, syms))})
    ctx.coverage.update({
        "programs": len(items), "disagreements_checked": bad, "evaluations": len(items), "distinct_nontrivial": len(set(t for _, _, _, t, _ in items)),
        "population": stats,
        "rule": "populations of C01-C05 (plain), the same with a spacetime stamping every loop rank (graphics mode), the five accelerator YAMLs and generated compute-only "
                "architectures (metrics mode); one kernel evaluation of da_block per program; non-trivial = distinct text",
        "samples": [{"mode": items[i][0], "text": items[i][3][:600]} for i in (0, len(items) - 1)],
        "trusted_base": ["Coq 8.16.1 kernel + VM", "tools/py2coq.py (fail-closed)", "CPython ast.parse as the definition of 'parses as Python'",
                         "tools/props/c06.py user_names (what the user supplies, from the specification alone)"],
    })


def replay(ctx, rep):
    r = rep["replay"]
    spec = runlib.Spec(r["yaml"])
    text = spec.compile(arch=r["mode"].startswith(("accelerator", "compute-only", "hw-", "generated-c12")) or "+hw" in r["mode"])
    res = analyse(ctx, [(r["mode"], spec, {}, text, {})], "c06r")
    print(text)
    print(res[0][1])
    if res[0][1] != "OK":
        print("VIOLATION property=C06 replay=<given file>")
        return 1
    return 0
