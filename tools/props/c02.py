"""C02 - shape-based partitioning never changes the result and is undone on the output.

Tie: generated Einsums x subsets of ranks x stacks of uniform_shape/nway_shape (literal and
symbolic sizes, not dividing / exceeding the extent) x ANY loop order over the levels;
the emitted program is executed in coqc and its final output (declared name, rank order,
original coordinates) compared with the dense oracle (= the unpartitioned Einsum)."""
import specgen
import runlib
import execlib

LEVEL = "translation_validation"


def run(ctx):
    rng = ctx.rng
    n = 300 if ctx.quick() else 2400
    cases = []
    stats = {"compiled": 0, "compile_errors": {}, "depths": {}, "sym": 0}
    for i in range(n):
        es = specgen.gen_plain_einsum(rng, max_ranks=3, max_terms=2 if rng.random() < 0.3 else 1, max_factors=3,
                                      take_p=0.1, scalar_p=0.1, rank0_p=0.05)
        mp, syms = specgen.shape_partitioned_mapping(rng, es)
        y = specgen.yaml_of(es["decl"], [es["expr"]], mp)
        try:
            spec = runlib.Spec(y)
            text = spec.compile()
        except Exception as e:
            k = type(e).__name__ + ": " + str(e)[:70]
            stats["compile_errors"][k] = stats["compile_errors"].get(k, 0) + 1
            continue
        if specgen.take_selected_lacks_rank(spec.structs[0]):
            stats["skipped_F7_shape"] = stats.get("skipped_F7_shape", 0) + 1   # the unpartitioned program is itself wrong (C01 finding F7)
            continue
        stats["compiled"] += 1
        if syms:
            stats["sym"] += 1
        for ds in mp["partitioning"][es["out"]].values():
            stats["depths"][len(ds)] = stats["depths"].get(len(ds), 0) + 1
        for j in range(2 if ctx.quick() else 3):
            ext = runlib.default_extents(spec, rng, 1, 9)
            data, scal = runlib.gen_inputs(spec, ext, rng, density=rng.choice([1.0, 0.6, 0.3]))
            cases.append(execlib.Case(spec, text, ext, data, scal, meta={"syms": syms, "mapping": mp}, extra_ints=syms))
    # two Einsums of one specification that partition the same rank of a shared input (same or different sizes)
    for i in range(n // 8):
        decl, exprs, mp, syms = specgen.gen_shape_pairs(rng)
        try:
            spec = runlib.Spec(specgen.yaml_of(decl, exprs, mp))
            text = spec.compile()
        except Exception as e:
            k = type(e).__name__ + ": " + str(e)[:70]
            stats["compile_errors"][k] = stats["compile_errors"].get(k, 0) + 1
            continue
        stats["pairs"] = stats.get("pairs", 0) + 1
        for j in range(2):
            ext = runlib.default_extents(spec, rng, 2, 9)
            data, scal = runlib.gen_inputs(spec, ext, rng, density=rng.choice([1.0, 0.6]))
            cases.append(execlib.Case(spec, text, ext, data, scal, meta={"pair": True, "syms": syms, "mapping": mp}, extra_ints=syms))
    # index-math (convolution-like) Einsums with the output rank shape-partitioned and the input rank following it
    from props import c04
    import patterns
    misaligned = []
    for i in range(n // 2):
        es = specgen.gen_affine_einsum(rng, extra_p=0.4)
        mp, kind, syms = specgen.affine_mapping(rng, es, part_p=1.0)
        y = specgen.yaml_of(es["decl"], [es["expr"]], mp)
        try:
            spec = runlib.Spec(y)
            text = spec.compile()
        except Exception as e:
            k = type(e).__name__ + ": " + str(e)[:70]
            stats["compile_errors"][k] = stats["compile_errors"].get(k, 0) + 1
            continue
        stats["affine"] = stats.get("affine", 0) + 1
        mis = patterns.eager_inputs_aligned(text)
        if mis:
            misaligned.append((spec, text, mis, len(cases)))
        for j in range((2 if ctx.quick() else 3) + (40 if mis else 0)):
            ext = specgen.affine_extents(rng, es)
            data, scal = runlib.gen_inputs(spec, ext, rng, density=rng.choice([1.0, 0.7, 0.5, 0.3]))
            cases.append(execlib.Case(spec, text, ext, data, scal, extra_ints=syms,
                                      meta={"affine": True, "flags": c04.flags_of(text, mp, es["out"]), "syms": syms, "mapping": mp}))
    execlib.evaluate(cases, "c02")
    c04.report_misaligned(ctx, misaligned, cases)
    # T-val: the certified nest validator (C01) on the partitioned nest + the static side conditions of the partition
    # theorems (same step and level names for every tensor holding the rank, footer merges exactly the levels)
    from props import c01
    plain_cases = [c for c in cases if not c.meta.get("affine") and not c.meta.get("pair")]
    who = c01.certify(ctx, plain_cases, stats, allow_partition=True)
    for c in set(c for c, _, _, _ in who if not c.certified):
        same = [d for d in plain_cases if d.text == c.text]
        if all(d.result["status"] == "RAN" and d.result["out"] == "OK" for d in same):
            ctx.violation({"kind": "validator-rejected", "take_in_sum_selected_lacks_rank": specgen.take_selected_lacks_rank(c.spec.structs[0])},
                          "the certified nest validator rejects the partitioned loop nest / update statement read off the emitted program; "
                          "executions on %d inputs agree with the oracle" % len(same), dict(c.replay(), nest=c.nest), no_input=True)
    bad = 0
    for c in cases:
        r = c.result
        st = c.spec.structs[0]
        if r["status"] == "RAN" and r["out"] == "OK":
            continue
        if c.meta.get("pair"):
            bad += 1
            ctx.violation({"kind": "wrong-result" if r["status"] == "RAN" else "execution-error", "pair": True},
                          "two Einsums partitioning the same rank of a shared input: %s" % str(r)[:300], c.replay())
            continue
        bad += 1
        if c.meta.get("affine"):
            key, what = c04.key_of(c)     # the known defects of index math under partitioning (F4, F5, F11, F12) are keyed as in C04
            ctx.violation(key, "partitioned " + what, c.replay())
            continue
        if r["status"] == "RAN":
            key = {"kind": "wrong-result", "take_in_sum_selected_lacks_rank": specgen.take_selected_lacks_rank(st)}
            what = "partitioned program computes a wrong output: %s" % r["out"][:300]
        else:
            key = {"kind": "execution-error", "error": r.get("err", r["status"])[:40]}
            if "unbound" in r:
                key["unbound"] = r["unbound"]
            what = "partitioned program cannot be executed: %s" % r
        ctx.violation(key, what, c.replay())
    distinct = len(set(c.text for c in cases))
    ctx.coverage.update({
        "programs": distinct, "executions": len(cases), "disagreements_checked": bad, "evaluations": len(cases),
        "distinct_nontrivial": distinct, "population": stats,
        "rule": "random Einsums x 1-2 partitioned ranks x stacks of 1-3 uniform_shape/nway_shape (literal or symbolic, sizes 1-7) x any loop order over "
                "the levels (30% well-ordered) x random rank orders; plus (half as many) index-math Einsums O[q] = I[a*q+b*s]*F[s](*G) with Q shape-partitioned, W following; 2-3 inputs each with extents 1-9 (smaller than, equal to, not divisible by the sizes)",
        "samples": [{"yaml": cases[i].spec.yaml, "extents": cases[i].extents, "syms": cases[i].extra_ints, "result": cases[i].raw} for i in (0, len(cases) // 2)],
        "trusted_base": ["Coq 8.16.1 kernel + VM", "Model/Rt.v splitUniform/mergeRanks/swizzleRanks model", "Model/Interp.v", "tools/py2coq.py", "Model/Einsum.v"],
    })
    ctx.assumptions += ["fibertree semantics modelled by Model/Rt.v"]


def replay(ctx, rep):
    import props.c01 as c01
    r = rep["replay"]
    spec = runlib.Spec(r["yaml"])
    text = spec.compile()
    data = {t: {tuple(int(x) for x in k.split(",") if x != ""): v for k, v in d.items()} for t, d in r["inputs"].items()}
    c = execlib.Case(spec, text, r["extents"], data, r["scalars"], extra_ints=r.get("extra_ints"))
    execlib.evaluate([c], "c02r")
    print(text)
    print("result:", c.raw)
    if c.result["status"] != "RAN" or c.result["out"] != "OK":
        print("VIOLATION property=C02 replay=<given file>")
        return 1
    return 0
