"""C16 - spacetime display is observation-only, complete and unambiguous.

Tie: the C01-C03 populations with a spacetime that stamps every loop rank (any split into
space/time, pos/coord styles, optional slip) are compiled in graphics mode and executed in
coqc with a recording canvas: (a) the computed tensors equal the oracle (= the run without
spacetime); (b) one addActivity per executed update; (c) every point handed to the canvas has
one coordinate per rank of the corresponding createCanvas tensor; (d) when partition levels
are looped outermost-to-innermost, no two activities carry the same (space, time) stamp."""
import re

import specgen
import runlib
import execlib
import popgen
from props.c06 import unbound_flags

LEVEL = "translation_validation"


def well_ordered(loop):
    """each partitioned rank's levels appear outermost-to-innermost"""
    seen = {}
    for r in loop:
        m = re.match(r'^([A-Z]+?)(\d)$', r)
        if not m:
            continue
        root, lvl = m.group(1), int(m.group(2))
        if root in seen and seen[root] < lvl:
            return False
        seen[root] = lvl
    return True


def coord_on_flat(spec, st):
    """a coordinate-style stamp on (a level of) a flattened rank"""
    from props.c06 import partition_info
    flats = set("".join(f) for f in partition_info(spec)[1])
    for x in st["space"] + st["time"]:
        if x.endswith(".coord") and re.sub(r'\d$', '', x[:-6]) in flats:
            return True
    return False


def run(ctx):
    rng = ctx.rng
    q = ctx.quick()
    base = list(popgen.plain(rng, 110 if q else 900)) + list(popgen.shape(rng, 110 if q else 900)) + list(popgen.occupancy(rng, 160 if q else 1300))
    pops = list(popgen.with_spacetime(rng, base))
    cases = []
    stats = {"by_kind": {}, "rejected": 0, "crashed": {}, "slip": 0, "coord_style": 0, "well_ordered": 0}
    for it in pops:
        try:
            spec = runlib.Spec(it["yaml"])
            text = spec.compile()
        except ValueError:
            stats["rejected"] += 1
            continue
        except Exception as e:
            stats["crashed"][type(e).__name__] = stats["crashed"].get(type(e).__name__, 0) + 1
            continue
        if any(specgen.take_selected_lacks_rank(s) for s in spec.structs):
            continue
        st = it["spacetime"]
        stats["by_kind"][it["kind"]] = stats["by_kind"].get(it["kind"], 0) + 1
        stats["slip"] += 1 if st.get("opt") else 0
        stats["coord_style"] += 1 if any(".coord" in x for x in st["space"] + st["time"]) else 0
        loop = [x.split(".")[0] for x in st["space"] + st["time"]]
        lo = (it["mapping"].get("loop-order") or {}).get(spec.outs[0]) or loop
        wo = well_ordered(lo)
        stats["well_ordered"] += 1 if wo else 0
        ext = runlib.default_extents(spec, rng, 1, 5)
        data, scal = runlib.gen_inputs(spec, ext, rng, density=rng.choice([1.0, 0.6]))
        cases.append(execlib.Case(spec, text, ext, data, scal, extra_ints=it["syms"], meta={"kind": it["kind"], "spacetime": st, "well_ordered": wo}))
    execlib.evaluate(cases, "c16")
    bad = 0
    nact = 0
    for c in cases:
        r = c.result
        if r["status"] != "RAN":
            bad += 1
            key = {"kind": "execution-error", "coord_stamp_on_flattened_rank": coord_on_flat(c.spec, c.meta["spacetime"])}
            if not key["coord_stamp_on_flattened_rank"]:
                key["error"] = r.get("err", r["status"])[:40]
            ctx.violation(key, "graphics-mode program cannot be executed: %s" % r, c.replay())
            continue
        if r["out"] != "OK" or r["inp"] != "OK":
            bad += 1
            ctx.violation({"kind": "spacetime-changes-result"}, "adding a spacetime changed the computed tensors: %s %s" % (r["out"][:200], r["inp"]), c.replay())
            continue
        m = re.match(r'^(\d+)/(\d+),([TF]),([TF])$', r["extra"][0])
        acts, upds, arity, distinct = int(m.group(1)), int(m.group(2)), m.group(3), m.group(4)
        nact += acts
        if acts != upds:
            bad += 1
            ctx.violation({"kind": "activity-count"}, "%d activities reported for %d executed updates" % (acts, upds), c.replay())
        elif arity != "T":
            bad += 1
            ctx.violation({"kind": "point-arity"}, "a displayed tensor's point does not have one coordinate per rank", c.replay())
        elif distinct != "T" and c.meta["well_ordered"]:
            bad += 1
            ctx.violation({"kind": "duplicate-stamp"}, "two activities carry the same (space, time) stamp", c.replay())
    distinct_p = len(set(c.text for c in cases))
    ctx.coverage.update({
        "programs": distinct_p, "executions": len(cases), "disagreements_checked": bad, "evaluations": len(cases), "distinct_nontrivial": distinct_p,
        "population": stats, "activities_observed": nact,
        "rule": "C01-C03 populations + a spacetime stamping every loop rank: random space/time split, random time order, styles default/.pos/.coord per rank, slip 30%; one execution each",
        "samples": [{"yaml": cases[0].spec.yaml, "result": cases[0].raw}],
        "trusted_base": ["Coq 8.16.1 kernel + VM", "Model/Rt.v + Model/Interp.v (recording canvas stand-ins) + Model/Harness.v canvas_report", "tools/py2coq.py", "Model/Einsum.v"],
    })


def replay(ctx, rep):
    r = rep["replay"]
    spec = runlib.Spec(r["yaml"])
    text = spec.compile()
    data = {t: {tuple(int(x) for x in k.split(",") if x != ""): v for k, v in d.items()} for t, d in r["inputs"].items()}
    c = execlib.Case(spec, text, r["extents"], data, r["scalars"], extra_ints=r.get("extra_ints"))
    execlib.evaluate([c], "c16r")
    print(text)
    print("result:", c.raw)
    return 0
