"""C16 - spacetime display is observation-only, complete and unambiguous.

Tie: the C01-C03 populations with a spacetime that stamps every loop rank (any split into
space/time, pos/coord styles, optional slip) are compiled in graphics mode and executed in
coqc with a recording canvas: (a) the computed tensors equal the oracle (= the run without
spacetime); (b) one addActivity per executed update; (c) every point handed to the canvas has
one coordinate per rank of the corresponding createCanvas tensor; (d) when partition levels
are looped outermost-to-innermost, no two activities carry the same (space, time) stamp."""
import re

import specgen
import specgen_mixed
import compilepool
import displaystrip
import rankrename
import specgen_occ2
import runlib
import execlib
import popgen
from props.c06 import unbound_flags
import stampview
import vlib

LEVEL = "translation_validation"


def well_ordered(loop):
    """each partitioned rank's levels appear outermost-to-innermost"""
    seen = {}
    for r in loop:
        m = re.match(r'^([A-Z]+?)(\d)$', r)
        if not m:
            continue
        root, lvl = m.group(1), int(m.group(2))
        if root in seen and seen[root] < lvl:
            return False
        seen[root] = lvl
    return True


def coord_on_flat(spec, st):
    """a coordinate-style stamp on (a level of) a flattened rank"""
    from props.c06 import partition_info
    flats = set("".join(f) for f in partition_info(spec)[1])
    for x in st["space"] + st["time"]:
        if x.endswith(".coord") and re.sub(r'\d$', '', x[:-6]) in flats:
            return True
    return False


def mixes_leader_and_follower_levels(mapping, out):
    """the loop order holds levels of a shape-partitioned rank AND levels of a rank that follows it (e.g. [Q1, W0, S])"""
    part = (mapping.get("partitioning") or {}).get(out, {})
    loop = (mapping.get("loop-order") or {}).get(out) or []
    for r, ds in part.items():
        m = re.match(r'^follow\((\w+)\)$', ds[0]) if ds else None
        if m:
            lead = m.group(1)
            if any(re.match(r'^%s\d$' % re.escape(r), x) for x in loop) and any(re.match(r'^%s\d$' % re.escape(lead), x) for x in loop):
                return True
    return False


def cascade_items(rng, n):
    """mixed cascades (tools/specgen_mixed.py) in which most Einsums carry their own spacetime"""
    out = []
    for _ in range(n):
        it = specgen_mixed.gen_mixed_cascade(rng, n=rng.randint(2, 3), spacetime_p=0.7)
        sts = it["mapping"].get("spacetime") or {}
        if not sts:
            continue
        out.append({"yaml": it["yaml"], "syms": it["syms"], "kind": "cascade+spacetime", "mapping": it["mapping"], "decl": it["decl"],
                    "exprs": it["exprs"], "spacetimes": sts, "mixed": it})
    return out


def plain_yaml(it):
    """the same specification without its spacetime section(s)"""
    mp = {k: v for k, v in it["mapping"].items() if k != "spacetime"}
    if "es" in it:
        return specgen.yaml_of(it["es"]["decl"], [it["es"]["expr"]], mp)
    return specgen.yaml_of(it["decl"], it["exprs"], mp)


def run(ctx):
    rng = ctx.rng
    q = ctx.quick()
    base = list(popgen.plain(rng, 110 if q else 900)) + list(popgen.shape(rng, 110 if q else 900)) + list(popgen.occupancy(rng, 160 if q else 1300))
    # occupancy levels with a different leader per level (tools/specgen_occ2.py)
    base += [x for x in (specgen_occ2.multi_leader_occupancy(rng) for _ in range(60 if q else 500)) if x]
    pops = list(popgen.with_spacetime(rng, base))
    # index arithmetic (C04's population) and cascades under a display: executed in pairs (with / without the spacetime)
    pops += list(popgen.with_spacetime(rng, list(popgen.affine(rng, 130 if q else 1100))))
    pops += cascade_items(rng, 45 if q else 400)
    nren = 0
    for it in pops:
        it["plain_yaml"] = plain_yaml(it)
        if "es" in it and not it["kind"].startswith("affine") and rng.random() < 0.4:
            # rank names other than J, K, M, N (names of common tensors, names ending in I, two-letter names): tools/rankrename.py
            rm = rankrename.make_map(rng)
            it["yaml"], it["plain_yaml"] = rankrename.yaml_text(it["yaml"], rm), rankrename.yaml_text(it["plain_yaml"], rm)
            it["mapping"] = rankrename.mapping(it["mapping"], rm)
            it["spacetime"] = rankrename.spacetime(it["spacetime"], rm)
            nren += 1
    res = compilepool.compile_many([y for it in pops for y in (it["yaml"], it["plain_yaml"])])
    cases = []
    stats = {"by_kind": {}, "rejected": 0, "crashed": {}, "slip": 0, "coord_style": 0, "well_ordered": 0, "static_display_only": 0,
             "paired_executions": 0, "plain_fails_too": 0, "plain_wrong_too": 0, "plain_rejected": 0, "ranks_renamed": nren}
    bad = 0
    static_bad = []
    certs = []
    stats.update({"stamp_structure_unrecognized": 0, "stamp_certified": 0, "stamp_certificate_rejected_not_well_ordered": 0})
    for k, it in enumerate(pops):
        a, b = res[2 * k], res[2 * k + 1]
        sts = list(it["spacetimes"].values()) if "spacetimes" in it else [it["spacetime"]]
        out0 = next(iter(it["mapping"].get("spacetime", {})), None)
        if a[0] == "E":
            if a[1].startswith("ValueError"):
                stats["rejected"] += 1
            else:
                nm = a[1].split(":")[0]
                stats["crashed"][nm] = stats["crashed"].get(nm, 0) + 1
                if b[0] == "T":
                    # the specification compiles without the display; with it the compiler dies of an internal error
                    bad += 1
                    ctx.violation({"kind": "display-compile-crash", "error": nm,
                                   "loop_mixes_leader_and_follower_levels": any(mixes_leader_and_follower_levels(it["mapping"], o) for o in it["mapping"].get("spacetime", {}))},
                                  "the specification compiles without a spacetime, adding one makes the compiler raise %s" % a[1][:200],
                                  {"yaml": it["yaml"], "error": a[1]}, no_input=True)
            continue
        spec = runlib.Spec(it["yaml"])
        text = a[1]
        if any(specgen.take_selected_lacks_rank(s) for s in spec.structs):
            continue
        stats["by_kind"][it["kind"]] = stats["by_kind"].get(it["kind"], 0) + 1
        stats["slip"] += 1 if any(st.get("opt") for st in sts) else 0
        stats["coord_style"] += 1 if any(".coord" in x for st in sts for x in st["space"] + st["time"]) else 0
        wo = True
        for o, st in (it["mapping"].get("spacetime") or {}).items():
            loop = [x.split(".")[0] for x in st["space"] + st["time"]]
            lo = (it["mapping"].get("loop-order") or {}).get(o) or loop
            wo = wo and well_ordered(lo)
        stats["well_ordered"] += 1 if wo else 0
        # per-program certificate for the third clause (Proofs/StampCert.v): the stamp structure read off the text
        try:
            for v in stampview.views(text):
                certs.append((k, wo, stampview.coq_term(v)))
        except stampview.Unrecognized:
            stats["stamp_structure_unrecognized"] += 1      # slip counters, flattened ranks: judged by execution only
        paired = it["kind"].startswith(("affine", "cascade"))
        nin = 1
        differs = None
        if b[0] == "T":
            ca, cb = displaystrip.computation(text), displaystrip.computation(b[1])
            if ca == cb:
                stats["static_display_only"] += 1
            else:
                differs = displaystrip.first_difference(ca, cb)
                paired = True
                nin = 12                       # targeted failing-input search
                static_bad.append((it, text, differs, k))
        else:
            stats["plain_rejected"] += 1
            paired = False
        for _ in range(nin):
            if "mixed" in it:
                ext = specgen_mixed.mixed_extents(rng, it["mixed"], 1, 4)
            elif it["kind"].startswith("affine"):
                ext = specgen.affine_extents(rng, it["es"])
            else:
                ext = runlib.default_extents(spec, rng, 1, 5)
            data, scal = runlib.gen_inputs(spec, ext, rng, density=rng.choice([1.0, 0.6]))
            meta = {"kind": it["kind"], "spacetime": sts, "well_ordered": wo, "paired": paired, "item": k}
            c = execlib.Case(spec, text, ext, data, scal, extra_ints=it["syms"], meta=meta)
            c.plain = (it["plain_yaml"], b[1], it["syms"]) if b[0] == "T" else None
            cases.append(c)
            if paired:
                pspec = runlib.Spec(it["plain_yaml"])
                c.twin = execlib.Case(pspec, b[1], ext, data, scal, extra_ints=it["syms"], meta={"kind": it["kind"], "twin": True})
                cases.append(c.twin)
                stats["paired_executions"] += 1
    execlib.evaluate(cases, "c16")
    # an unpaired program (its computation text equals the one compiled without the spacetime) whose result differs from the oracle:
    # execute the program without the spacetime on the same inputs before blaming the display (a wrong result both programs share is
    # C01-C04's business, not this property's)
    late = []
    for c in cases:
        if c.meta.get("twin") or c.meta["paired"] or c.plain is None:
            continue
        r = c.result
        if r["status"] == "RAN" and (r["out"] != "OK" or r["inp"] != "OK"):
            c.twin = execlib.Case(runlib.Spec(c.plain[0]), c.plain[1], c.extents, c.data, c.scal, extra_ints=c.plain[2], meta={"kind": c.meta["kind"], "twin": True})
            c.meta["paired"] = True
            late.append(c.twin)
    if late:
        execlib.evaluate(late, "c16late")
        stats["paired_executions"] += len(late)
    nact = 0
    failed_items = set()
    for c in cases:
        if c.meta.get("twin"):
            continue
        r = c.result
        p = c.twin.result if c.meta["paired"] else None
        before = bad
        if r["status"] != "RAN":
            if p is not None and p["status"] == r["status"] and p.get("unbound", p.get("err")) == r.get("unbound", r.get("err")):
                stats["plain_fails_too"] += 1          # not the display's doing (C04/C06 report these)
                continue
            bad += 1
            key = {"kind": "execution-error", "coord_stamp_on_flattened_rank": any(coord_on_flat(c.spec, st) for st in c.meta["spacetime"])}
            if not key["coord_stamp_on_flattened_rank"]:
                key["error"] = r.get("err", r["status"])[:40]
            ctx.violation(key, "graphics-mode program cannot be executed%s: %s" % (" (the program without the spacetime runs)" if p is not None else "", r), c.replay())
            failed_items.add(c.meta["item"])
            continue
        if p is not None:
            if p["status"] != "RAN":
                stats["plain_fails_too"] += 1
            elif r["out"] != p["out"] or r["inp"] != p["inp"]:
                bad += 1
                ctx.violation({"kind": "spacetime-changes-result"}, "adding a spacetime changed the computed tensors: with [%s %s] without [%s %s]" % (r["out"][:200], r["inp"], p["out"][:200], p["inp"]), c.replay())
                failed_items.add(c.meta["item"])
                continue
            elif r["out"] != "OK":
                stats["plain_wrong_too"] += 1
        elif r["out"] != "OK" or r["inp"] != "OK":
            bad += 1
            ctx.violation({"kind": "spacetime-changes-result"}, "adding a spacetime changed the computed tensors: %s %s" % (r["out"][:200], r["inp"]), c.replay())
            failed_items.add(c.meta["item"])
            continue
        m = re.match(r'^(\d+)/(\d+),([TF]),([TF]),(\d+),(\d+)$', r["extra"][0])
        acts, upds, arity, distinct = int(m.group(1)), int(m.group(2)), m.group(3), m.group(4)
        shown, ncanvas = int(m.group(5)), int(m.group(6))
        nact += acts
        nst = len(c.meta["spacetime"])
        if nst < len(c.spec.outs):
            # a cascade in which only some Einsums are displayed: one canvas per displayed Einsum, one activity per update executed under it
            if ncanvas != nst:
                bad += 1
                ctx.violation({"kind": "canvas-count"}, "%d canvases created for %d Einsums with a spacetime" % (ncanvas, nst), c.replay())
                failed_items.add(c.meta["item"])
                continue
            upds = shown
        if acts != upds:
            bad += 1
            ctx.violation({"kind": "activity-count"}, "%d activities reported for %d executed updates" % (acts, upds), c.replay())
        elif arity != "T":
            bad += 1
            ctx.violation({"kind": "point-arity"}, "a displayed tensor's point does not have one coordinate per rank", c.replay())
        elif distinct != "T" and c.meta["well_ordered"]:
            bad += 1
            ctx.violation({"kind": "duplicate-stamp"}, "two activities carry the same (space, time) stamp", c.replay())
        if bad != before:
            failed_items.add(c.meta["item"])
    # the static side condition: broken, and no failing input among the targeted executions
    for it, text, differs, k in static_bad:
        if k in failed_items:
            continue
        bad += 1
        ctx.violation({"kind": "display-changes-computation-text"},
                      "with the display statements removed the program differs from the one compiled without a spacetime (line %d: `%s` vs `%s`); unbound positions: %s; 12 paired executions agree"
                      % (differs[0], differs[1], differs[2], displaystrip.unbound_positions(text)),
                      {"yaml": it["yaml"], "text": text, "difference": differs, "obligation": "displaystrip.computation(with) == displaystrip.computation(without)"}, no_input=True)
    # the certificate decided by the kernel: accepted => by C16_stamp_certificate_sound_partial no two iterations of that nest share a stamp
    verdicts = vlib.coq_eval_lines("c16cert", ["TV.Proofs.StampCert"], "", ["(if %s then \"T\" else \"F\")%%string" % t for _, _, t in certs]) if certs else []
    for (k, wo, t), v in zip(certs, verdicts):
        if v == "T":
            stats["stamp_certified"] += 1
        elif not wo:
            stats["stamp_certificate_rejected_not_well_ordered"] += 1
        elif k not in failed_items:
            bad += 1
            ctx.violation({"kind": "stamp-certificate-rejected"},
                          "levels are looped outermost-to-innermost and every loop rank is stamped, yet the emitted stamps do not meet the hypotheses of the injectivity theorem (%s): a loop rank is missing from the spacetime tuple or a relative coordinate subtracts a level bound by a later loop; the executions of this program showed no duplicate stamp" % t,
                          {"yaml": pops[k]["yaml"], "certificate": t, "obligation": "stamp_cert_okb (coq/Proofs/StampCert.v) = true for every well-ordered fully stamped program"}, no_input=True)
    distinct_p = len(set(c.text for c in cases))
    ctx.coverage.update({
        "programs": distinct_p, "executions": len(cases), "disagreements_checked": bad, "evaluations": len(cases), "distinct_nontrivial": distinct_p,
        "population": stats, "activities_observed": nact,
        "rule": "C01-C03 populations + multi-level occupancy with a different leader per level (40% of all these with their ranks renamed away from J,K,M,N) + C04's index-arithmetic population (shape partitioning with follow) + mixed cascades, each with a spacetime stamping every loop rank: random space/time split, "
                "random time order, styles default/.pos/.coord per rank, slip 30%; static: display-stripped text == text compiled without the spacetime (every specification); "
                "one execution each against the oracle; index-arithmetic and cascade programs executed in pairs with/without the spacetime on identical inputs",
        "samples": [{"yaml": cases[0].spec.yaml, "result": cases[0].raw}],
        "trusted_base": ["Coq 8.16.1 kernel + VM", "Model/Rt.v + Model/Interp.v (recording canvas stand-ins) + Model/Harness.v canvas_report", "tools/py2coq.py", "Model/Einsum.v",
                         "tools/displaystrip.py (which statements are display-only)"],
    })


def replay(ctx, rep):
    r = rep["replay"]
    spec = runlib.Spec(r["yaml"])
    text = spec.compile()
    data = {t: {tuple(int(x) for x in k.split(",") if x != ""): v for k, v in d.items()} for t, d in r["inputs"].items()}
    c = execlib.Case(spec, text, r["extents"], data, r["scalars"], extra_ints=r.get("extra_ints"))
    execlib.evaluate([c], "c16r")
    print(text)
    print("result:", c.raw)
    return 0
