"""C13 - fusion blocks are a legal, ordered partition of the Einsums.

Theorems (coq/Props/C13.v): for EVERY history the model automaton yields legal
blocks; the decision procedure legal_blocks_b is sound and complete.
Tie: the real Program/Hardware/Fusion objects (and the metrics["blocks"] literal
of the emitted dump) are driven with generated histories; per history the
kernel evaluates (a) the model's blocks [T-eq] and (b) legal_blocks_b on the
code's blocks with features recomputed from the specification alone [T-ref].
"""
import ast
import itertools

import vlib
from vlib import cstr, clist
import specgen_fusion as sg

LEVEL = "proof"


def code_blocks(hist):
    """Drive the real objects. Returns (blocks from Fusion, blocks from the dump or None)."""
    from teaal.parse import Einsum, Mapping, Architecture, Bindings, Format
    from teaal.ir.program import Program
    from teaal.ir.hardware import Hardware
    from teaal.ir.fusion import Fusion
    from teaal.trans.hifiber import HiFiber
    y = sg.to_yaml(hist)
    einsum = Einsum.from_str(y)
    mapping = Mapping.from_str(y)
    program = Program(einsum, mapping)
    program.add_einsum(0)
    hardware = Hardware(Architecture.from_str(y), Bindings.from_str(y), program)
    fusion = Fusion(hardware)
    for i in range(len(hist)):
        if i:
            program.reset()
            program.add_einsum(i)
        fusion.add_einsum(program)
    blocks = [list(b) for b in fusion.get_blocks()]
    dump_blocks = None
    try:
        # the whole pipeline; it asserts (no program) when a compute unit is bound to an operation the Einsum lacks
        text = str(HiFiber(Einsum.from_str(y), Mapping.from_str(y), Architecture.from_str(y),
                           Bindings.from_str(y), Format.from_str(y)))
    except AssertionError:
        text = None
    if text is not None:
        dump_blocks = "missing"
        for node in ast.parse(text).body:
            if isinstance(node, ast.Assign) and ast.unparse(node.targets[0]) == "metrics['blocks']":
                dump_blocks = ast.literal_eval(node.value)
    return blocks, dump_blocks


def coq_hist(hist):
    items = []
    for nm, f in zip(sg.NAMES, hist):
        items.append("(mkE %s %s (temporal_prefix %s %s) %s)" % (
            cstr(nm), cstr(f["config"]), clist(map(cstr, f["loop"])), clist(map(cstr, f["space"])),
            clist(map(cstr, f["comps"]))))
    return clist(items)


def coq_blocks(bs):
    return clist(clist(map(cstr, b)) for b in bs)


def show_blocks(bs):
    return "|".join(",".join(b) for b in bs)


def py_legal(hist, blocks):
    """Independent (Python) evaluation of the property, used only in the failing-input search."""
    names = sg.NAMES[:len(hist)]
    if [n for b in blocks for n in b] != names or any(not b for b in blocks):
        return False
    info = dict(zip(names, hist))
    for b in blocks:
        for n1, n2 in itertools.combinations(b, 2):
            f1, f2 = info[n1], info[n2]
            p1 = list(itertools.takewhile(lambda r: r not in f1["space"], f1["loop"]))
            p2 = list(itertools.takewhile(lambda r: r not in f2["space"], f2["loop"]))
            if f1["config"] != f2["config"] or p1 != p2 or set(f1["comps"]) & set(f2["comps"]):
                return False
    return True


def histories(ctx):
    feats = sg.all_einsum_features(small=True)
    hs = []
    # exhaustive, length <= 2 over the small feature set (pairs decide every fusion condition)
    for f in feats:
        hs.append([f])
    pairs = list(itertools.product(feats, feats))
    if ctx.quick():
        ctx.rng.shuffle(pairs)
        pairs = pairs[:600]
    hs.extend([list(p) for p in pairs])
    nrand = 300 if ctx.quick() else 3000
    for _ in range(nrand):
        n = ctx.rng.randint(3, 6)
        # bias towards long fusable runs: reuse the previous config/loop/space often
        h = []
        for i in range(n):
            f = sg.random_feature(ctx.rng)
            if h and ctx.rng.random() < 0.6:
                f["config"] = h[-1]["config"]
                f["loop"] = list(h[-1]["loop"])
                f["space"] = list(h[-1]["space"])
                comps = [c[0] for c in sg.CONFIGS[f["config"]]["comps"]]
                f["comps"] = [c for c in comps if ctx.rng.random() < 0.35]
                f["empty"] = []
            h.append(f)
        hs.append(h)
    return hs


def rich_cascades(ctx):
    """T-ref on whole specifications with real architectures (DRAM/cache/buffets, compute units, intersectors of each type,
    sequencers, mergers; 1-3 configurations; tools/specgen_time.py): the metrics["blocks"] literal of the emitted dump and
    Fusion.get_blocks() are decided by legal_blocks_b against features recomputed from the specification alone.  A fraction
    of the cascades is made to re-bind a functional component of the previous Einsum (the situation the third clause of
    the property is about)."""
    import specgen_time as st
    from props import c14
    rng = ctx.rng
    n = 120 if ctx.quick() else 1200
    rows, stats = [], {"generated": n, "compiled": 0, "rejected": {}, "shared_functional": 0, "kinds": {}}
    for _ in range(n):
        S = st.gen(rng, special_names=False)
        es = S["einsums"]
        if len(es) >= 2 and rng.random() < 0.5:
            # continue the previous Einsum's configuration, loop order and space, and re-bind one of its functional components
            i = rng.randrange(1, len(es))
            a, b = es[i - 1], es[i]
            if sorted(a["loop"]) == sorted(b["loop"]):
                b["config"], b["loop"], b["space"] = a["config"], list(a["loop"]), list(a["space"])
                arch = dict(S["arch"])[a["config"]]
                cls = {c["name"]: c["class"].lower() for c, _ in st.config_components(arch)}
                fus = [(nm, bs) for nm, bs in a["bindings"] if bs and cls.get(nm) in st.FUNCTIONAL]
                b["bindings"] = [(nm, bs) for nm, bs in b["bindings"] if cls.get(nm) is not None]
                if fus and rng.random() < 0.7:
                    nm, bs = rng.choice(fus)
                    b["bindings"] = [(x, y) for x, y in b["bindings"] if x != nm] + [(nm, [dict(z) for z in bs])]
        if len(es) >= 2 and len(S["arch"]) >= 2 and not S.get("shared_names") and rng.random() < 0.3:
            # two adjacent Einsums of one configuration both bind a compute unit that only ANOTHER configuration declares
            i = rng.randrange(1, len(es))
            a, b = es[i - 1], es[i]
            if sorted(a["loop"]) == sorted(b["loop"]):
                b["config"], b["loop"], b["space"] = a["config"], list(a["loop"]), list(a["space"])
                own = set(c["name"] for c, _ in st.config_components(dict(S["arch"])[a["config"]]))
                foreign = [c for cfg, tree in S["arch"] if cfg != a["config"] for c, _ in st.config_components(tree)
                           if c["class"].lower() == "compute" and c["attrs"].get("type") == "mul" and c["name"] not in own]
                if foreign:
                    nm = rng.choice(foreign)["name"]
                    for e in (a, b):
                        e["bindings"] = [(x, y) for x, y in e["bindings"] if x in own and x != nm] + [(nm, [{"op": "mul"}])]
                    stats["foreign_component_pairs"] = stats.get("foreign_component_pairs", 0) + 1
        feats = st.features(S)
        y = st.to_yaml(S)
        try:
            text, blocks, reg = c14.compile_yaml(y)
        except Exception as e:
            k = type(e).__name__ + ": " + str(e)[:50]
            stats["rejected"][k] = stats["rejected"].get(k, 0) + 1
            continue
        stats["compiled"] += 1
        dump = "missing"
        for node in ast.parse(text).body:
            if isinstance(node, ast.Assign) and ast.unparse(node.targets[0]) == "metrics['blocks']":
                dump = ast.literal_eval(node.value)
        arch_cls = {}
        for cfg, tree in S["arch"]:
            for c, _ in st.config_components(tree):
                arch_cls[c["name"]] = c["class"].lower()
        for f in feats:
            for c in f["fcomps"]:
                stats["kinds"][arch_cls.get(c, "?")] = stats["kinds"].get(arch_cls.get(c, "?"), 0) + 1
        for f1, f2 in zip(feats, feats[1:]):
            if set(f1["fcomps"]) & set(f2["fcomps"]) and f1["config"] == f2["config"]:
                stats["shared_functional"] += 1
        rows.append((feats, blocks, dump, y))
    exprs = []
    for feats, blocks, dump, y in rows:
        h = clist("(mkE %s %s (temporal_prefix %s %s) %s)" % (cstr(f["name"]), cstr(f["config"]), clist(map(cstr, f["loop"])),
                                                              clist(map(cstr, f["space"])), clist(map(cstr, f["fcomps"]))) for f in feats)
        exprs.append("(let h := %s in show_bool (legal_blocks_b h %s) ++ \"#\" ++ show_bool (legal_blocks_b h %s) ++ \"#\" ++ show_blocks (get_blocks (frun h)))"
                     % (h, coq_blocks(blocks), coq_blocks(dump if isinstance(dump, list) else blocks)))
    res = vlib.coq_eval_lines("c13r", ["TV.Model.Fusion", "TV.Model.Show"], "", exprs)
    for (feats, blocks, dump, y), r in zip(rows, res):
        ok_code, ok_dump, model = r.split("#")
        hist = [{k: f[k] for k in ("name", "config", "loop", "space", "fcomps")} for f in feats]
        if dump == "missing":
            ctx.violation({"kind": "dump-blocks-missing"}, "the emitted dump has no metrics[\"blocks\"] assignment (features %s)" % hist,
                          {"yaml": y, "features": hist, "code_blocks": blocks, "rich": True})
        elif ok_code != "T" or ok_dump != "T":
            ctx.violation({"kind": "illegal-blocks"}, "blocks %s (dump %s) are not a legal partition for the Einsums %s" % (blocks, dump, hist),
                          {"yaml": y, "features": hist, "code_blocks": blocks, "dump_blocks": dump, "model_blocks": model, "rich": True})
        elif dump != blocks:
            ctx.violation({"kind": "dump-blocks-differ"}, "metrics[\"blocks\"] %s differs from Fusion.get_blocks() %s" % (dump, blocks),
                          {"yaml": y, "features": hist, "rich": True}, no_input=True)
        elif model != show_blocks(blocks):
            ctx.violation({"kind": "model-correspondence"},
                          "Fusion.add_einsum and Model/Fusion.v disagree on a whole specification (model %s, code %s); the code's blocks are legal"
                          % (model, show_blocks(blocks)), {"yaml": y, "features": hist, "code_blocks": blocks, "model_blocks": model, "rich": True}, no_input=True)
    return stats, len(rows)


def run(ctx):
    rich_stats, rich_n = rich_cascades(ctx)
    ctx.coverage["rich_cascades"] = rich_stats
    hs = histories(ctx)
    rows = []
    for h in hs:
        b, d = code_blocks(h)
        rows.append((h, b, d))
    exprs = []
    for h, b, d in rows:
        exprs.append("(let h := %s in show_blocks (get_blocks (frun h)) ++ \"#\" ++ show_bool (legal_blocks_b h %s) ++ \"#\" ++ show_bool (legal_blocks_b h %s))"
                     % (coq_hist(h), coq_blocks(b), coq_blocks(d if isinstance(d, list) else b)))
    res = vlib.coq_eval_lines("c13", ["TV.Model.Fusion", "TV.Model.Show"], "", exprs)
    n_dis = 0
    fused_pairs = 0
    multi = 0
    samples = []
    seen = set()
    for (h, b, d), r in zip(rows, res):
        model, ok_code, ok_dump = r.split("#")
        if d == "missing":
            ctx.violation({"kind": "dump-blocks-missing"}, "the emitted dump of a %d-Einsum specification has no metrics[\"blocks\"] assignment (history %s)" % (len(h), h),
                          {"history": h, "yaml": sg.to_yaml(h), "code_blocks": b})
            continue
        key = {"kind": "illegal-blocks"}
        if len(b) < len(h):
            fused_pairs += 1
        if len(h) > 1:
            multi += 1
        seen.add(show_blocks(b) + "/" + repr(h))
        if ok_code != "T" or ok_dump != "T":
            ctx.violation(key, "blocks %s (dump %s) are not a legal partition for history %s" % (b, d, h),
                          {"history": h, "yaml": sg.to_yaml(h), "code_blocks": b, "dump_blocks": d, "model_blocks": model})
            continue
        if d is not None and d != b:
            ctx.violation({"kind": "dump-blocks-differ"}, "metrics[\"blocks\"] %s differs from Fusion.get_blocks() %s" % (d, b),
                          {"history": h, "yaml": sg.to_yaml(h)}, no_input=True)
            continue
        if model != show_blocks(b):
            n_dis += 1
            # correspondence broke: the code's answer is legal (checked above by the verified checker)
            ctx.violation({"kind": "model-correspondence"},
                          "Fusion.add_einsum and Model/Fusion.v disagree (model %s, code %s); the code's blocks are legal for this history, "
                          "so theorem C13_fusion_legal no longer covers the code" % (model, show_blocks(b)),
                          {"history": h, "yaml": sg.to_yaml(h), "code_blocks": b, "model_blocks": model,
                           "correspondence": "T-eq Model/Fusion.v fstep vs teaal.ir.fusion.Fusion.add_einsum"}, no_input=True)
        if len(samples) < 3 and len(h) >= 3 and len(b) < len(h):
            samples.append({"history": h, "code_blocks": b, "model_blocks": model})
    ctx.coverage.update({
        "programs": len(rows) + rich_n,
        "disagreements_checked": n_dis,
        "evaluations": len(rows),
        "distinct_nontrivial": len([s for s in seen]) if multi else 0,
        "histories_with_fusion": fused_pairs,
        "histories_multi_einsum": multi,
        "rule": "histories of 1-6 Einsums over 2 configs x loop orders x space lists (in and out of loop order) x component subsets; "
                "all single Einsums, pairs over the small feature set (sampled in quick), seeded random longer histories biased to fusable runs; "
                "non-trivial = at least two Einsums",
        "samples": samples or [{"history": rows[-1][0], "code_blocks": rows[-1][1]}],
        "trusted_base": ["Coq 8.16.1 kernel + VM (vm_compute)", "tools/props/c13.py feature extraction from the generated YAML",
                         "Model/Fusion.v tied to teaal.ir.fusion by T-eq on every run"],
    })
    ctx.assumptions += ["per-Einsum features (config, loop order, space list, bound components) are recomputed by the harness from the specification, not read from Fusion",
                        "components with an empty binding list do not count as bound (as in the code)"]


def replay(ctx, rep):
    if rep["replay"].get("rich"):
        from props import c14
        r = rep["replay"]
        text, blocks, reg = c14.compile_yaml(r["yaml"])
        names = [f["name"] for f in r["features"]]
        info = {f["name"]: {"config": f["config"], "loop": f["loop"], "space": f["space"], "comps": f["fcomps"]} for f in r["features"]}
        hist = [info[n] for n in names]
        dump = "missing"
        for node in ast.parse(text).body:
            if isinstance(node, ast.Assign) and ast.unparse(node.targets[0]) == "metrics['blocks']":
                dump = ast.literal_eval(node.value)
        # py_legal works on the generic names T,U,...: rename
        ren = dict(zip(names, sg.NAMES))
        ok = dump == blocks and py_legal(hist, [[ren[x] for x in b] for b in blocks])
        print("blocks:", blocks, "dump:", dump, "legal:", ok)
        if not ok:
            print("VIOLATION property=C13 replay=<given file>")
            return 1
        return 0
    h = rep["replay"]["history"]
    b, d = code_blocks(h)
    ok = py_legal(h, b) and (d is None or d == b)   # d == "missing" fails here too
    print("history:", h)
    print("code blocks:", b, "dump blocks:", d, "legal:", ok)
    if not ok:
        print("VIOLATION property=C13 replay=%s" % rep.get("path", "<given file>"))
        return 1
    return 0
