"""C17 - specification text is parsed into exactly the structure written.

Theorems (coq/Props/C17.v, proofs in Proofs/LexProofs.v + Proofs/GrammarProofs.v), for each of the five
grammars (Einsum expression, partitioning directive, rank tuple, spacetime stamp, architecture level name):
  parse_print : for EVERY well-formed syntax tree a and EVERY choice ws of blank/tab strings around the tokens,
                parse (print a ws) = Some a          (exactness, independence of insignificant whitespace)
  parse_sound : parse s = Some a  ->  a well-formed and  s = print a ws  for some blank strings ws
                (nothing outside the grammar is accepted, nothing is partially parsed)
on the Gallina model Model/Lex.v + Model/Grammar.v (tokenizer with the grammars' literal terminals, recursive
descent, the post-parse rewrites as `view` functions: signed coefficients, empty rank lists, default style pos,
N+1 instances).

Tie (T-eq, re-established on every run against /repo's working tree): freshly generated strings
  (a) printed from generated syntax trees with random inter-token blanks/tabs and numeral spellings,
  (b) near-misses (character and token edits, keyword/identifier confusions, broken literal terminals,
      enumerated fragment sequences of the small grammars),
  (c) the non-integer NUMBERs Lark's common.NUMBER admits (4.5, 1e1, .5, 5.) and other numeral look-alikes
are given to the real EquationParser / PartitioningParser / SpaceTimeParser / LevelParser+Architecture (and, in
batches, to Einsum / Mapping / Architecture as whole sections); the returned trees are read back by an
independent extractor and compared (1) with the generating structure and (2) with the Gallina parser evaluated
by the kernel on the same string.  For (a) the kernel also confirms that the string IS `print a ws` of a
well-formed tree, i.e. that it lies in the domain of the theorems.  "Rejected" = a Lark exception from the parser
or ValueError at the integer conversion the consumers apply (int(token)).
"""
import itertools
import json

import vlib

LEVEL = "proof"
IMPORTS = ["Coq.Numbers.Cyclic.Int63.Uint63", "TV.Model.Lex", "TV.Model.Grammar"]
GRAMMARS = ["eq", "dir", "rt", "st", "lv"]
GNAME = {"eq": "Einsum expression", "dir": "partitioning directive", "rt": "rank tuple",
         "st": "spacetime stamp", "lv": "architecture level name"}


# ----------------------------------------------------------------------------------------------
# Coq literals
# ----------------------------------------------------------------------------------------------

def cs(s):
    """Python str -> Gallina string term (any characters: non-printable ones as byte codes, UTF-8)."""
    out = []
    cur = []
    for b in s.encode("utf-8"):
        if 32 <= b < 127 and b != 34:
            cur.append(chr(b))
        else:
            if cur:
                out.append('"%s"' % "".join(cur))
                cur = []
            out.append("sc %d" % b)
    if cur:
        out.append('"%s"' % "".join(cur))
    if not out:
        return '""'
    if len(out) == 1 and out[0].startswith('"'):
        return out[0]
    return "(" + " ++ ".join(out) + ")"


def cp(s):
    """Python str -> Gallina string term, packed 7 bytes per primitive integer (Model/Grammar.v `up`)."""
    b = s.encode("utf-8")
    if not b:
        return '""'
    ws = []
    for i in range(0, len(b), 7):
        chunk = b[i:i + 7]
        w = len(chunk) << 56
        for j, x in enumerate(chunk):
            w |= x << (8 * j)
        ws.append(str(w))
    return "(up [%s]%%uint63)" % "; ".join(ws)


def cl(items):
    items = list(items)
    return "[" + "; ".join(items) + "]" if items else "[]"


# ----------------------------------------------------------------------------------------------
# The code side: public parser classes + an independent extractor of what the tree contains
# ----------------------------------------------------------------------------------------------

class BadTree(Exception):
    pass


def _is_tree(t):
    from lark.tree import Tree
    return isinstance(t, Tree)


def _tok(t):
    from lark import Token
    if not isinstance(t, Token):
        raise BadTree("expected a token, found %r" % (t,))
    return str(t)


def _int(t):
    """The integer the consumers read from a NUMBER token: int(token)."""
    return int(_tok(t))


def _node(t, data, n=None):
    if not _is_tree(t) or str(t.data) != data:
        raise BadTree("expected a %s node, found %r" % (data, t))
    if n is not None and len(t.children) != n:
        raise BadTree("%s node with %d children" % (data, len(t.children)))
    return t.children


def x_iterm(t):
    if _is_tree(t) and t.data == "ijust":
        return _tok(_node(t, "ijust", 1)[0])
    c, x = _node(t, "itimes", 2)
    return "%d*%s" % (_int(c), _tok(x))


def x_iexpr(t):
    ch = _node(t, "iplus")
    if not ch:
        raise BadTree("empty iplus")
    return "+".join(x_iterm(c) for c in ch)


def x_ranks(t):
    return "[" + ",".join(x_iexpr(c) for c in _node(t, "ranks")) + "]"


def x_factor(t):
    if _is_tree(t) and t.data == "var":
        return _tok(_node(t, "var", 1)[0])
    nm, rk = _node(t, "tensor", 2)
    return _tok(nm) + x_ranks(rk)


def x_term(t):
    if _is_tree(t) and t.data == "take":
        ch = t.children
        if len(ch) < 2:
            raise BadTree("take with %d children" % len(ch))
        return "take(" + ",".join(x_factor(c) for c in ch[:-1]) + "," + str(_int(ch[-1])) + ")"
    ch = _node(t, "times")
    if not ch:
        raise BadTree("empty times")
    return "*".join(x_factor(c) for c in ch)


def x_einsum(t):
    out, plus = _node(t, "einsum", 2)
    nm, rk = _node(out, "output", 2)
    terms = _node(plus, "plus")
    if not terms:
        raise BadTree("empty plus")
    return _tok(nm) + x_ranks(rk) + "=" + "+".join(x_term(c) for c in terms)


def x_size(t):
    if _is_tree(t) and t.data == "int_sz":
        return "int:%d" % _int(_node(t, "int_sz", 1)[0])
    return "str:" + _tok(_node(t, "str_sz", 1)[0])


def x_leader(t):
    return _tok(_node(t, "leader", 1)[0])


def x_dir(t):
    if not _is_tree(t):
        raise BadTree("not a tree: %r" % (t,))
    d = str(t.data)
    if d in ("nway_shape", "uniform_shape"):
        return "%s(%s)" % (d, x_size(_node(t, d, 1)[0]))
    if d == "uniform_occupancy":
        l, sz = _node(t, d, 2)
        return "uniform_occupancy(%s.%s)" % (x_leader(l), x_size(sz))
    if d == "flatten":
        _node(t, d, 0)
        return "flatten()"
    if d == "follow":
        return "follow(%s)" % x_leader(_node(t, d, 1)[0])
    raise BadTree("unknown directive node %r" % d)


def x_rt(t):
    if _is_tree(t) and t.data == "rank":
        return "rank(%s)" % _tok(_node(t, "rank", 1)[0])
    ch = _node(t, "ranks")
    if len(ch) < 2:
        raise BadTree("ranks node with %d children" % len(ch))
    return "ranks(%s)" % ",".join(_tok(c) for c in ch)


def x_st(t):
    if _is_tree(t) and t.data == "coord":
        return "coord(%s)" % _tok(_node(t, "coord", 1)[0])
    return "pos(%s)" % _tok(_node(t, "pos", 1)[0])


def x_lv_tree(t):
    """(name, N or None) from the LevelParser tree."""
    if _is_tree(t) and t.data == "single":
        return _tok(_node(t, "single", 1)[0]), None
    nm, num = _node(t, "multiple", 2)
    return _tok(nm), _int(num)


def _reject_types():
    from lark.exceptions import LarkError
    return (LarkError, ValueError)


def observe(g, s):
    """-> (outcome, detail): outcome = the flat view of the parsed tree, 'REJECT', or 'ERROR:<class>'."""
    from teaal.parse.equation import EquationParser
    from teaal.parse.partitioning import PartitioningParser
    from teaal.parse.spacetime import SpaceTimeParser
    from teaal.parse.level import LevelParser
    from teaal.parse.arch import Architecture
    try:
        if g == "eq":
            return x_einsum(EquationParser.parse(s)), "ok"
        if g == "dir":
            return x_dir(PartitioningParser.parse_partitioning(s)), "ok"
        if g == "rt":
            return x_rt(PartitioningParser.parse_ranks(s)), "ok"
        if g == "st":
            return x_st(SpaceTimeParser.parse(s)), "ok"
        if g == "lv":
            nm, n = x_lv_tree(LevelParser.parse(s))
            spec = {"architecture": {"cfg": [{"name": s}]}}
            node = Architecture(spec).get_spec()["architecture"]["cfg"][0]
            if node["name"] != nm or not isinstance(node["num"], int) or isinstance(node["num"], bool):
                raise BadTree("Architecture name/num %r/%r vs LevelParser tree %r" % (node["name"], node["num"], (nm, n)))
            return "%s#%d" % (node["name"], node["num"]), "ok"
        raise AssertionError(g)
    except _reject_types() as e:
        return "REJECT", type(e).__name__
    except BadTree as e:
        return "ERROR:BadTree", str(e)[:200]
    except Exception as e:  # anything else is neither a tree nor a rejection
        return "ERROR:" + type(e).__name__, str(e)[:200]


# ----------------------------------------------------------------------------------------------
# Generators: syntax trees, printing with chosen blanks, expected views, Gallina terms
# ----------------------------------------------------------------------------------------------

POOL = ["A", "B", "C", "Z", "T1", "a", "b", "k", "m", "n", "K", "M", "N", "k1", "K0", "_", "_x", "x_y", "take",
        "pos", "coord", "e1", "E", "e", "uniform_shape", "flatten", "follow", "nway_shape", "uniform_occupancy",
        "Abc9", "q0", "W", "PE", "DRAM", "int", "I", "l", "O0"]
ALPHA = "abcdefghijklmnopqrstuvwxyzABCDEFGHIJKLMNOPQRSTUVWXYZ_"
ALNUM = ALPHA + "0123456789"
VALUES = [0, 0, 1, 1, 2, 2, 3, 4, 5, 7, 8, 9, 10, 15, 16, 64, 100, 255, 1024, 65536, 10 ** 18 + 7,
          123456789012345678901234567890]


def rname(rng):
    if rng.random() < 0.75:
        return rng.choice(POOL)
    return rng.choice(ALPHA) + "".join(rng.choice(ALNUM) for _ in range(rng.randint(0, 5)))


def rdigits(rng):
    v = rng.choice(VALUES) if rng.random() < 0.8 else rng.randint(0, 999)
    s = str(v)
    if rng.random() < 0.15:
        s = "0" * rng.randint(1, 3) + s
    return s


def rgap(rng, style):
    if style == "compact":
        return ""
    if style == "spaced":
        return " "
    if rng.random() < 0.55:
        return ""
    return "".join(rng.choice("  \t") for _ in range(rng.randint(1, 3)))


class G:
    """One grammar: gen(rng) -> tree; toks(tree) -> token texts; view(tree)."""


# ---- Einsum expressions: tree = (out, ranks, terms)
def gen_iterm(rng):
    if rng.random() < 0.55:
        return ("j", rname(rng))
    return ("t", rng.random() < 0.45, rdigits(rng), rname(rng))


def gen_iexpr(rng):
    return [gen_iterm(rng) for _ in range(rng.choice([1, 1, 1, 2, 2, 3]))]


def gen_ranks(rng):
    return [gen_iexpr(rng) for _ in range(rng.choice([0, 1, 1, 2, 2, 3, 4]))]


def gen_factor(rng):
    if rng.random() < 0.25:
        return ("v", rname(rng))
    return ("T", rname(rng), gen_ranks(rng))


def gen_term(rng):
    fs = [gen_factor(rng) for _ in range(rng.choice([1, 2, 2, 3]))]
    if rng.random() < 0.3:
        return ("take", fs, rdigits(rng))
    return ("times", fs)


def gen_eq(rng):
    return (rname(rng), gen_ranks(rng), [gen_term(rng) for _ in range(rng.choice([1, 1, 2, 3]))])


def _join(sep, lists):
    out = []
    for i, l in enumerate(lists):
        if i:
            out.append(sep)
        out.extend(l)
    return out


def t_iterm(t):
    if t[0] == "j":
        return [t[1]]
    return (["-"] if t[1] else []) + [t[2], "*", t[3]]


def t_ranks(rs):
    return ["["] + _join(",", [_join("+", [t_iterm(t) for t in e]) for e in rs]) + ["]"]


def t_factor(f):
    return [f[1]] if f[0] == "v" else [f[1]] + t_ranks(f[2])


def t_term(t):
    if t[0] == "take":
        return ["take("] + _join(",", [t_factor(f) for f in t[1]]) + [",", t[2], ")"]
    return _join("*", [t_factor(f) for f in t[1]])


def toks_eq(e):
    return [e[0]] + t_ranks(e[1]) + ["="] + _join("+", [t_term(t) for t in e[2]])


def v_iterm(t):
    if t[0] == "j":
        return t[1]
    return "%d*%s" % (-int(t[2]) if t[1] else int(t[2]), t[3])


def v_ranks(rs):
    return "[" + ",".join("+".join(v_iterm(t) for t in e) for e in rs) + "]"


def v_factor(f):
    return f[1] if f[0] == "v" else f[1] + v_ranks(f[2])


def v_term(t):
    if t[0] == "take":
        return "take(" + ",".join(v_factor(f) for f in t[1]) + "," + str(int(t[2])) + ")"
    return "*".join(v_factor(f) for f in t[1])


def view_eq(e):
    return e[0] + v_ranks(e[1]) + "=" + "+".join(v_term(t) for t in e[2])







# ---- directives: ("nway", sz) ("uocc", leader, sz) ("ushape", sz) ("flatten",) ("follow", leader); sz = ("i", ds)|("s", x)
def gen_size(rng):
    return ("i", rdigits(rng)) if rng.random() < 0.55 else ("s", rname(rng))


def gen_dir(rng):
    k = rng.choice(["nway", "uocc", "uocc", "ushape", "flatten", "follow"])
    if k in ("nway", "ushape"):
        return (k, gen_size(rng))
    if k == "uocc":
        return (k, rname(rng), gen_size(rng))
    if k == "follow":
        return (k, rname(rng))
    return (k,)


KW = {"nway": "nway_shape", "uocc": "uniform_occupancy", "ushape": "uniform_shape", "flatten": "flatten", "follow": "follow"}


def toks_dir(d):
    k = d[0]
    if k in ("nway", "ushape"):
        return [KW[k] + "(", d[1][1], ")"]
    if k == "uocc":
        return [KW[k] + "(", d[1], ".", d[2][1], ")"]
    if k == "follow":
        return [KW[k] + "(", d[1], ")"]
    return ["flatten(", ")"]


def v_size(sz):
    return "int:%d" % int(sz[1]) if sz[0] == "i" else "str:" + sz[1]


def view_dir(d):
    k = d[0]
    if k in ("nway", "ushape"):
        return "%s(%s)" % (KW[k], v_size(d[1]))
    if k == "uocc":
        return "uniform_occupancy(%s.%s)" % (d[1], v_size(d[2]))
    if k == "follow":
        return "follow(%s)" % d[1]
    return "flatten()"




# ---- rank tuples: ("one", x) | ("many", [x...])
def gen_rt(rng):
    if rng.random() < 0.35:
        return ("one", rname(rng))
    return ("many", [rname(rng) for _ in range(rng.choice([2, 2, 3, 3, 4, 6]))])


def toks_rt(r):
    return [r[1]] if r[0] == "one" else ["("] + _join(",", [[x] for x in r[1]]) + [")"]


def view_rt(r):
    return "rank(%s)" % r[1] if r[0] == "one" else "ranks(%s)" % ",".join(r[1])



# ---- stamps: ("bare"|"pos"|"coord", x)
def gen_st(rng):
    return (rng.choice(["bare", "pos", "coord"]), rname(rng))


def toks_st(a):
    return [a[1]] if a[0] == "bare" else [a[1], "." + a[0]]


def view_st(a):
    return "%s(%s)" % ("coord" if a[0] == "coord" else "pos", a[1])



# ---- level names: ("single", x) | ("multiple", x, ds)
def gen_lv(rng):
    if rng.random() < 0.35:
        return ("single", rname(rng))
    return ("multiple", rname(rng), rdigits(rng))


def toks_lv(a):
    return [a[1]] if a[0] == "single" else [a[1], "[0..", a[2], "]"]


def view_lv(a):
    return "%s#%d" % (a[1], 1 if a[0] == "single" else int(a[2]) + 1)



GEN = {"eq": (gen_eq, toks_eq, view_eq), "dir": (gen_dir, toks_dir, view_dir), "rt": (gen_rt, toks_rt, view_rt),
       "st": (gen_st, toks_st, view_st), "lv": (gen_lv, toks_lv, view_lv)}


def lay_out(toks, gaps):
    return gaps[0] + "".join(t + g for t, g in zip(toks, gaps[1:]))


def enc_ws(gaps):
    return "|".join(g.replace(" ", "s").replace("\t", "t") for g in gaps)


def gen_case(g, rng):
    gen, toks, view = GEN[g]
    a = gen(rng)
    tk = toks(a)
    style = rng.choice(["compact", "spaced", "random", "random", "random"])
    gaps = [rgap(rng, style) for _ in range(len(tk) + 1)]
    return {"g": g, "kind": "gen", "s": lay_out(tk, gaps), "tree": a, "toks": tk, "gaps": gaps, "view": view(a),
            "ws": enc_ws(gaps)}


# ----------------------------------------------------------------------------------------------
# Near-misses
# ----------------------------------------------------------------------------------------------

NOISE = list(" \t\n\r.,()[]*+-=0123456789eE_aZk:;#'\"/\\{}<>!~|&%$@^?") + ["\x0b", "\x0c", " ", "é", "K", "１"]
NUMLIKE = ["4.5", "1e1", "1E1", ".5", "5.", "0.0", "1e+1", "1e-1", "1.5e3", "00.5", "0x10", "1_0", "+1", "-1", "1e", "2e5",
           "１", "1.0", "10.", "0e0", "1 0", "--1", "1-", "٣"]
LITERAL_BREAKS = {
    "take(": ["take (", "Take(", "takes(", "tak(", "take[", "take((", "take", "(", "take(take(", "_take("],
    ".pos": [". pos", ".Pos", ".position", ".po", ".pos.pos", ".pos.coord", ".", "..pos", ".p os", ":pos", ".pos1", ".POS"],
    ".coord": [". coord", ".Coord", ".coords", ".coor", ".coord.coord", ".coord.pos", ".", "..coord", ".co ord", ".coord_"],
    "[0..": ["[0 ..", "[ 0..", "[0. .", "[1..", "[0...", "[0.", "[0", "[", "[00..", "[0..0..", "(0..", "[0,,", "[-0..", "[0..-"],
    "uniform_shape(": ["uniform_shape (", "Uniform_shape(", "uniform_shapes(", "uniform-shape(", "uniform_shape", "uniformshape(", "uniform_shape(("],
    "uniform_occupancy(": ["uniform_occupancy (", "uniform_occupancy", "uniform_occupanc(", "uniform_occupancy[", "Uniform_occupancy("],
    "nway_shape(": ["nway_shape (", "nway_shape", "nway(", "n_way_shape(", "NWAY_SHAPE("],
    "flatten(": ["flatten (", "flatten", "flat(", "Flatten("],
    "follow(": ["follow (", "follow", "follows(", "Follow("],
}


def is_num(t):
    return t.isdigit()


def is_name(t):
    return t[:1] in ALPHA and all(c in ALNUM for c in t)


def near_from(case, rng):
    """One edited variant of a generated case (may or may not still be in the grammar)."""
    toks, gaps, s = list(case["toks"]), list(case["gaps"]), case["s"]
    r = rng.random()
    how = None
    if r < 0.30 and s:
        # character edit
        i = rng.randrange(len(s) + 1)
        k = rng.choice(["del", "ins", "rep", "swap", "dup"])
        how = "char-" + k
        if k == "del" and i < len(s):
            s2 = s[:i] + s[i + 1:]
        elif k == "ins":
            s2 = s[:i] + rng.choice(NOISE) + s[i:]
        elif k == "rep" and i < len(s):
            s2 = s[:i] + rng.choice(NOISE) + s[i + 1:]
        elif k == "swap" and i + 1 < len(s):
            s2 = s[:i] + s[i + 1] + s[i] + s[i + 2:]
        else:
            j = rng.randrange(len(s) + 1)
            a, b = min(i, j), max(i, j)
            s2 = s[:b] + s[a:b] + s[b:]
        return s2, how
    i = rng.randrange(len(toks))
    if r < 0.42:
        how = "tok-del"
        del toks[i]
        del gaps[i + 1]
    elif r < 0.52:
        how = "tok-dup"
        toks.insert(i, toks[i])
        gaps.insert(i + 1, rgap(rng, "random"))
    elif r < 0.60 and len(toks) > 1:
        how = "tok-swap"
        i = rng.randrange(len(toks) - 1)
        toks[i], toks[i + 1] = toks[i + 1], toks[i]
    elif r < 0.72:
        nums = [j for j, t in enumerate(toks) if is_num(t)]
        if nums:
            how = "num-like"
            toks[rng.choice(nums)] = rng.choice(NUMLIKE)
        else:
            how = "name-to-num"
            names = [j for j, t in enumerate(toks) if is_name(t)]
            if names:
                toks[rng.choice(names)] = rng.choice(NUMLIKE + ["4", "0", "12"])
    elif r < 0.82:
        lits = [j for j, t in enumerate(toks) if t in LITERAL_BREAKS]
        if lits:
            how = "literal-break"
            j = rng.choice(lits)
            toks[j] = rng.choice(LITERAL_BREAKS[toks[j]])
        else:
            how = "name-to-keyword"
            names = [j for j, t in enumerate(toks) if is_name(t)]
            if names:
                toks[rng.choice(names)] = rng.choice(["take", "take(", "pos", ".pos", "coord", "flatten(", "follow", "K.pos", "A[0..3]", "-k", "2k", "k2", "k-1", "k+1", "1"])
    elif r < 0.90:
        how = "tok-replace"
        toks[i] = rng.choice(["[", "]", "(", ")", ",", "+", "*", "-", "=", ".", "take(", "..", "[0..", "K", "7", "", "[]", "()", "+-", "**"])
    elif r < 0.95:
        how = "glue-or-split"   # remove every blank / put a blank inside a token
        if rng.random() < 0.5:
            gaps = ["" for _ in gaps]
        else:
            t = toks[i]
            if len(t) > 1:
                j = rng.randrange(1, len(t))
                toks[i] = t[:j] + rng.choice([" ", "\t"]) + t[j:]
    else:
        how = "affix"
        if rng.random() < 0.5:
            gaps[-1] += rng.choice(["\n", ";", "#c", " x", ")", "]", " +", ",", "\r\n", "\x00", " = a"])
        else:
            gaps[0] = rng.choice(["\n", "-", "+", "(", "1", "=", "﻿", "# "]) + gaps[0]
    return lay_out(toks, gaps), how or "none"


ENUM = {
    "st": (["K", "k1", ".pos", ".coord", " ", ".", "1", "pos", "coord", "\t"], 4),
    "lv": (["PE", "[0..", "[", "0", "..", ".", "15", "]", " "], 4),
    "rt": (["(", ")", ",", "K", "M1", " ", "2"], 5),
    "dir": (["uniform_shape(", "uniform_occupancy(", "flatten(", "follow(", "nway_shape(", "K", "4", ".", ")", " ", "("], 4),
    "eq": (["Z", "a", "[", "]", "=", "+", "*", "-", ",", "take(", ")", "2", " "], 5),
}


def enum_cases(g, rng, limit):
    frags, n = ENUM[g]
    allseq = []
    for k in range(0, n + 1):
        allseq.extend(itertools.product(frags, repeat=k))
    if limit is not None and len(allseq) > limit:
        allseq = rng.sample(allseq, limit)
    return [{"g": g, "kind": "enum", "s": "".join(q), "how": "enum"} for q in allseq]


def systematic_cases(g, gens):
    """Deterministic near-misses (so that a broken literal terminal / numeral / whitespace rule is not found by
    luck): every LITERAL_BREAKS variant and every NUMLIKE spelling on a few generated strings, every NOISE
    character inserted at every position (and every single deletion) of two short ones, uniform gap layouts."""
    out = []

    def add(s, how):
        out.append({"g": g, "kind": "sys", "s": s, "how": how})
    for lit, variants in LITERAL_BREAKS.items():
        base = [c for c in gens if lit in c["toks"]][:4]
        for c in base:
            j = c["toks"].index(lit)
            for v in variants:
                for glue in (False, True):
                    toks = list(c["toks"])
                    toks[j] = v
                    gaps = ["" for _ in c["gaps"]] if glue else c["gaps"]
                    add(lay_out(toks, gaps), "sys-literal-break")
    base = [c for c in gens if any(is_num(t) for t in c["toks"])][:4]
    for c in base:
        nums = [j for j, t in enumerate(c["toks"]) if is_num(t)]
        for j in (nums[0], nums[-1]):
            for v in NUMLIKE:
                toks = list(c["toks"])
                toks[j] = v
                add(lay_out(toks, c["gaps"]), "sys-num-like")
    short = sorted([c for c in gens if 6 <= len(c["s"]) <= 30], key=lambda c: -len(c["s"]))[:1]
    for c in short:
        s = c["s"]
        for i in range(len(s) + 1):
            for ch in NOISE:
                add(s[:i] + ch + s[i:], "sys-char-insert")
            if i < len(s):
                add(s[:i] + s[i + 1:], "sys-char-delete")
    for c in gens[:6]:
        for gap in ("", " ", "\t", " \t "):
            add(lay_out(c["toks"], [gap for _ in c["gaps"]]), "sys-uniform-gaps")
    return out


FIXED = {
    "eq": ["", " ", "Z[m]=A[m]\n", "Z[m] = take(A[m], B[m], 1.0)", "Z[m]=A[2.5*m]", "Z[m]=A[-2.5*m]", "Z[m]=A[1e1*m]", "Z[m]=A[-1e1*m]",
           "Z[m]=A[-0*m]", "Z[m]=A[- 007*m]", "Z[m]=A[--2*m]", "Z[m]=A[+2*m]", "Z[m]=A[m-k]", "Z[m]=A[m+1]", "Z[m]=take(A[m],1)", "Z[m]=take(1)",
           "Z[m]=take(take,take[m],0)", "Z[m]=take*take[m]", "Z=A", "Z[]=a", "Z[ ] = a", "Z[m]=A[m]B[m]", "Z[m]=take(A[m],B[m],0)*C[m]",
           "Z[m]=C[m]*take(A[m],B[m],0)", "Z[m]=take(A[m],B[m],-1)", "Z[m]=take(A[m],B[m],k)", "Z[m]=A[2*3*m]", "Z[m]=A[m*2]", "Z[m]=2*A[m]",
           "Z[m]=A[2m]", "Z[m]=A[2 *m]", "Z[m]=A[.5*m]", "Z[m]=A[5.*m]", "Z[m] = A[m] = B[m]", "Z[m]=A[m] +", "Z[m]=A[m,]", "Z[m]=A[,m]",
           "Z[m]=A[m][k]", "Z[m]=take(A[m],B[m],0", "Z[m]=take(A[m] B[m],0)", "Z[m]=take(,0)", "Z[m]=take(A[m],,0)", "Z[m]=take(A[m],0,1)",
           "Z[m]=take(A[m],0)+take(B[m],00)", "Z[2*m+-3*k]=A[m]", "Z[m]=A[0..5*k]", "Z[m]=A[k.pos]"],
    "dir": ["", "uniform_shape(4.5)", "uniform_shape(1e1)", "uniform_occupancy(A.4.5)", "uniform_occupancy(A..4)", "uniform_occupancy(A1.5)",
            "uniform_occupancy(A.1e1)", "uniform_occupancy(A.e1)", "uniform_occupancy(A.4.)", "uniform_occupancy(4.5)", "uniform_occupancy(A)",
            "uniform_shape(04)", "uniform_shape(uniform_shape)", "nway_shape(nway_shape(4))", "flatten( )", "flatten()", "flatten(K)", "follow(4)",
            "follow (K)", "uniform_occupancy( A . K0 )", "uniform_occupancy(A .4)", "uniform_occupancy(A. 4)", "uniform_shape(-4)", "uniform_shape()",
            "uniform_shape(4,5)", "uniform_shape(4))", "uniform_shape(4)\n", "nway_shape(flatten)", "uniform_occupancy(follow.follow)",
            "uniform_occupancy(A.5e)", "uniform_occupancy(A.5e1)", "uniform_occupancy(A.K.4)", "uniform_occupancy(A.pos)"],
    "rt": ["", "K", "(K)", "()", "(K,M)", "K,M", "(K,M", "(K M)", "(K,,M)", "((K,M))", "(K,(M,N))", "(K,M,)", "K.pos", "(K,M)\n", "(K, 2)", "(K,M))", "K M", "( K\t,\tM )"],
    "st": ["", "K", "K.pos", "K.coord", "K .pos", "K. pos", "K.posx", "K.pos ", "K.Pos", "K.", ".pos", "K.pos.coord", "pos", "coord.coord", "pos.pos",
           "K..pos", "K.pos.pos", "1.pos", "K.po s", "K\t.coord\t", "K.coord\n", "K.5", "K.pos5", "K.pos_"],
    "lv": ["", "PE", "PE[0..15]", "PE[0..0]", "PE [0..15]", "PE[0.. 15 ] ", "PE[0 ..15]", "PE[ 0..15]", "PE[0..15", "PE[1..15]", "PE[0..1.5]", "PE[0..1e1]",
           "PE[0...5]", "PE[0..-1]", "PE[0..N]", "PE[0..015]", "PE[15]", "PE[0..15][0..3]", "PE[0..15]x", "0PE", "PE_1[0..7]", "P E", "PE[0..]",
           "PE[0.15]", "PE[0..1 5]", "PE[00..15]", "PE[0..15]\n", "PE[0..99999999999999999999]", "PE[0..1_0]", "PE[0..+1]", "PE[0..0x1]", "PE[0..5.]"],
}


def population(ctx):
    rng = ctx.rng
    q = ctx.quick()
    plan = {"eq": (700, 2000, 1500), "dir": (300, 1200, 2000), "rt": (200, 700, 2000), "st": (150, 600, 4000), "lv": (200, 800, 4000)}
    cases = []
    for g in GRAMMARS:
        ngen, nnear, nenum = plan[g]
        if not q:
            ngen, nnear, nenum = ngen * 8, nnear * 6, None if g != "eq" else 30000
        gens = [gen_case(g, rng) for _ in range(ngen)]
        cases.extend(gens)
        for _ in range(nnear):
            base = rng.choice(gens)
            s2, how = near_from(base, rng)
            cases.append({"g": g, "kind": "near", "s": s2, "how": how})
        cases.extend(enum_cases(g, rng, nenum))
        cases.extend(systematic_cases(g, gens))
        for s in FIXED[g]:
            cases.append({"g": g, "kind": "fixed", "s": s, "how": "fixed"})
    # de-duplicate per grammar (keep the generated one, which carries its tree)
    seen = {}
    out = []
    for c in cases:
        k = (c["g"], c["s"])
        if k in seen:
            continue
        seen[k] = True
        out.append(c)
    return out


# ----------------------------------------------------------------------------------------------
# Model side (kernel evaluated)
# ----------------------------------------------------------------------------------------------

def model_expr(c):
    """The comparison code == model is made inside the kernel evaluation (answer "=" or "!")."""
    g = c["g"]
    if c["kind"] == "gen":
        return "(chk_%s %s %s %s %s)" % (g, cp("".join(c["toks"])), cp(c["ws"]), cp(c["s"]), cp(c["code"]))
    return "(cmp_%s %s %s)" % (g, cp(c["s"]), cp(c["code"]))


def eval_exprs(tag, exprs, est):
    """Kernel evaluation of the expressions.  vlib.coq_eval_lines reads a shard's output only after coqc has
    exited, so one shard must stay well below the 64 KiB pipe buffer: the shard size is chosen from the
    estimated output sizes `est` (and as large as possible: coqc start-up dominates small shards)."""
    n = len(exprs)
    k = min(1500, max(50, -(-n // vlib.NPROC)))
    while k > 10 and max(sum(est[i:i + k]) for i in range(0, n, k)) > 40000:
        k = int(k * 0.8)
    return vlib.coq_eval_lines(tag, IMPORTS, "", exprs, shard=k)


def model_eval(tag, cases):
    """-> per case (flags, model answer); the model's answer is fetched in a second evaluation only for the
    cases on which the kernel found a disagreement (at most 400 of them; beyond that it is reported as '?')."""
    res = eval_exprs(tag, [model_expr(c) for c in cases], [8] * len(cases))
    out = [None] * len(cases)
    diff = []
    for i, (c, r) in enumerate(zip(cases, res)):
        flags, verdict = r[:-1], r[-1:]
        if verdict == "=":
            out[i] = (flags, c["code"])
        else:
            assert verdict == "!", r
            out[i] = (flags, "?")
            diff.append(i)
    by_g = {}
    for i in diff[:400]:
        by_g.setdefault(cases[i]["g"], []).append(i)
    for g, idx in by_g.items():
        for i, m in zip(idx, model_run_strings(tag + "d", g, [cases[i]["s"] for i in idx])):
            out[i] = (out[i][0], m)
    return out


def model_run_strings(tag, g, strs):
    return eval_exprs(tag, ["(run_%s %s)" % (g, cp(s)) for s in strs], [len(s.encode("utf-8")) + 16 for s in strs])


def shrink(g, s, rounds=6):
    """Shrink a string on which code and model disagree: per round every deletion of a substring between two
    token/blank boundaries (plus every single character) is tried in ONE kernel evaluation, the shortest
    candidate that still disagrees is kept."""
    import random
    rnd = random.Random(len(s))
    for _ in range(rounds):
        if len(s) < 2:
            break
        cuts = sorted(set([0, len(s)] + [i for i, ch in enumerate(s) if not (ch.isalnum() or ch == "_")]
                          + [i + 1 for i, ch in enumerate(s) if not (ch.isalnum() or ch == "_")]))
        pairs = [(i, j) for i in cuts for j in cuts if i < j and (i, j) != (0, len(s))]
        if len(pairs) > 1200:
            pairs = rnd.sample(pairs, 1200)
        cands = {}
        for i, j in pairs + [(k, k + 1) for k in range(len(s))]:
            c = s[:i] + s[j:]
            if c != s:
                cands[c] = True
        cands = sorted(cands, key=len)
        model = model_run_strings("c17s", g, cands)
        nxt = None
        for c, m in zip(cands, model):
            if observe(g, c)[0] != m:
                nxt = c
                break
        if nxt is None:
            break
        s = nxt
    return s


def features(s):
    """Structural features of the input string (for the violation key)."""
    f = []
    if any(ch in s for ch in "\n\r\x0b\x0c"):
        f.append("vertical-whitespace")
    if any(ord(ch) > 126 for ch in s):
        f.append("non-ascii")
    if "\t" in s:
        f.append("tab")
    import re
    if re.search(r"\d\.|\.\d|\d[eE][-+]?\d", s):
        f.append("non-integer-number")
    if re.search(r"(?<![A-Za-z0-9_])0\d", s):
        f.append("leading-zero")
    if "-" in s:
        f.append("minus")
    if "take" in s:
        f.append("take")
    return f


def classify(code, model, expected):
    if expected is not None and code != expected:
        if code == "REJECT":
            return "generated-string-rejected"
        if code.startswith("ERROR:"):
            return "tree-not-readable"
        return "tree-differs-from-what-was-written"
    if code.startswith("ERROR:"):
        return "tree-not-readable"
    if code == "REJECT":
        return "code-rejects-grammar-string"
    if model == "REJECT":
        return "code-accepts-text-outside-grammar"
    return "tree-differs-from-what-was-written"


# ----------------------------------------------------------------------------------------------
# Whole-section routes: Einsum / Mapping / Architecture
# ----------------------------------------------------------------------------------------------

def route_einsum(exprs):
    from teaal.parse.einsum import Einsum
    e = Einsum({"einsum": {"declaration": {"Z": []}, "expressions": list(exprs)}})
    return [x_einsum(t) for t in e.get_expressions()]


def route_mapping(part, st):
    """part: [(tensor, [(rt string, [dir strings])])]; st: [(tensor, [space strings], [time strings])]."""
    from teaal.parse.mapping import Mapping
    y = {"mapping": {"partitioning": {t: ({rs: list(ds) for rs, ds in rows} if rows else None) for t, rows in part},
                     "spacetime": {t: {"space": list(sp), "time": list(tm)} for t, sp, tm in st}}}
    m = Mapping(y)
    gp = m.get_partitioning()
    res_p = [(t, [(x_rt(k), [x_dir(d) for d in v]) for k, v in gp[t].items()]) for t in gp]
    gs = m.get_spacetime()
    res_s = [(t, [x_st(a) for a in gs[t]["space"]], [x_st(a) for a in gs[t]["time"]]) for t in gs]
    return res_p, res_s


def route_arch(tree_spec):
    """tree_spec: {config: nested [(level string, [children])]} -> same shape with 'name#num'."""
    from teaal.parse.arch import Architecture

    def build(nodes):
        return [{"name": s, "subtree": build(ch)} if ch else {"name": s} for s, ch in nodes]

    def read(nodes):
        return [("%s#%d" % (n["name"], n["num"]), read(n["subtree"])) for n in nodes]
    spec = {"architecture": {c: build(nodes) for c, nodes in tree_spec.items()}}
    got = Architecture(spec).get_spec()["architecture"]
    return {c: read(got[c]) for c in got}


def routes(ctx, gens):
    """Batches of generated (valid) strings through the section classes; returns the number of batches."""
    rng = ctx.rng
    by = {g: [c for c in gens if c["g"] == g] for g in GRAMMARS}
    n = 60 if ctx.quick() else 600
    done = {"einsum": 0, "mapping": 0, "arch": 0}
    bad = {"Einsum": 0, "Mapping": 0, "Architecture": 0}

    def report(route, what, rep):
        bad[route] += 1
        if bad[route] <= 3:
            ctx.violation({"kind": "section-route", "route": route}, what, rep)
    for _ in range(n):
        # Einsum section
        cs_ = rng.sample(by["eq"], rng.randint(1, 4))
        if rng.random() < 0.3:
            cs_.insert(rng.randrange(len(cs_) + 1), rng.choice(cs_))    # the same Einsum written twice
        exp = [c["view"] for c in cs_]
        try:
            got = route_einsum([c["s"] for c in cs_])
        except Exception as e:
            got = "raised %s: %s" % (type(e).__name__, str(e)[:100])
        done["einsum"] += 1
        if got != exp:
            report("Einsum",
                          "Einsum(yaml).get_expressions() holds %r for expressions %r (written: %r)" % (got, [c["s"] for c in cs_], exp),
                          {"route": "einsum", "strings": [c["s"] for c in cs_], "expected": exp})
        # Mapping section
        part, exp_p = [], []
        for t in ["Z", "T"][:rng.randint(1, 2)]:
            rows, seenv = [], set()
            for c in rng.sample(by["rt"], rng.randint(0, 3)):
                if c["view"] in seenv:
                    continue
                seenv.add(c["view"])
                ds = rng.sample(by["dir"], rng.randint(1, 3))
                if rng.random() < 0.3:
                    ds.insert(rng.randrange(len(ds) + 1), rng.choice(ds))    # a repeated directive stays repeated
                rows.append((c, ds))
            part.append((t, [(c["s"], [d["s"] for d in ds]) for c, ds in rows]))
            exp_p.append((t, [(c["view"], [d["view"] for d in ds]) for c, ds in rows]))
        st, exp_s = [], []
        for t in ["Z", "T"][:rng.randint(1, 2)]:
            sp = rng.sample(by["st"], rng.randint(0, 3))
            tm = rng.sample(by["st"], rng.randint(0, 3))
            if sp and rng.random() < 0.3:
                tm.append(rng.choice(sp))
            st.append((t, [c["s"] for c in sp], [c["s"] for c in tm]))
            exp_s.append((t, [c["view"] for c in sp], [c["view"] for c in tm]))
        # rows with the same rank-tuple STRING would collapse in the YAML dict itself
        if all(len(set(rs for rs, _ in rows)) == len(rows) for _, rows in part):
            try:
                got = route_mapping(part, st)
            except Exception as e:
                got = "raised %s: %s" % (type(e).__name__, str(e)[:100])
            done["mapping"] += 1
            if got != (exp_p, exp_s):
                report("Mapping",
                              "Mapping(yaml) holds %r for partitioning %r / spacetime %r (written: %r)" % (got, part, st, (exp_p, exp_s)),
                              {"route": "mapping", "part": part, "st": st, "expected": [exp_p, exp_s]})
        # Architecture section (nested levels, two configurations)

        def mk(depth):
            out, ex = [], []
            for _ in range(rng.randint(1, 2)):
                c = rng.choice(by["lv"])
                ch, chx = mk(depth - 1) if depth > 0 and rng.random() < 0.6 else ([], [])
                out.append((c["s"], ch))
                ex.append((c["view"], chx))
            return out, ex
        spec, expa = {}, {}
        for cfg in ["c0", "c1"][:rng.randint(1, 2)]:
            spec[cfg], expa[cfg] = mk(2)
        try:
            got = route_arch(spec)
        except Exception as e:
            got = "raised %s: %s" % (type(e).__name__, str(e)[:100])
        done["arch"] += 1
        if got != expa:
            report("Architecture",
                          "Architecture(yaml) holds %r for level names %r (written: %r)" % (got, spec, expa),
                          {"route": "arch", "spec": spec, "expected": expa})
    done["disagreeing_batches"] = dict(bad)
    return done


# ----------------------------------------------------------------------------------------------
# run / replay
# ----------------------------------------------------------------------------------------------

def run(ctx):
    import time
    t0 = time.time()
    phase = {}
    cases = population(ctx)
    phase["generate"] = round(time.time() - t0, 1)
    t0 = time.time()
    for c in cases:
        c["code"], c["detail"] = observe(c["g"], c["s"])
    phase["real_parsers"] = round(time.time() - t0, 1)
    t0 = time.time()
    res = model_eval("c17", cases)
    phase["kernel_evaluation"] = round(time.time() - t0, 1)
    t0 = time.time()
    stats = {g: {"strings": 0, "generated": 0, "near_miss": 0, "enumerated": 0, "systematic": 0, "fixed": 0, "code_accepts": 0, "code_rejects": 0,
                 "near_miss_accepted": 0, "rejected_by": {}, "edits": {}} for g in GRAMMARS}
    views = set()
    mism = []
    for c, r in zip(cases, res):
        g = c["g"]
        st = stats[g]
        st["strings"] += 1
        st[{"gen": "generated", "near": "near_miss", "enum": "enumerated", "sys": "systematic", "fixed": "fixed"}[c["kind"]]] += 1
        flags, model = r
        if c["kind"] == "gen":
            if flags != "PWB":
                raise AssertionError("generator and Model/Grammar.v disagree on the printed string (flags %s) for %r (tokens %r)" % (flags, c["s"], c["toks"]))
            if model not in (c["view"], "?"):
                raise AssertionError("model parse of a generated string differs from the generating tree: %r -> %s, expected %s" % (c["s"], model, c["view"]))
        else:
            st["edits"][c["how"]] = st["edits"].get(c["how"], 0) + 1
        c["model"] = model
        if c["code"] == "REJECT":
            st["code_rejects"] += 1
            st["rejected_by"][c["detail"]] = st["rejected_by"].get(c["detail"], 0) + 1
        else:
            st["code_accepts"] += 1
            views.add((g, c["code"]))
            if c["kind"] != "gen":
                st["near_miss_accepted"] += 1
        expected = c.get("view")
        if c["code"] != model or (expected is not None and c["code"] != expected):
            mism.append(c)
    # report (shrunk) disagreements: the string is the failing input
    # at most one report per (grammar, class, features) and 25 in all; every disagreement is counted in the coverage
    reported = set()
    for i, c in enumerate(mism):
        g, s = c["g"], c["s"]
        cls = classify(c["code"], c["model"], c.get("view"))
        sig = (g, cls, tuple(features(s)), c["code"] if c["code"].startswith("ERROR") else "")
        if sig in reported or len(reported) >= 25:
            continue
        reported.add(sig)
        s_min = s
        if len(reported) <= 1 and c["code"] != c["model"]:
            try:
                s_min = shrink(g, s)
            except Exception:
                s_min = s
        code_min, det_min = observe(g, s_min)
        model_min = c["model"] if s_min == s else model_run_strings("c17r", g, [s_min])[0]
        key = {"kind": "parse-mismatch", "grammar": g, "class": cls, "features": features(s_min)}
        ctx.violation(key, "%s %r: the code's parser gives %s (%s), the grammar model gives %s%s" % (
            GNAME[g], s_min, code_min, det_min, model_min,
            "; written structure: %s" % c["view"] if c.get("view") and s_min == s else ""),
            {"grammar": g, "string": s_min, "original_string": s, "code": code_min, "model": model_min, "written": c.get("view") if s_min == s else None,
             "class": cls, "how": c.get("how", c["kind"])})
    gens = [c for c in cases if c["kind"] == "gen"]
    done = routes(ctx, gens)
    phase["compare_and_routes"] = round(time.time() - t0, 1)
    # distributions of the generated Einsums
    eqs = [c["tree"] for c in gens if c["g"] == "eq"]
    dist = {
        "einsum_terms": _hist(len(e[2]) for e in eqs),
        "einsum_take_terms": sum(1 for e in eqs for t in e[2] if t[0] == "take"),
        "einsum_rank0_accesses": sum(1 for c in gens if c["g"] == "eq" and "[]" in c["view"]),
        "negative_coefficients": sum(c["view"].count("-") for c in gens if c["g"] == "eq"),
        "numerals_with_leading_zero": sum(1 for c in gens if any(t.isdigit() and len(t) > 1 and t[0] == "0" for t in c["toks"])),
        "strings_with_tab": sum(1 for c in gens if "\t" in c["s"]),
        "compact_strings": sum(1 for c in gens if not any(c["gaps"])),
        "max_length": max(len(c["s"]) for c in cases),
        "directive_kinds": _hist(c["tree"][0] for c in gens if c["g"] == "dir"),
        "stamp_kinds": _hist(c["tree"][0] for c in gens if c["g"] == "st"),
        "level_kinds": _hist(c["tree"][0] for c in gens if c["g"] == "lv"),
        "tuple_sizes": _hist(len(c["tree"][1]) if c["tree"][0] == "many" else 1 for c in gens if c["g"] == "rt"),
    }
    samples = []
    for g in GRAMMARS:
        a = next(c for c in gens if c["g"] == g and any(c["gaps"]))
        b = next((c for c in cases if c["g"] == g and c["kind"] == "near" and c["code"] == "REJECT"), None)
        samples.append({"grammar": g, "string": a["s"], "tree_read_back": a["code"], "model": a["model"]})
        if b:
            samples.append({"grammar": g, "near_miss": b["s"], "edit": b["how"], "code": b["code"] + "/" + b["detail"], "model": b["model"]})
    ctx.coverage.update({
        "programs": len(cases),
        "evaluations": len(cases),
        "disagreements_checked": len(mism),
        "distinct_nontrivial": len(views),
        "per_grammar": stats,
        "section_batches": done,
        "phase_seconds": phase,
        "distributions": dist,
        "rule": "per grammar: strings printed from seeded random syntax trees (<=3 terms x <=3 factors x <=4 index expressions x <=3 index terms; "
                "names incl. the keywords; numerals incl. 0, leading zeros, 30-digit values) with compact/spaced/random blank+tab layout; "
                "near-misses = one character or token edit of a generated string (numeral look-alikes, broken literal terminals, keyword confusions, "
                "affixes, vertical whitespace, non-ASCII); enumerated fragment sequences; a fixed list of corner cases. "
                "distinct_nontrivial = number of distinct accepted structures (views) read back from the code's trees.",
        "samples": samples,
        "trusted_base": ["Coq 8.16.1 kernel + VM (vm_compute)",
                         "tools/props/c17.py: the extractor that reads Lark trees back (node names einsum/output/plus/times/take/var/tensor/ranks/iplus/ijust/itimes, "
                         "int_sz/str_sz/leader, rank/ranks, pos/coord, single/multiple) and the generators",
                         "Model/Lex.v + Model/Grammar.v are a model of the Lark grammars (Lark's Earley engine itself is exercised, not verified); "
                         "tied by T-eq on every run",
                         "`rejected` identifies a Lark exception with ValueError from int(token): the conversion every consumer of NUMBER tokens applies"],
    })
    ctx.assumptions += [
        "integer literals only: the non-integer NUMBERs of common.NUMBER are outside the model and must be rejected by the code (parser or int())",
        "the whitespace of the model is WS_INLINE (blank, tab); YAML-level quoting/stripping happens before the grammars and is not part of the property",
    ]


def _hist(it):
    h = {}
    for x in it:
        h[str(x)] = h.get(str(x), 0) + 1
    return h


def replay(ctx, rep):
    r = rep["replay"]
    if "route" in r:
        if r["route"] == "einsum":
            try:
                got = route_einsum(r["strings"])
            except Exception as e:
                got = "raised %s" % type(e).__name__
            exp = r["expected"]
        elif r["route"] == "mapping":
            part = [(t, [(rs, ds) for rs, ds in rows]) for t, rows in r["part"]]
            st = [(t, sp, tm) for t, sp, tm in r["st"]]
            try:
                got = json.loads(json.dumps(route_mapping(part, st)))
            except Exception as e:
                got = "raised %s" % type(e).__name__
            exp = json.loads(json.dumps(r["expected"]))
        else:
            def tup(nodes):
                return [(s, tup(ch)) for s, ch in nodes]
            try:
                got = json.loads(json.dumps(route_arch({c: tup(n) for c, n in r["spec"].items()})))
            except Exception as e:
                got = "raised %s" % type(e).__name__
            exp = json.loads(json.dumps(r["expected"]))
        print("route:", r["route"], "\n got:     ", got, "\n written: ", exp)
        if got != exp:
            print("VIOLATION property=C17 replay=%s" % rep.get("path", "<given file>"))
            return 1
        return 0
    g, s = r["grammar"], r["string"]
    code, det = observe(g, s)
    model = model_run_strings("c17p", g, [s])[0]
    print("grammar: %s\nstring:  %r\ncode:    %s (%s)\nmodel:   %s" % (GNAME[g], s, code, det, model))
    bad = code != model or (r.get("written") is not None and code != r["written"])
    if bad:
        print("VIOLATION property=C17 replay=%s" % rep.get("path", "<given file>"))
        return 1
    return 0
