"""C03 - occupancy partitioning and flattening never change the result.

Tie: product Einsums x
  (base population) uniform_occupancy (any leader holding the rank, 1-2 levels, alone or beneath a shape split) x
      flatten() of 2-3 ranks of one tensor (+ occupancy of the flattened rank) x well-ordered loop orders;
  (wide population, tools/specgen_wide.py) 1-3 occupancy levels whose leader is chosen PER LEVEL, literal or symbolic
      sizes, beneath 0-2 shape levels; flatten() of 2-3 ranks of any tensor (the output included; contiguous or needing a
      swizzle; bottom levels of shape-split ranks, e.g. (M, K0)); two disjoint flattens; occupancy of the flattened
      rank; any linear extension of "levels outermost-to-innermost" as loop order, the output-concordant one, or the
      compiler's default; up to 4 ranks;
  (pairs, specgen_wide.wide_pairs) two such Einsums over the same rank names in ONE specification, each with its own
      partitioning (the second reads the first one's result when its ranks allow) - anything the compiler remembers across
      Einsums or keys by a rank's name shows here;
  (all) rank NAMES drawn from a wide pool by an injective renaming (I, O, ..., names ending in I such as KI, names
      with digits such as K1 / M20, long names) - the compiler derives level / intermediate names (K1, K1I, MK0) from
      rank names by concatenation, so names are part of the input space.
Observations on every specification:
  * the compiler translates it, unless it falls in a structurally recognised class the unchanged compiler refuses
    (specgen_wide.rejection_class) - any other rejection is a violation (a specification of the property's class yields
    no output at all);
  * static side condition (tools/patterns_occ.py): every uniform_occupancy level is emitted as splitEqual(size) on the
    declared leader of THAT level and splitNonUniform(<root fiber of the leader's split at that level>) on every other
    tensor; when it fails a targeted search (operands of different occupancy, long partitioned ranks) looks for a
    failing input;
  * every emitted program is executed in coqc and compared with the dense oracle (= the unmapped Einsum)."""
import re

import specgen
import specgen_wide
import patterns_occ
import runlib
import execlib

LEVEL = "translation_validation"


def base_items(rng, n, rename_p):
    k = 0
    while k < n:
        es = specgen.gen_product_einsum(rng)
        mp, syms = specgen.occupancy_mapping(rng, es)
        if mp is None:
            k += 1            # (as before: the draw counts)
            continue
        k += 1
        decl, exprs = es["decl"], [es["expr"]]
        naming = "identity"
        if rng.random() < rename_p:
            decl, exprs, mp, _, naming = specgen_wide.rename_ranks(rng, decl, exprs, mp)
        yield {"yaml": specgen.yaml_of(decl, exprs, mp), "syms": syms or {}, "kind": "base", "mapping": mp, "out": es["out"],
               "features": {"naming": naming}}


def einsum_views(spec, mapping):
    """[(output, partitioning of that Einsum, declaration restricted to its tensors)]"""
    res = []
    parts = mapping.get("partitioning") or {}
    for st in spec.structs:
        names = [st["out"]] + [f[1] for t in st["terms"] for f in t["factors"] if f[0] == "T"]
        res.append((st["out"], parts.get(st["out"], {}), {t: spec.decl[t] for t in spec.decl if t in names}))
    return res


def section_texts(it, spec, text):
    """the emitted text cut into one section per Einsum (prefix compilation), or None"""
    if len(spec.structs) == 1:
        return [text]
    try:
        secs, prev = [], ""
        for i in range(len(it["exprs"])):
            t = runlib.Spec(specgen.yaml_of(it["decl"], it["exprs"][:i + 1], it["mapping"])).compile()
            if not t.startswith(prev):
                return None
            secs.append(t[len(prev):])
            prev = t
        return secs if prev == text else None
    except Exception:
        return None


def targeted_inputs(spec, part, rng):
    """Inputs on which a broken leader/follower protocol shows: the partitioned ranks are long (several partitions at
    every level), the other ranks short, operands of clearly different occupancy."""
    roots = set()
    allr = set(r for rs in spec.decl.values() for r in rs)
    for key, ds in part.items():
        if key.startswith("(") or not any("occupancy" in d for d in ds):
            continue
        if key in allr:
            roots.add(key)
        else:
            for rs, comps in specgen_wide.flatten_tuples(spec.decl, part):
                if "".join(comps) == key:
                    roots.update(rs)
    ext = {}
    for r in sorted(allr):
        ext[r] = rng.randint(6, 10) if r in roots else rng.randint(1, 3)
    if len(roots) > 1:
        for r in sorted(roots):
            ext[r] = rng.randint(3, 5)
    data, scal = runlib.gen_inputs(spec, ext, rng, density=rng.choice([1.0, 0.8, 0.5]), block_p=0.2)
    return ext, data, scal


def fail_key(c):
    r = c.result
    if r["status"] == "RAN":
        key = {"kind": "wrong-result"}
        what = "program with occupancy partitioning / flattening computes a wrong output: %s" % r["out"][:300]
    else:
        key = {"kind": "execution-error", "error": r.get("err", r["status"])[:40]}
        if "unbound" in r:
            key["unbound"] = r["unbound"]
        what = "program cannot be executed: %s" % r
    return key, what


def run(ctx):
    rng = ctx.rng
    q = ctx.quick()
    n_base, n_wide, n_pair = (260, 360, 80) if q else (4000, 2500, 500)
    items = list(base_items(rng, n_base, 0.3)) + list(specgen_wide.wide_items(rng, n_wide)) + list(specgen_wide.wide_pairs(rng, n_pair))
    cases = []
    stats = {"generated": 0, "compiled": 0, "refused_in_known_class": {}, "flatten": 0, "occupancy": 0, "dyn_under_shape": 0,
             "by_kind": {}, "naming": {}, "features": {}, "leader_follower_validated": 0, "occupancy_splits_validated": 0}
    broken_side = []
    for it in items:
        stats["generated"] += 1
        try:
            spec = runlib.Spec(it["yaml"])
        except Exception as e:
            ctx.violation({"kind": "harness-cannot-parse"}, "generated specification cannot be parsed: %s: %s" % (type(e).__name__, e),
                          {"yaml": it["yaml"]}, no_input=True)
            continue
        views = einsum_views(spec, it["mapping"])
        p = {}
        for _, pv, _ in views:
            p.update(pv)                   # (statistics and targeted inputs only)
        try:
            text = spec.compile()
        except Exception as e:
            cls = set()
            for o, pv, dv in views:
                cls |= specgen_wide.rejection_class(dv, o, pv)
            msg = str(e)
            if "output-only-flatten" in cls and isinstance(e, ValueError) and "output-only flattened rank" in msg:
                k = "ValueError: Illegal dataflow: cannot iterate over output-only flattened rank"
                stats["refused_in_known_class"][k] = stats["refused_in_known_class"].get(k, 0) + 1
                continue
            key = {"kind": "rejected", "exception": type(e).__name__,
                   "flatten_partly_in_output": "flatten-partly-in-output" in cls, "output_only_flatten": "output-only-flatten" in cls}
            ctx.violation(key, "a specification of the property's class is not translated: %s: %s" % (type(e).__name__, msg[:200]),
                          {"yaml": it["yaml"], "exception": type(e).__name__, "message": msg})
            continue
        stats["compiled"] += 1
        stats["by_kind"][it["kind"]] = stats["by_kind"].get(it["kind"], 0) + 1
        for k, v in it["features"].items():
            if k == "naming":
                stats["naming"][v] = stats["naming"].get(v, 0) + 1
            elif v:
                stats["features"][k] = stats["features"].get(k, 0) + 1
        if any("flatten" in d for ds in p.values() for d in ds):
            stats["flatten"] += 1
        if any("occupancy" in d for ds in p.values() for d in ds):
            stats["occupancy"] += 1
        if any("_shape" in ds[0] and any("occupancy" in d for d in ds) for ds in p.values()):
            stats["dyn_under_shape"] += 1
        # static side condition: leader / follower protocol
        defects = []
        if patterns_occ.dynamic_table(p):
            secs = section_texts(it, spec, text)
            if secs is None:
                stats["sections_not_separable"] = stats.get("sections_not_separable", 0) + 1
            else:
                try:
                    for (o, pv, dv), sec in zip(views, secs):
                        if not patterns_occ.dynamic_table(pv):
                            continue
                        in_ids = {spec.var_name(t): spec.order(t) for t in dv if t != o}
                        defects += patterns_occ.leader_follower_ok(sec, pv, in_ids, set(spec.decl), o)
                        stats["occupancy_splits_validated"] += len(patterns_occ.occupancy_splits(sec, in_ids, set(spec.decl)))
                except SyntaxError as e:
                    defects = ["emitted text is not Python: %s" % e]
                stats["leader_follower_validated"] += 1
        nr = len(set(r for rs in spec.decl.values() for r in rs))
        first = len(cases)
        for j in range(2 if q else 3):
            ext = runlib.default_extents(spec, rng, 1, 7 if nr <= 3 else 4)
            data, scal = runlib.gen_inputs(spec, ext, rng, density=rng.choice([1.0, 0.7, 0.4]))
            cases.append(execlib.Case(spec, text, ext, data, scal, extra_ints=it["syms"], meta={"mapping": it["mapping"], "kind": it["kind"]}))
        if defects:
            if len(broken_side) < 12:          # failing-input search (bounded: a broken compiler breaks many programs alike)
                for j in range(10):
                    ext, data, scal = targeted_inputs(spec, p, rng)
                    cases.append(execlib.Case(spec, text, ext, data, scal, extra_ints=it["syms"],
                                              meta={"mapping": it["mapping"], "kind": it["kind"], "targeted": True}))
            broken_side.append((it, text, defects, first, len(cases)))
    execlib.evaluate(cases, "c03")
    bad = 0
    for c in cases:
        r = c.result
        if r["status"] == "RAN" and r["out"] == "OK":
            continue
        bad += 1
        key, what = fail_key(c)
        ctx.violation(key, what, c.replay())
    for it, text, defects, a, b in broken_side:
        failing = [c for c in cases[a:b] if not (c.result["status"] == "RAN" and c.result["out"] == "OK")]
        if failing:
            continue       # reported above with the failing input
        ctx.violation({"kind": "leader-follower-protocol"},
                      "occupancy partitioning is not emitted as the directives say: %s; %d executions agree with the oracle"
                      % ("; ".join(defects[:3]), b - a), {"yaml": it["yaml"], "text": text, "obligation": "patterns_occ.leader_follower_ok", "defects": defects,
                       "partitioning": it["mapping"]["partitioning"], "decl": it.get("decl"), "exprs": it.get("exprs"), "mapping": it["mapping"]},
                      no_input=True)
    distinct = len(set(c.text for c in cases))
    ctx.coverage.update({
        "programs": distinct, "executions": len(cases), "disagreements_checked": bad, "evaluations": len(cases),
        "distinct_nontrivial": distinct, "population": stats, "side_condition_broken": len(broken_side),
        "rule": "random product Einsums x {base: occupancy stacks of 1-2 levels with any leader holding the rank, optionally under a uniform_shape; flatten() of 2-3 ranks of one "
                "tensor, optionally with 1-2 occupancy levels on the flattened rank; wide: 1-3 levels with a leader per level, literal/symbolic sizes, under 0-2 shape levels, "
                "flatten of ranks of any tensor incl. the output and of bottom shape levels, two flattens, up to 4 ranks; pairs: two such Einsums in one specification} x well-ordered loop orders (random linear extension / "
                "output-concordant / compiler default) x rank names from a wide pool; every rejection outside the structurally recognised classes is a violation; "
                "leader/follower protocol validated statically on every program with occupancy",
        "samples": [{"yaml": cases[i].spec.yaml, "extents": cases[i].extents, "result": cases[i].raw} for i in (0, len(cases) // 2)] if cases else [],
        "trusted_base": ["Coq 8.16.1 kernel + VM", "Model/Rt.v splitEqual/splitNonUniform/flattenRanks/unflattenRanks/getPayload model", "Model/Interp.v", "tools/py2coq.py", "Model/Einsum.v",
                         "tools/patterns_occ.py (data-flow reading of the emitted text)", "tools/specgen_wide.py rejection_class"],
    })
    ctx.assumptions += ["fibertree semantics modelled by Model/Rt.v"]


def replay(ctx, rep):
    r = rep["replay"]
    spec = runlib.Spec(r["yaml"])
    try:
        text = spec.compile()
    except Exception as e:
        print("not translated: %s: %s" % (type(e).__name__, e))
        print("VIOLATION property=C03 replay=<given file>")
        return 1
    if "inputs" not in r:
        print(text)
        it = {"decl": r.get("decl"), "exprs": r.get("exprs"), "mapping": r.get("mapping") or {"partitioning": r.get("partitioning", {})}}
        views = einsum_views(spec, it["mapping"])
        secs = section_texts(it, spec, text) or []
        defects = []
        for (o, pv, dv), sec in zip(views, secs):
            defects += patterns_occ.leader_follower_ok(sec, pv, {spec.var_name(t): spec.order(t) for t in dv if t != o}, set(spec.decl), o)
        print("leader/follower protocol:", defects or "OK")
        if defects:
            print("VIOLATION property=C03 replay=<given file>")
            return 1
        return 0
    data = {t: {tuple(int(x) for x in k.split(",") if x != ""): v for k, v in d.items()} for t, d in r["inputs"].items()}
    c = execlib.Case(spec, text, r["extents"], data, r["scalars"], extra_ints=r.get("extra_ints"))
    execlib.evaluate([c], "c03r")
    print(text)
    print("result:", c.raw)
    if c.result["status"] != "RAN" or c.result["out"] != "OK":
        print("VIOLATION property=C03 replay=<given file>")
        return 1
    return 0

