"""C03 - occupancy partitioning and flattening never change the result.

Tie: product Einsums x uniform_occupancy (any leader holding the rank, 1-2 levels, alone or
beneath a shape split) x flatten() of 2-3 ranks of one tensor (+ occupancy of the flattened
rank) x well-ordered loop orders; every emitted program is executed in coqc and compared with
the dense oracle (= the unmapped Einsum)."""
import specgen
import runlib
import execlib

LEVEL = "translation_validation"


def run(ctx):
    rng = ctx.rng
    n = 420 if ctx.quick() else 4000
    cases = []
    stats = {"generated": 0, "compiled": 0, "compile_errors": {}, "flatten": 0, "occupancy": 0, "dyn_under_shape": 0}
    for i in range(n):
        es = specgen.gen_product_einsum(rng)
        mp, syms = specgen.occupancy_mapping(rng, es)
        if mp is None:
            continue
        stats["generated"] += 1
        y = specgen.yaml_of(es["decl"], [es["expr"]], mp)
        try:
            spec = runlib.Spec(y)
            text = spec.compile()
        except Exception as e:
            k = type(e).__name__ + ": " + str(e)[:60]
            stats["compile_errors"][k] = stats["compile_errors"].get(k, 0) + 1
            continue
        stats["compiled"] += 1
        p = mp["partitioning"][es["out"]]
        if any("flatten" in d for ds in p.values() for d in ds):
            stats["flatten"] += 1
        if any("occupancy" in d for ds in p.values() for d in ds):
            stats["occupancy"] += 1
        if any("uniform_shape" in ds[0] and len(ds) > 1 for ds in p.values()):
            stats["dyn_under_shape"] += 1
        for j in range(2 if ctx.quick() else 3):
            ext = runlib.default_extents(spec, rng, 1, 7)
            data, scal = runlib.gen_inputs(spec, ext, rng, density=rng.choice([1.0, 0.7, 0.4]))
            cases.append(execlib.Case(spec, text, ext, data, scal, meta={"mapping": mp}))
    execlib.evaluate(cases, "c03")
    bad = 0
    for c in cases:
        r = c.result
        if r["status"] == "RAN" and r["out"] == "OK":
            continue
        bad += 1
        if r["status"] == "RAN":
            key = {"kind": "wrong-result"}
            what = "program with occupancy partitioning / flattening computes a wrong output: %s" % r["out"][:300]
        else:
            key = {"kind": "execution-error", "error": r.get("err", r["status"])[:40]}
            if "unbound" in r:
                key["unbound"] = r["unbound"]
            what = "program cannot be executed: %s" % r
        ctx.violation(key, what, c.replay())
    distinct = len(set(c.text for c in cases))
    ctx.coverage.update({
        "programs": distinct, "executions": len(cases), "disagreements_checked": bad, "evaluations": len(cases),
        "distinct_nontrivial": distinct, "population": stats,
        "rule": "random product Einsums x {occupancy stacks of 1-2 levels with any leader holding the rank, optionally under a uniform_shape; flatten() of 2-3 ranks of one "
                "tensor, optionally with 1-2 occupancy levels on the flattened rank} x well-ordered loop orders; specifications the compiler rejects are counted in compile_errors",
        "samples": [{"yaml": cases[i].spec.yaml, "extents": cases[i].extents, "result": cases[i].raw} for i in (0, len(cases) // 2)] if cases else [],
        "trusted_base": ["Coq 8.16.1 kernel + VM", "Model/Rt.v splitEqual/splitNonUniform/flattenRanks/unflattenRanks/getPayload model", "Model/Interp.v", "tools/py2coq.py", "Model/Einsum.v"],
    })
    ctx.assumptions += ["fibertree semantics modelled by Model/Rt.v"]


def replay(ctx, rep):
    r = rep["replay"]
    spec = runlib.Spec(r["yaml"])
    text = spec.compile()
    data = {t: {tuple(int(x) for x in k.split(",") if x != ""): v for k, v in d.items()} for t, d in r["inputs"].items()}
    c = execlib.Case(spec, text, r["extents"], data, r["scalars"], extra_ints=r.get("extra_ints"))
    execlib.evaluate([c], "c03r")
    print(text)
    print("result:", c.raw)
    if c.result["status"] != "RAN" or c.result["out"] != "OK":
        print("VIOLATION property=C03 replay=<given file>")
        return 1
    return 0
