"""C18 - stated mapping-legality rules are enforced for every instance.

Theorems (coq/Props/C18.v, on Model/Legal.v): a specification that is an instance of any of the 15
stated rules (deciders `r_*` written from the property text) is rejected by the guard model written
from the code (Bindings.__init__, Tensor.__init__, ir.Equation.__init__, Partitioning.__build_part_graph,
make_iter_expr) - whatever Einsum of the cascade, dictionary entry, tuple position or stack depth the
violation sits at, and whatever else the specification contains.

Tie, re-established on every run against /repo's working tree (violation injection):
  * a fresh population of LEGAL specifications (they must compile) - plain / shape / occupancy+flatten /
    affine / cascades / accelerator YAMLs / generated architectures / extra flatten shapes;
  * every rule x every injection site (each rank of each tuple, each level of each stack, each tensor
    occurrence, each term, each dictionary position, each Einsum) gives a violating specification;
  * for EVERY specification (legal and violating) the kernel evaluates, on the abstraction read by an
    independent reader (tools/specgen_legal.py), (a) which stated rules it violates [T-ref: the code's
    verdict is checked against the declarative rules] and (b) the verdict of the guard model [T-eq];
  * the real compiler (Einsum/Mapping/Architecture/Bindings/Format parsing + HiFiber(...)) must raise
    ValueError whenever a stated rule is violated; a specification the guard model rejects must not compile.
"""
import collections
import json
import os
import re

import vlib
import popgen
import specgen_legal as sl
import specgen_metrics
import specgen_fusion

LEVEL = "proof"

# compiler message -> rule name (evidence only: the verdict never depends on the wording)
MESSAGES = [
    (r"^All ranks must be unique", "dup_rank"),
    (r"^Undeclared tensor", "undeclared_tensor"),
    (r"^Repeated tensor", "repeated_tensor"),
    (r"^Malformed einsum", "term_rank_mismatch"),
    (r"^flatten\(\) combined with other", "flatten_with_others"),
    (r"^flatten\(\) must combine at least two", "flatten_lt2"),
    (r"because it is used in index math", "flatten_index_math"),
    (r"because it will also be independently partitioned", "flatten_and_partitioned"),
    (r"because it is a flattened rank", "flatten_of_flattened"),
    (r"because it will have multiple partitionings", "multiple_partitionings"),
    (r"^N-way partitioning after dynamic", "nway_after_occupancy"),
    (r"^Shape-based partitioning found on rank", "shape_after_flatten"),
    (r"can only be applied to one rank", "directive_on_tuple"),
    (r"^Cannot project into the output", "project_into_output"),
    (r"cannot iterate over output-only flattened", "output_only_flattened_loop"),
    (r"^Accelerator config and prefix missing", "missing_config"),
]


def message_rule(msg):
    for pat, rule in MESSAGES:
        if re.search(pat, msg):
            return rule
    return "other"


def compile_text(text):
    """Parse the five sections and build HiFiber with the REAL code. -> (kind, payload):
    ("ok", program text) | ("ValueError", message) | (other exception name, message)."""
    from teaal.parse import Einsum, Mapping, Architecture, Bindings, Format
    from teaal.trans.hifiber import HiFiber
    try:
        einsum = Einsum.from_str(text)
        mapping = Mapping.from_str(text)
        arch = Architecture.from_str(text)
        bindings = Bindings.from_str(text)
        format_ = Format.from_str(text)
        if arch.get_spec():
            hf = HiFiber(einsum, mapping, arch, bindings, format_)
        else:
            hf = HiFiber(einsum, mapping)
        return "ok", str(hf)
    except ValueError as ex:
        return "ValueError", str(ex)
    except Exception as ex:  # noqa
        return type(ex).__name__, str(ex)[:300]


# ----------------------------------------------------------------------------
# populations
# ----------------------------------------------------------------------------

def base_population(ctx):
    q = ctx.quick()
    rng = ctx.rng
    items = []

    def add(kind, text):
        items.append({"kind": kind, "data": sl.load(text)})

    for it in popgen.plain(rng, 25 if q else 200):
        add("plain", it["yaml"])
    for it in popgen.shape(rng, 20 if q else 150):
        add("shape", it["yaml"])
    for it in popgen.occupancy(rng, 30 if q else 250):
        add("occupancy", it["yaml"])
    for it in popgen.affine(rng, 20 if q else 150):
        add("affine", it["yaml"])
    for it in popgen.cascade(rng, 12 if q else 100):
        add("cascade", it["yaml"])
    for it in popgen.accelerators():
        add(it["kind"], it["yaml"])
    for _ in range(4 if q else 40):
        add("metrics", specgen_metrics.gen(rng)[0])
    for _ in range(6 if q else 40):
        h = [specgen_fusion.random_feature(rng) for _ in range(rng.randint(1, 4))]
        for f in h:
            if not f["comps"]:
                f["comps"] = [specgen_fusion.CONFIGS[f["config"]]["comps"][0][0]]
        add("compute-only", specgen_fusion.to_yaml(h))
    for _ in range(35 if q else 300):
        items.append({"kind": "flatten", "data": sl.gen_flatten_base(rng)})
    for _ in range(20 if q else 120):
        items.append({"kind": "affine-mixed", "data": sl.gen_affine_mixed(rng)})
    for _ in range(15 if q else 120):
        items.append({"kind": "stack", "data": sl.gen_stack_base(rng)})
    return items


def case_of(data):
    text = sl.dump(data)
    model = sl.to_model(sl.load(text))          # read back what is actually handed to the compiler
    return text, sl.coq_spec(model)


def evaluate(cases):
    """cases: list of dicts with `coq`. Adds `violated` (list of rule names) and `guard` (model verdict)."""
    exprs = ["(verdict %s)" % c["coq"] for c in cases]
    res = vlib.coq_eval_lines("c18", ["TV.Model.Legal"], "", exprs, shard=120)
    for c, r in zip(cases, res):
        v, g = r.split("#")
        c["violated"] = [x for x in v.split(",") if x]
        c["guard"] = g


def structural_key(kind, c):
    return {"kind": kind, "rules": ",".join(sorted(c.get("violated", []))), "guard": c.get("guard"),
            "code": c["code"][0], "message_rule": message_rule(c["code"][1]) if c["code"][0] == "ValueError" else None}


def judge(ctx, c, stats):
    """The verdict on one specification.  c: text, violated, guard, code=(kind, payload), intended (rule or None)."""
    kind, payload = c["code"]
    viol = c["violated"]
    rep = {"yaml": c["text"], "intended_rule": c.get("intended"), "site": c.get("site"), "base_kind": c.get("base_kind"),
           "violated_rules_by_kernel": viol, "guard_model": c["guard"], "code_outcome": kind,
           "code_message": payload if kind != "ok" else None, "emitted_text": payload if kind == "ok" else None}
    if viol:
        stats["rule_instances"] += 1
        if kind == "ok":
            ctx.violation(structural_key("silently-compiled", c),
                          "a specification violating %s compiles silently (no ValueError); site: %s" % (viol, c.get("site")), rep)
            return
        if kind != "ValueError":
            ctx.violation(structural_key("wrong-exception", c),
                          "a specification violating %s is rejected with %s (%s), not ValueError; site: %s"
                          % (viol, kind, payload[:120], c.get("site")), rep)
            return
        stats["rejected_ok"] += 1
        mr = message_rule(payload)
        stats["message_matches_rule" if mr in viol else "message_other_rule"] += 1
        if mr not in viol:
            stats["message_mismatch_samples"].append((viol, mr, payload[:80]))
        if not c["guard"].startswith("err:"):
            ctx.violation({"kind": "theorem-vs-evaluation", "rules": ",".join(viol), "guard": c["guard"]},
                          "kernel evaluation: rules %s hold but the guard model answers %s (contradicts C18_violated_rejected "
                          "unless the model crashed)" % (viol, c["guard"]), rep, no_input=True)
        elif c["guard"][4:] == mr:
            stats["guard_id_equals_message"] += 1
        return
    # no stated rule is violated
    if c["guard"].startswith("err:") and kind == "ValueError":
        stats["extra_guard_rejected_by_both"] = stats.get("extra_guard_rejected_by_both", 0) + 1
        return
    if c["guard"].startswith("err:") and kind == "ok":
        # the guard model rejects (an extra guard of the code: duplicate rank in a rank-order, upper partition level in a
        # flatten tuple) but the code compiled: a guard disappeared from the code / the model no longer is the code
        ctx.violation(structural_key("model-correspondence", c),
                      "Model/Legal.v guard rejects (%s) but the compiler accepts: the guard model no longer corresponds to the code"
                      % c["guard"], rep, no_input=True)
        return
    if kind == "ok":
        stats["legal_compiled"] += 1
    elif kind == "ValueError":
        stats["legal_rejected_by_code"][message_rule(payload) + ":" + payload[:50]] += 1
    else:
        stats["legal_crashed_in_code"][kind + ":" + payload[:50]] += 1


def run(ctx):
    rng = ctx.rng
    q = ctx.quick()
    base = base_population(ctx)
    stats = collections.Counter()
    stats = {"rule_instances": 0, "rejected_ok": 0, "message_matches_rule": 0, "message_other_rule": 0,
             "guard_id_equals_message": 0, "legal_compiled": 0, "message_mismatch_samples": [],
             "legal_rejected_by_code": collections.Counter(), "legal_crashed_in_code": collections.Counter()}
    # 1. the legal base: keep what the current compiler accepts
    cases = []
    for it in base:
        text, coq = case_of(it["data"])
        cases.append({"text": text, "coq": coq, "base_kind": it["kind"], "data": it["data"], "code": compile_text(text)})
    legal = [c for c in cases if c["code"][0] == "ok"]
    base_kinds = collections.Counter(c["base_kind"].split(":")[0] for c in cases)
    legal_kinds = collections.Counter(c["base_kind"].split(":")[0] for c in legal)
    # 2. injections into the legal base
    cap = 6 if q else 10
    by_rule = collections.defaultdict(list)
    per_rule = collections.Counter()
    for c in legal:
        for inj in sl.INJECTORS:
            for rule, site, d2 in inj(c["data"], rng, cap):
                by_rule[rule].append({"base_kind": c["base_kind"], "intended": rule, "site": site, "data": d2})
                per_rule[rule] += 1
    # thin out the over-represented rules, keeping every rule and every kind of site covered
    limit = 70 if q else 800
    injected = []
    for rule in sl.RULES + sorted(r for r in by_rule if r.startswith("extra:")):
        l = by_rule.get(rule, [])
        rng.shuffle(l)
        # classes of sites (Einsum index and tensor names abstracted); every round takes one of each class, in random order
        groups = collections.defaultdict(list)
        for c in l:
            groups[(c["base_kind"].split(":")[0] if rule in ("missing_config",) else "",
                    re.sub(r"einsum \d+", "einsum", c["site"]))].append(c)
        keep = []
        while len(keep) < limit and any(groups.values()):
            ks = sorted(k for k in groups if groups[k])
            rng.shuffle(ks)
            for k in ks:
                if len(keep) < limit:
                    keep.append(groups[k].pop())
        for c in keep:
            try:
                c["text"], c["coq"] = case_of(c.pop("data"))
            except Exception as ex:  # the independent reader is fail-closed
                stats.setdefault("unreadable_injections", collections.Counter())[type(ex).__name__] += 1
                continue
            c["code"] = compile_text(c["text"])
            injected.append(c)
    allc = cases + injected
    evaluate(allc)
    # 3. verdicts
    inst = collections.Counter()
    not_instance = collections.Counter()
    multi = 0
    sites = collections.defaultdict(set)
    for c in allc:
        judge(ctx, c, stats)
        if c.get("intended"):
            if c["intended"] in c["violated"]:
                inst[c["intended"]] += 1
                sites[c["intended"]].add(re.sub(r"einsum \d+ ", "", c["site"]))
                if len(c["violated"]) > 1:
                    multi += 1
            elif not c["intended"].startswith("extra:"):
                not_instance[c["intended"]] += 1
    # every stated rule must actually have been exercised (a generator that degenerates is an alarm, not a pass)
    need = 8 if q else 40
    for rule in sl.RULES:
        if inst[rule] < need:
            ctx.violation({"kind": "population-degenerate", "rule": rule},
                          "only %d kernel-confirmed instances of rule %s were generated (need %d): the check would be vacuous"
                          % (inst[rule], rule, need), {"rule": rule, "instances": inst[rule]}, no_input=True)
    if len(legal) < len(cases) // 2:
        ctx.violation({"kind": "population-degenerate", "rule": "base"},
                      "only %d of %d base specifications compile" % (len(legal), len(cases)),
                      {"outcomes": collections.Counter(c["code"][0] for c in cases)}, no_input=True)
    samples = []
    for rule in sl.RULES:
        for c in injected:
            if c["intended"] == rule and rule in c["violated"]:
                samples.append({"rule": rule, "site": c["site"], "yaml": c["text"], "code": list(c["code"])[:2], "guard": c["guard"]})
                break
    ctx.coverage.update({
        "programs": len(allc),
        "base_specifications": len(cases),
        "base_compiling": len(legal),
        "base_kinds": dict(base_kinds),
        "base_kinds_compiling": dict(legal_kinds),
        "injected_specifications": len(injected),
        "injections_generated_before_thinning": dict(per_rule),
        "kernel_confirmed_instances_per_rule": {r: inst[r] for r in sl.RULES},
        "distinct_sites_per_rule": {r: len(sites[r]) for r in sl.RULES},
        "injections_not_an_instance_of_their_rule": dict(not_instance),
        "instances_violating_several_rules": multi,
        "rule_instances_total": stats["rule_instances"],
        "rule_instances_rejected_with_ValueError": stats["rejected_ok"],
        "message_names_a_violated_rule": stats["message_matches_rule"],
        "message_names_another_guard": stats["message_other_rule"],
        "message_mismatch_samples": stats["message_mismatch_samples"][:5],
        "guard_model_error_equals_code_message": stats["guard_id_equals_message"],
        "no_rule_violated_and_compiled": stats["legal_compiled"],
        "extra_guards_rejected_by_model_and_code": stats.get("extra_guard_rejected_by_both", 0),
        "no_rule_violated_but_rejected_by_code": dict(stats["legal_rejected_by_code"].most_common(12)),
        "no_rule_violated_but_code_crashed": dict(stats["legal_crashed_in_code"].most_common(12)),
        "disagreements_checked": len(allc),
        "evaluations": len(allc),
        "distinct_nontrivial": len(set(c["text"] for c in allc if c["violated"])),
        "rule": "base: shared populations (plain, shape, occupancy+flatten, affine, cascades of 2-4 Einsums, 5 accelerator YAMLs, generated "
                "architectures, multi-Einsum compute-only bindings) + flatten shapes (2-3 ranks, occupancy of the flattened rank, bottom "
                "level of a shape split) + affine with plain ranks + deep stacks; injections: 15 rules x sites (tensor, rank pair, "
                "occurrence, term index, dictionary position before/after, tuple position, stack positions i<j, loop position, "
                "Einsum index, bindings item); non-trivial = kernel-confirmed instance of a stated rule",
        "samples": samples,
        "trusted_base": ["Coq 8.16.1 kernel + VM (vm_compute)",
                         "tools/specgen_legal.py: independent reader of the YAML data (ruamel load + own expression/directive reader, fail-closed) "
                         "and the abstraction to Model/Legal.v `spec` (index variables upper-cased)",
                         "Model/Legal.v rule deciders r_* are the formal reading of the property text (Prop readings: Proofs/LegalProofs.v *_iff)",
                         "Model/Legal.v flow_guard states the two dataflow rules on the specification (the loop-nest construction is not modelled)",
                         "ruamel.yaml dump/load round trip of the specification data"],
    })
    ctx.assumptions += [
        "a specification is handed to the compiler as YAML text; `rejected` = ValueError from parsing the five sections or from HiFiber(...)",
        "rank names are upper-case identifiers, index variables their lower-case forms (the model compares upper-cased names)",
        "flatten_of_flattened / shape_after_flatten are stated for flattened names that do not collide with a rank of the Einsum or its X0 level",
        "missing_config: an Einsum entry of the bindings section none of whose items has a `config` key",
    ]


def replay(ctx, rep):
    r = rep["replay"]
    if not isinstance(r, dict) or "yaml" not in r:
        print("this replay names a broken theorem / degenerate population, not a specification: %s" % rep.get("what"))
        print("VIOLATION property=C18 replay=%s no-failing-input-found" % rep.get("path", "<given file>"))
        return 1
    text = r["yaml"]
    kind, payload = compile_text(text)
    c = {"text": text, "coq": sl.coq_spec(sl.to_model(sl.load(text))), "code": (kind, payload)}
    evaluate([c])
    print("specification:\n" + text)
    print("kernel: violated rules = %s, guard model = %s" % (c["violated"], c["guard"]))
    print("compiler: %s %s" % (kind, payload[:300] if kind != "ok" else "(program text of %d characters returned)" % len(payload)))
    bad = (c["violated"] and kind != "ValueError") or (not c["violated"] and c["guard"].startswith("err:") and kind == "ok")
    if bad:
        print("VIOLATION property=C18 replay=%s" % rep.get("path", "<given file>"))
        return 1
    print("no violation: the specification is rejected with ValueError / is not an instance")
    return 0
