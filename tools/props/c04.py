"""C04 - affine index expressions are evaluated exactly, with or without partitioning.

Tie: generated affine accesses (a*q + b*s, coefficients -3..3, optional second plain
convolution dimension) x legal loop orders (including looping over the input's own rank and
projecting the others) x shape partitioning of Q with W following; consistent extents; every
emitted program is executed in coqc (Python floats = PrimFloat binary64) and compared with the
dense oracle, and every created output element is checked against the declared extent.

Structural flags (computed from the emitted text, not from the result) key the known findings:
  frac_nonpow2       a trans_fn divides by a constant that is not a power of two   (F11)
  eager_interval     the q0_start/q0_end form fed from `inputs_<r>`                 (F12)
  multi_level_halo   >= 2 static levels on the index-math rank with a halo          (F4)
  unbound level name `<Rank><digit>` read in iterRangeShapeRef arguments            (F5)
"""
import re

import specgen
import runlib
import execlib
import patterns

LEVEL = "translation_validation"


def flags_of(text, mapping, out):
    dens = [int(x) for x in re.findall(r'/ (\d+)', text)]
    part = (mapping.get("partitioning") or {}).get(out, {})
    depth = max([len(ds) for r, ds in part.items() if ds and not ds[0].startswith("follow")] + [0])
    return {
        "frac_nonpow2": any(d & (d - 1) for d in dens),
        "eager_interval": "_end = inputs_" in text,
        "multi_level_halo": depth >= 2 and "_halo=" in text,
    }


def out_of_extent(result_out, spec, extents):
    m = re.match(r'DIFF got\[(.*?)\] exp\[', result_out)
    if not m:
        return False
    o = spec.outs[0]
    ranks = spec.decl[o]
    for item in m.group(1).split(" "):
        if not item:
            continue
        coords = item.split("=")[0].split(",")
        for c, r in zip(coords, ranks):
            try:
                v = float(c)
            except ValueError:
                return True
            if v < 0 or v >= extents[r]:
                return True
    return False


def key_of(c):
    """Structural key + description of a failing affine case (shared with C02's affine sub-population)."""
    r = c.result
    fl = c.meta["flags"]
    if r["status"] == "RAN":
        key = {"kind": "wrong-result"}
        key.update(execlib.diff_class(r["out"], c.spec.decl[c.spec.outs[0]], c.extents))
        key.update(fl)
        what = "affine program computes a wrong output (%s): %s" % (key, r["out"][:300])
    else:
        key = {"kind": "execution-error", "error": r.get("err", r["status"])[:40]}
        if "unbound" in r:
            key["unbound_is_level_name"] = bool(re.match(r'^[A-Z]+\d$', r["unbound"]))
            key["error"] = "unbound"
        what = "affine program cannot be executed: %s" % r
    return key, what


def report_misaligned(ctx, misaligned, cases):
    """A program whose `inputs_<r>` does not enumerate what the loop over <r> enumerates breaks the side condition under
    which loop positions index `inputs_<r>` (tools/patterns.py).  The 40 extra executions are the failing-input search;
    when one of them fails it is reported by the caller as an ordinary wrong result, otherwise the broken obligation is
    reported without input."""
    for spec, text, mis, _ in misaligned:
        same = [c for c in cases if c.text == text]
        if all(c.result["status"] == "RAN" and c.result["out"] == "OK" for c in same):
            ctx.violation({"kind": "eager-inputs-misaligned"},
                          "inputs_%s enumerates `%s` but the loop whose positions index it enumerates `%s`; %d executions agree with the oracle"
                          % (mis[0][0], mis[0][1], mis[0][2], len(same)), {"yaml": spec.yaml, "text": text, "obligation": "eager_inputs_aligned"},
                          no_input=True)


def run(ctx):
    rng = ctx.rng
    n = 600 if ctx.quick() else 4000
    cases = []
    misaligned = []
    stats = {"generated": n, "compiled": 0, "rejected": {}, "kinds": {}, "flags": {"frac_nonpow2": 0, "eager_interval": 0, "multi_level_halo": 0},
             "negative_coeff": 0, "two_d": 0}
    for i in range(n):
        es = specgen.gen_affine_einsum(rng)
        mp, kind, syms = specgen.affine_mapping(rng, es)
        y = specgen.yaml_of(es["decl"], [es["expr"]], mp)
        try:
            spec = runlib.Spec(y)
            text = spec.compile()
        except Exception as e:    # no program is returned (the unchanged compiler crashes with KeyError on some W-outer/Q-inner orders)
            k = type(e).__name__ + ": " + re.sub(r"[A-Z]\d?\b", "R", str(e))[:60]
            stats["rejected"][k] = stats["rejected"].get(k, 0) + 1
            continue
        stats["compiled"] += 1
        stats["kinds"][kind] = stats["kinds"].get(kind, 0) + 1
        fl = flags_of(text, mp, es["out"])
        for k, v in fl.items():
            if v:
                stats["flags"][k] += 1
        if es["b"] < 0:
            stats["negative_coeff"] += 1
        if "P" in es["ranks"]:
            stats["two_d"] += 1
        mis = patterns.eager_inputs_aligned(text)
        if mis:
            misaligned.append((spec, text, mis, len(cases)))
        for j in range((2 if ctx.quick() else 3) + (40 if mis else 0)):      # a broken side condition: search for a failing input
            ext = specgen.affine_extents(rng, es)
            data, scal = runlib.gen_inputs(spec, ext, rng, density=rng.choice([1.0, 0.8, 0.5]))
            cases.append(execlib.Case(spec, text, ext, data, scal, extra_ints=syms,
                                      meta={"flags": fl, "kind": kind, "a": es["a"], "b": es["b"], "loop": mp["loop-order"][es["out"]]}))
    # two Einsums of one specification reading the same input through different affine expressions
    stats["pairs"] = 0
    for i in range(n // 12):
        pr = specgen.gen_affine_pair(rng)
        try:
            spec = runlib.Spec(specgen.yaml_of(pr["decl"], pr["exprs"], pr["mapping"]))
            text = spec.compile()
        except Exception as e:
            k = type(e).__name__ + ": " + re.sub(r"[A-Z]\d?\b", "R", str(e))[:60]
            stats["rejected"][k] = stats["rejected"].get(k, 0) + 1
            continue
        stats["pairs"] += 1
        fl = flags_of(text, pr["mapping"], "A")
        for j in range(2):
            ext = specgen.affine_extents(rng, pr)
            data, scal = runlib.gen_inputs(spec, ext, rng, density=rng.choice([1.0, 0.8, 0.5]))
            cases.append(execlib.Case(spec, text, ext, data, scal, meta={"flags": fl, "kind": "pair", "a": 0, "b": 0, "loop": pr["mapping"]["loop-order"]}))
    execlib.evaluate(cases, "c04")
    report_misaligned(ctx, misaligned, cases)
    bad = 0
    clean_ok = 0
    for c in cases:
        r = c.result
        fl = c.meta["flags"]
        if r["status"] == "RAN" and r["out"] == "OK":
            if not any(fl.values()):
                clean_ok += 1
            continue
        bad += 1
        key, what = key_of(c)
        ctx.violation(key, what, c.replay())
    distinct = len(set(c.text for c in cases))
    ctx.coverage.update({
        "programs": distinct, "executions": len(cases), "disagreements_checked": bad, "evaluations": len(cases),
        "distinct_nontrivial": distinct, "population": stats, "executions_ok_outside_known_defect_classes": clean_ok,
        "rule": "O[q] = I[a*q + b*s] * F[s] (a in 1..3, b in -3..3, either term order) and the 2-D variant O[p,q] = I[p+r, a*q+b*s] * F[r,s]; loop orders over "
                "{Q or W levels, S, P or H, R} in any interleaving, or over both the Q and the W innermost level with S derived; optional 1-2 shape levels (uniform/nway, literal/symbolic) on Q with W following; "
                "extents consistent with the access; 2-3 inputs each",
        "samples": [{"yaml": cases[i].spec.yaml, "extents": cases[i].extents, "flags": cases[i].meta["flags"], "result": cases[i].raw} for i in (0, len(cases) // 2)],
        "trusted_base": ["Coq 8.16.1 kernel + VM; PrimFloat primitives (host binary64)", "Model/Rt.v: project/prune/splitUniform-with-halo/iterRangeShapeRef model",
                         "Model/Interp.v", "tools/py2coq.py", "Model/Einsum.v"],
    })
    ctx.assumptions += ["fibertree semantics modelled by Model/Rt.v; in particular splitUniform with halos creates a partition iff it holds an element (halo elements included)"]


def replay(ctx, rep):
    r = rep["replay"]
    spec = runlib.Spec(r["yaml"])
    text = spec.compile()
    data = {t: {tuple(int(x) for x in k.split(",") if x != ""): v for k, v in d.items()} for t, d in r["inputs"].items()}
    c = execlib.Case(spec, text, r["extents"], data, r["scalars"], extra_ints=r.get("extra_ints"))
    execlib.evaluate([c], "c04r")
    print(text)
    print("result:", c.raw)
    if c.result["status"] != "RAN" or c.result["out"] != "OK":
        print("VIOLATION property=C04 replay=<given file>")
        return 1
    return 0
