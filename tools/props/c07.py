"""C07 - tensor variable names tell the truth and inputs are never modified.

Theorems (Props/C07.v): every tensor-producing runtime operation of the model only ALLOCATES
(existing heap objects are untouched): fresh_ops_frame; the compiler-side name of a tensor
spells its active ranks (TensorSM); and the CERTIFIED STATIC CHECKER of the data-independent half
(Model/RankTy.v, C07_rankty_sound): on the abstract rank-id semantics of emitted programs (all
paths, any number of loop iterations) an accepted program never renames a user-supplied tensor
object in place, never populates / updates user-supplied data, and ends with every
<Name>_<Ranks> variable holding a tensor whose rank ids spell <Ranks>, every input and result
variable bound with exactly its declared-or-rank-order ranks.

Ties evaluated on every run:
 (static)  `rankty_report ctx program` is evaluated by the kernel on EVERY emitted program of the
           populations, before and independently of execution; ctx (inputs, API names, other user
           names, tensor-named identifiers, required results) comes from the specification alone
           (tools/rankty.py).  A rejection is a broken obligation: the executions of that program
           (the regular one and further generated inputs) are searched for a concrete failing final
           state, which becomes the replay; otherwise the violation is reported with
           no-failing-input-found.  The same checker is pointed at graphics-mode and metrics-mode
           programs (static only).
 (dynamic) kernel-evaluated post-condition on the final state of every execution of the C01-C05
           populations: (a) every variable spelled <Name>_<Ranks>[_flat] that is bound holds a tensor
           whose rank ids concatenate to <Ranks>; (b) each Einsum's result is bound to
           <Out>_<declared-or-rank-order ranks>, with those rank ids, equal to the oracle in original
           coordinates; (c) every input variable still holds a tensor with the same rank ids and the
           same data as before the run.
 (model)   the abstract semantics is trusted; it is tied to the concrete interpreter: for every
           executed case the rank ids it predicts for the tensor-named variables of the final state
           must be those Model/Interp.v reports (must-bound: equal; may-bound: unbound or equal;
           unbound: unbound).  A disagreement is reported as `rankty-model-mismatch` - it means the
           abstract semantics is wrong, not the compiler."""
import specgen
import specgen_wide
import runlib
import execlib
import popgen
import rankty

LEVEL = "translation_validation"

TIE_IMPORTS = ["TV.Model.RankTyTie"]


def report_expr(term):
    return "(report_c07 %s)" % term


def verdict_class(r):
    """structural class of a static rejection (for known-finding keys)"""
    v = r["verdict"]
    if v == "BAD":
        d = r["detail"]
        for key, cls in (("setRankIds renames a user-supplied", "renames-user-input"),
                         ("populates a fiber of a user-supplied", "populates-user-input"),
                         ("creates payloads in a user-supplied", "populates-user-input"),
                         ("updates a payload of a user-supplied", "updates-user-input"),
                         ("not a permutation", "swizzle-not-a-permutation"),
                         ("wrong number of ranks", "rename-wrong-arity"),
                         ("depth out of range", "depth-out-of-range"),
                         ("differs between paths", "path-dependent-value"),
                         ("no loop invariant", "no-invariant"),
                         ("cannot be joined", "no-join")):
            if key in d:
                return cls
        return "outside-modelled-subset"
    return {"NAME": "name-lies", "MISSING": "result-or-input-not-bound", "UNBOUND": "unbound-read",
            "UNTRANSLATABLE": "not-python-subset", "SYNTAXERROR": "not-python"}.get(v, v)


def compare_final(static, concrete):
    """static: {name: ('U',)|('M'|'m', ids)|('T',)|('N',)|('D',)}, concrete: {name: ('U',)|('M', ids)|('N',)} -> list of mismatches"""
    bad = []
    for n, a in static.items():
        if n not in concrete:
            continue
        c = concrete[n]
        if a[0] == "U":
            ok = c[0] == "U"
        elif a[0] == "M":
            ok = c[0] == "M" and c[1] == a[1]
        elif a[0] == "m":
            ok = c[0] == "U" or (c[0] == "M" and c[1] == a[1])
        elif a[0] == "N":
            ok = c[0] in ("N", "U")
        else:
            ok = True                      # T / D: the checker claims nothing
        if not ok:
            bad.append("%s: predicted %s, executed %s" % (n, a, c))
    return bad


def gather(ctx):
    rng = ctx.rng
    q = ctx.quick()
    pops = []
    pops += list(popgen.plain(rng, 90 if q else 800))
    pops += list(popgen.shape(rng, 90 if q else 800))
    pops += list(popgen.occupancy(rng, 120 if q else 1000))
    pops += list(popgen.cascade(rng, 50 if q else 400))
    # rank names are part of the input space (level / intermediate / flattened names are made by concatenation): half of
    # every population is renamed by an injective map into a wide pool (I, O, KI, K1, M20, ROW, ...)
    pops = list(specgen_wide.renamed(rng, pops, p=0.5))
    # per-level leaders, 1-3 occupancy levels, flatten() of ranks of any tensor incl. the output (contiguous / swizzled /
    # bottom shape levels), two flattens, output-concordant and default loop orders, 4 ranks (tools/specgen_wide.py)
    pops += list(specgen_wide.wide_items(rng, 250 if q else 2000, flatten_p=0.6, occ_flat_p=0.45, concordant_p=0.4))
    # two partitioned Einsums over the same rank names in one specification (the second may read the first one's result)
    pops += list(specgen_wide.wide_pairs(rng, 60 if q else 500))
    return pops


def gather_static_only(ctx):
    """graphics-mode and metrics-mode programs (and index math): the static checker only"""
    rng = ctx.rng
    q = ctx.quick()
    base = list(popgen.plain(rng, 30 if q else 300)) + list(popgen.shape(rng, 30 if q else 300)) + list(popgen.occupancy(rng, 50 if q else 500))
    pops = list(popgen.with_spacetime(rng, base))
    pops += list(popgen.affine(rng, 40 if q else 400)) + list(popgen.affine_occ(rng, 20 if q else 200))
    pops += popgen.accelerators()
    pops += list(popgen.compute_only(rng, 15 if q else 150))
    return pops


def make_case(spec, text, it, rng):
    nr = len(set(r for rs in spec.decl.values() for r in rs))
    ext = runlib.default_extents(spec, rng, 1, 6 if nr <= 3 else (4 if nr == 4 else 3))
    data, scal = runlib.gen_inputs(spec, ext, rng, density=rng.choice([1.0, 0.6]))
    return execlib.Case(spec, text, ext, data, scal, extra_ints=it["syms"], meta={"kind": it["kind"]})


def concrete_failure(c):
    """what is wrong with the final state of an executed case (None: nothing)"""
    r = c.result
    if r is None:
        return "not executed"
    if r["status"] != "RAN":
        return "program cannot be executed: %s" % r.get("err", r["status"])
    bad = [k + "=" + r[k][:120] for k in ("names", "inp", "out") if r[k] != "OK"]
    return "; ".join(bad) if bad else None


def run(ctx):
    rng = ctx.rng
    pops = gather(ctx)
    cases = []
    progs = []            # every compiled program (also the ones execution skips): static checker
    stats = {"by_kind": {}, "rejected": 0, "naming": {}, "features": {}}
    for it in pops:
        try:
            spec = runlib.Spec(it["yaml"])
            text = spec.compile()
        except Exception:
            stats["rejected"] += 1
            continue
        progs.append((spec, text, it))
        if any(specgen.take_selected_lacks_rank(s) for s in spec.structs):
            continue
        stats["by_kind"][it["kind"]] = stats["by_kind"].get(it["kind"], 0) + 1
        nm = it.get("naming") or (it.get("features") or {}).get("naming") or "identity"
        stats["naming"][nm] = stats["naming"].get(nm, 0) + 1
        for k, v in (it.get("features") or {}).items():
            if k != "naming" and v:
                stats["features"][k] = stats["features"].get(k, 0) + 1
        cases.append(make_case(spec, text, it, rng))

    # ---- static: the certified checker on every program, before / independently of execution ----------------------
    extra = []
    for it in gather_static_only(ctx):
        try:
            spec = runlib.Spec(it["yaml"])
            text = spec.compile(arch=it.get("arch", False))
        except Exception:
            continue
        extra.append((spec, text, it))
    allp = progs + extra
    sres = rankty.analyse([(s, t, it.get("syms") or {}) for s, t, it in allp], "c07s", shard=20)
    static_of = {}
    sstat = {"programs": len(progs), "accepted": 0, "rejected": {}, "extra_modes": {"programs": len(extra), "accepted": 0, "unbound_read_c06": 0, "rejected": {}}}
    rejected = []
    for k, ((spec, text, it), r) in enumerate(zip(allp, sres)):
        main = k < len(progs)
        if main:
            static_of[text] = r
        tgt = sstat if main else sstat["extra_modes"]
        if r["verdict"] == "OK":
            tgt["accepted"] += 1
            continue
        cls = verdict_class(r)
        if not main and r["verdict"] == "UNBOUND":
            tgt["unbound_read_c06"] += 1       # a definitely-unbound name is read: C06's subject (F5b / F6), nothing to say about C07
            continue
        tgt["rejected"][cls] = tgt["rejected"].get(cls, 0) + 1
        rejected.append((spec, text, it, r, cls, main))

    # ---- dynamic: execution of every case, with the rank ids of the tensor-named variables -------------------------
    # further inputs for statically rejected programs: the search for a concrete failing final state
    search = []
    for spec, text, it, r, cls, main in rejected:
        if any(specgen.take_selected_lacks_rank(s) for s in spec.structs):
            continue
        for _ in range(3):
            c = make_case(spec, text, it, rng)
            c.meta["search_for"] = cls
            search.append(c)
    execlib.evaluate(cases + search, "c07", expr_fn=report_expr, imports=TIE_IMPORTS)

    bad = 0
    names_checked = 0
    compared = 0
    for c in cases:
        r = c.result
        names_checked += len([n for n in (c.names or []) if runlib.NAME_RE.match(n)])
        if r["status"] != "RAN":
            bad += 1
            ctx.violation({"kind": "execution-error", "error": r.get("err", r["status"])[:40]}, "program cannot be executed: %s" % r, c.replay())
            continue
        if r["names"] != "OK":
            bad += 1
            ctx.violation({"kind": "name-lies"}, "a variable named <Name>_<Ranks> holds a tensor with other rank ids: %s" % r["names"], c.replay())
        if r["inp"] != "OK":
            bad += 1
            ctx.violation({"kind": "input-modified"}, "an input tensor was modified by the program: %s" % r["inp"], c.replay())
        if r["out"] != "OK":
            bad += 1
            kind = "result-wrong-name-or-ranks" if ("NOTENSOR" in r["out"] or "RANKIDS" in r["out"]) else "result-wrong-coordinates-or-values"
            ctx.violation({"kind": kind}, "result not bound under its declared name / rank order / original coordinates: %s" % r["out"][:300], c.replay())
        # the abstract semantics' prediction against the concrete interpreter
        st = static_of.get(c.text)
        if st is not None and st.get("final") and len(r["extra"]) >= 2:
            conc = rankty.parse_final(r["extra"][1], c.names)
            compared += len([n for n in st["final"] if n in conc])
            mm = compare_final(st["final"], conc)
            if mm:
                bad += 1
                rep = c.replay()
                rep["static"] = st["raw"]
                ctx.violation({"kind": "rankty-model-mismatch"},
                              "the abstract rank-id semantics (Model/RankTy.v) predicts other rank ids than the interpreter reports - the MODEL is wrong: %s" % "; ".join(mm[:4]), rep)

    # ---- a static rejection is a broken obligation -----------------------------------------------------------------
    by_text = {}
    for c in cases + search:
        by_text.setdefault(c.text, []).append(c)
    for spec, text, it, r, cls, main in rejected:
        bad += 1
        witness = None
        for c in by_text.get(text, []):
            why = concrete_failure(c)
            if why is not None and why != "not executed":
                witness = (c, why)
                break
        what = "the certified rank-id checker rejects the emitted program (%s mode, %s): %s %s" % (
            "plain" if main else it["kind"], cls, r["verdict"], r["detail"])
        key = {"kind": "rankty-rejected", "class": cls, "mode": "plain" if main else it["kind"].split(":")[0].split("+")[-1]}
        if witness is not None:
            rep = witness[0].replay()
            rep["static"] = r.get("raw", r["detail"])
            ctx.violation(key, what + " -- and an execution ends in a final state that violates the property: " + witness[1], rep)
        else:
            ctx.violation(key, what, {"yaml": spec.yaml, "text": text, "static": r.get("raw", r["detail"]), "arch": bool(it.get("arch"))}, no_input=True)

    distinct = len(set(c.text for c in cases))
    sstat["predictions_compared_with_interpreter"] = compared
    ctx.coverage.update({
        "programs": distinct, "executions": len(cases), "disagreements_checked": bad, "evaluations": len(cases) + len(allp) + len(search), "distinct_nontrivial": distinct,
        "population": stats, "tensor_named_variables_checked": names_checked,
        "static_checker": sstat,
        "rule": "populations of C01 (plain), C02 (shape), C03 (occupancy/flatten, base and wide), C05 (cascades), half of them with ranks renamed into a wide pool of names; "
                "every program: one kernel evaluation of the certified rank-id checker (plus graphics-mode / metrics-mode / index-math programs, static only); "
                "one execution each: every <Name>_<Ranks> variable, every input and every result checked on the final state, and the checker's predicted rank ids compared with the interpreter's",
        "samples": [{"yaml": cases[0].spec.yaml, "result": cases[0].raw, "static": static_of[cases[0].text]["raw"],
                     "names": [n for n in cases[0].names if runlib.NAME_RE.match(n)]}],
        "trusted_base": ["Coq 8.16.1 kernel + VM", "Model/Rt.v + Model/Interp.v + Model/Harness.v check_name/check_input/check_out", "tools/py2coq.py", "Model/Einsum.v",
                         "Model/RankTy.v: the abstract rank-id semantics `sem` / `step` (what each statement form does to tensor objects), tied to Model/Interp.v by the prediction comparison",
                         "tools/rankty.py: the checker's context (inputs, API names, tensor-named identifiers, required results) from the specification alone"],
    })


def replay(ctx, rep):
    r = rep["replay"]
    spec = runlib.Spec(r["yaml"])
    text = spec.compile(arch=bool(r.get("arch")))
    print(text)
    st = rankty.analyse([(spec, text, r.get("extra_ints") or {})], "c07rs")[0]
    print("static:", st["verdict"], st["detail"], st.get("raw", ""))
    rc = 0
    if st["verdict"] != "OK" and not (st["verdict"] == "UNBOUND" and r.get("arch")):
        rc = 1
    if "inputs" in r:
        data = {t: {tuple(int(x) for x in k.split(",") if x != ""): v for k, v in d.items()} for t, d in r["inputs"].items()}
        c = execlib.Case(spec, text, r["extents"], data, r["scalars"], extra_ints=r.get("extra_ints"))
        execlib.evaluate([c], "c07r", expr_fn=report_expr, imports=TIE_IMPORTS)
        print("result:", c.raw)
        if not c.raw.startswith("RAN;OK;OK;OK"):
            rc = 1
        elif st.get("final"):
            mm = compare_final(st["final"], rankty.parse_final(c.result["extra"][1], c.names))
            if mm:
                print("model mismatch:", mm)
                rc = 1
    if rc:
        print("VIOLATION property=C07 replay=<given file>")
    return rc
