"""C07 - tensor variable names tell the truth and inputs are never modified.

Theorems (Props/C07.v): every tensor-producing runtime operation of the model only ALLOCATES
(existing heap objects are untouched): fresh_ops_frame; the compiler-side name of a tensor
spells its active ranks (TensorSM).  Tie: kernel-evaluated post-condition on the final state
of every execution of the C01-C05 populations: (a) every variable spelled <Name>_<Ranks>[_flat]
that is bound holds a tensor whose rank ids concatenate to <Ranks>; (b) each Einsum's result is
bound to <Out>_<declared-or-rank-order ranks>, with those rank ids, equal to the oracle in
original coordinates; (c) every input variable still holds a tensor with the same rank ids and
the same data as before the run."""
import specgen
import specgen_wide
import runlib
import execlib
import popgen

LEVEL = "translation_validation"


def run(ctx):
    rng = ctx.rng
    q = ctx.quick()
    pops = []
    pops += list(popgen.plain(rng, 90 if q else 800))
    pops += list(popgen.shape(rng, 90 if q else 800))
    pops += list(popgen.occupancy(rng, 120 if q else 1000))
    pops += list(popgen.cascade(rng, 50 if q else 400))
    # rank names are part of the input space (level / intermediate / flattened names are made by concatenation): half of
    # every population is renamed by an injective map into a wide pool (I, O, KI, K1, M20, ROW, ...)
    pops = list(specgen_wide.renamed(rng, pops, p=0.5))
    # per-level leaders, 1-3 occupancy levels, flatten() of ranks of any tensor incl. the output (contiguous / swizzled /
    # bottom shape levels), two flattens, output-concordant and default loop orders, 4 ranks (tools/specgen_wide.py)
    pops += list(specgen_wide.wide_items(rng, 250 if q else 2000, flatten_p=0.6, occ_flat_p=0.45, concordant_p=0.4))
    # two partitioned Einsums over the same rank names in one specification (the second may read the first one's result)
    pops += list(specgen_wide.wide_pairs(rng, 60 if q else 500))
    cases = []
    stats = {"by_kind": {}, "rejected": 0, "naming": {}, "features": {}}
    for it in pops:
        try:
            spec = runlib.Spec(it["yaml"])
            text = spec.compile()
        except Exception:
            stats["rejected"] += 1
            continue
        if any(specgen.take_selected_lacks_rank(s) for s in spec.structs):
            continue
        stats["by_kind"][it["kind"]] = stats["by_kind"].get(it["kind"], 0) + 1
        nm = it.get("naming") or (it.get("features") or {}).get("naming") or "identity"
        stats["naming"][nm] = stats["naming"].get(nm, 0) + 1
        for k, v in (it.get("features") or {}).items():
            if k != "naming" and v:
                stats["features"][k] = stats["features"].get(k, 0) + 1
        nr = len(set(r for rs in spec.decl.values() for r in rs))
        ext = runlib.default_extents(spec, rng, 1, 6 if nr <= 3 else (4 if nr == 4 else 3))
        data, scal = runlib.gen_inputs(spec, ext, rng, density=rng.choice([1.0, 0.6]))
        cases.append(execlib.Case(spec, text, ext, data, scal, extra_ints=it["syms"], meta={"kind": it["kind"]}))
    execlib.evaluate(cases, "c07")
    bad = 0
    names_checked = 0
    for c in cases:
        r = c.result
        names_checked += len([n for n in (c.names or []) if runlib.NAME_RE.match(n)])
        if r["status"] != "RAN":
            bad += 1
            ctx.violation({"kind": "execution-error", "error": r.get("err", r["status"])[:40]}, "program cannot be executed: %s" % r, c.replay())
            continue
        if r["names"] != "OK":
            bad += 1
            ctx.violation({"kind": "name-lies"}, "a variable named <Name>_<Ranks> holds a tensor with other rank ids: %s" % r["names"], c.replay())
        if r["inp"] != "OK":
            bad += 1
            ctx.violation({"kind": "input-modified"}, "an input tensor was modified by the program: %s" % r["inp"], c.replay())
        if r["out"] != "OK":
            bad += 1
            kind = "result-wrong-name-or-ranks" if ("NOTENSOR" in r["out"] or "RANKIDS" in r["out"]) else "result-wrong-coordinates-or-values"
            ctx.violation({"kind": kind}, "result not bound under its declared name / rank order / original coordinates: %s" % r["out"][:300], c.replay())
    distinct = len(set(c.text for c in cases))
    ctx.coverage.update({
        "programs": distinct, "executions": len(cases), "disagreements_checked": bad, "evaluations": len(cases), "distinct_nontrivial": distinct,
        "population": stats, "tensor_named_variables_checked": names_checked,
        "rule": "populations of C01 (plain), C02 (shape), C03 (occupancy/flatten, base and wide), C05 (cascades), half of them with ranks renamed into a wide pool of names; one execution each; every <Name>_<Ranks> variable, every input and every result checked on the final state",
        "samples": [{"yaml": cases[0].spec.yaml, "result": cases[0].raw, "names": [n for n in cases[0].names if runlib.NAME_RE.match(n)]}],
        "trusted_base": ["Coq 8.16.1 kernel + VM", "Model/Rt.v + Model/Interp.v + Model/Harness.v check_name/check_input/check_out", "tools/py2coq.py", "Model/Einsum.v"],
    })


def replay(ctx, rep):
    r = rep["replay"]
    spec = runlib.Spec(r["yaml"])
    text = spec.compile()
    data = {t: {tuple(int(x) for x in k.split(",") if x != ""): v for k, v in d.items()} for t, d in r["inputs"].items()}
    c = execlib.Case(spec, text, r["extents"], data, r["scalars"], extra_ints=r.get("extra_ints"))
    execlib.evaluate([c], "c07r")
    print(text)
    print("result:", c.raw)
    if c.raw != "RAN;OK;OK;OK":
        print("VIOLATION property=C07 replay=<given file>")
        return 1
    return 0
