"""C09 - the printed text denotes the syntax tree the compiler built.

Tie (per tree, T-val with CPython's own parser as the definition of "what the text denotes"):
the object tree HiFiber(...).hifiber is dumped constructor-for-constructor into Model/HAst.v
(tools/obj2coq.py), the emitted text is parsed by CPython's ast and translated into Model/Py.v
(tools/py2coq.py); inside coqc  norm(strip(tree)) = norm(py2coq(text))  is decided by a
sumbool equality (sound by construction), where strip forgets EParens and norm re-associates
chains of + and of * only.  Populations: all statement trees of C01-C05, C16, C11 + every
expression the coordinate-expression builder produces from generated affine sympy expressions.
Theorem (Props/C09.v): norm preserves the integer value of every arithmetic expression."""
import ast
import re

import vlib
import runlib
import popgen
import py2coq
import obj2coq
import specgen_metrics
import specgen_indexmath
import specgen_hw

LEVEL = "translation_validation"
IMPORTS = ["TV.Model.Show", "TV.Model.Py", "TV.Model.HAst"]


def tree_and_text(it):
    from teaal.trans.hifiber import HiFiber
    from teaal.parse import Einsum, Mapping, Architecture, Bindings, Format
    y = it["yaml"]
    if it.get("arch"):
        hf = HiFiber(Einsum.from_str(y), Mapping.from_str(y), Architecture.from_str(y), Bindings.from_str(y), Format.from_str(y))
    else:
        hf = HiFiber(Einsum.from_str(y), Mapping.from_str(y))
    return hf.hifiber, str(hf)


def case_expr(tree_stmt, text):
    prog, names = py2coq.translate(text)
    tr = py2coq.Translator(names)
    h = obj2coq.Dumper(tr).stmt(tree_stmt)
    fid = tr.ident("float")
    return '(c09_check %s %s %s ++ "," ++ show_bool (c09_exact %s %s %s))' % (fid, h, prog, fid, h, prog)


def nestings(node, acc, parent=None, seen=None):
    """Coverage measure: how binary operations are nested in the trees of the population - 'child-op under parent-op, side,
    parenthesized?' (the precedence-relevant shapes the printer is exercised on)."""
    from teaal.hifiber import EBinOp, EParens
    seen = set() if seen is None else seen
    if id(node) in seen or isinstance(node, (str, int, float, bool, type(None))):
        return
    seen.add(id(node))
    if isinstance(node, EBinOp):
        for side, ch in (("L", node.expr1), ("R", node.expr2)):
            par = False
            while isinstance(ch, EParens):
                par, ch = True, ch.expr
            if isinstance(ch, EBinOp):
                k = "%s under %s %s%s" % (ch.op.gen(), node.op.gen(), side, " parens" if par else "")
                acc[k] = acc.get(k, 0) + 1
    if isinstance(node, (list, tuple)):
        for x in node:
            nestings(x, acc, node, seen)
    elif isinstance(node, dict):
        for k, v in node.items():
            nestings(k, acc, node, seen)
            nestings(v, acc, node, seen)
    elif hasattr(node, "__dict__"):
        for v in vars(node).values():
            nestings(v, acc, node, seen)


def coord_builder_cases(ctx, n):
    """Expressions CoordAccess.build_expr produces from affine sympy expressions."""
    import sympy
    from teaal.trans.coord_access import CoordAccess
    from teaal.hifiber import SExpr
    rng = ctx.rng
    syms = [sympy.Symbol(x) for x in ("q", "s", "w", "p")]
    out = []
    for _ in range(n):
        k = rng.randint(1, 3)
        e = sympy.Integer(0)
        for v in rng.sample(syms, k):
            num = rng.choice([-3, -2, -1, 1, 1, 2, 3])
            den = rng.choice([1, 1, 1, 2, 3, 4])
            e += sympy.Rational(num, den) * v
        if rng.random() < 0.4:
            e += sympy.Rational(rng.randint(-4, 4), rng.choice([1, 1, 2]))
        if e == 0:
            continue
        try:
            h = CoordAccess.build_expr(e)
        except Exception as ex:
            out.append(("builder-raised", str(e), type(ex).__name__ + ": " + str(ex)[:80], None))
            continue
        out.append(("built", str(e), h.gen(), SExpr(h)))
    return out


def run(ctx):
    rng = ctx.rng
    q = ctx.quick()
    items = []
    items += list(popgen.plain(rng, 80 if q else 600))
    items += list(popgen.shape(rng, 80 if q else 600))
    items += list(popgen.occupancy(rng, 90 if q else 700))
    items += list(popgen.affine(rng, 140 if q else 1200))
    items += list(popgen.cascade(rng, 30 if q else 200))
    base = list(popgen.plain(rng, 40 if q else 300)) + list(popgen.shape(rng, 40 if q else 300)) + list(popgen.occupancy(rng, 50 if q else 400))
    items += list(popgen.with_spacetime(rng, base))
    items += popgen.accelerators()
    for _ in range(40 if q else 300):
        y, meta = specgen_metrics.gen(rng)
        items.append({"yaml": y, "kind": "generated-metrics", "arch": True})
    # index math with the partitioning declared on any rank of the relation (fractional / negative / integer scaling of
    # compound n-way steps and of atomic steps; followers of a strided rank), and metrics-mode cascades with sequencers,
    # mergers, buffets and intersectors shared by several Einsums (time / traffic formulas of the collector)
    items += [specgen_indexmath.gen(rng) for _ in range(300 if q else 2500)]
    items += [specgen_hw.gen_cascade(rng) for _ in range(60 if q else 500)]
    # buffer hierarchies (DRAM, cache, two buffet levels, sequencers): the traffic / time formulas of the dump
    import specgen_c12
    for _ in range(120 if q else 900):
        y, meta = specgen_c12.gen(rng)
        items.append({"yaml": y, "kind": "generated-c12", "arch": True, "syms": {}})
    exprs, meta = [], []
    stats = {"trees": 0, "rejected": 0, "by_kind": {}, "untranslatable": {}, "binop_nestings": {}}
    bad = 0
    for it in items:
        try:
            tree, text = tree_and_text(it)
        except Exception:
            stats["rejected"] += 1
            continue
        nestings(tree, stats["binop_nestings"])
        try:
            exprs.append(case_expr(tree, text))
        except (py2coq.Unsupported, obj2coq.Unsupported, SyntaxError) as e:
            k = type(e).__name__ + ": " + str(e)[:50]
            stats["untranslatable"][k] = stats["untranslatable"].get(k, 0) + 1
            bad += 1
            ctx.violation({"kind": "untranslatable-tree-or-text", "detail": k[:40]}, "tree or text outside the modelled HiFiber/Python subset: %s" % k,
                          {"yaml": it["yaml"], "text": text}, no_input=True)
            continue
        kind = it["kind"].split(":")[0]
        stats["by_kind"][kind] = stats["by_kind"].get(kind, 0) + 1
        stats["trees"] += 1
        meta.append((it, text))
    cb = coord_builder_cases(ctx, 300 if q else 3000)
    ncb = 0
    for kind, src, text, stmt in cb:
        if kind != "built":
            continue
        try:
            exprs.append(case_expr(stmt, text))
            meta.append(({"kind": "coord-builder", "yaml": src}, text))
            ncb += 1
        except (py2coq.Unsupported, obj2coq.Unsupported, SyntaxError) as e:
            bad += 1
            ctx.violation({"kind": "untranslatable-tree-or-text", "detail": str(e)[:40]}, "coordinate-expression builder output outside the subset: %s -> %s (%s)" % (src, text, e),
                          {"sympy": src, "text": text}, no_input=True)
    stats["coord_builder_exprs"] = ncb
    res = vlib.coq_eval_lines("c09", IMPORTS, "", exprs, shard=40)
    exact = 0
    for (it, text), r in zip(meta, res):
        verdict, ex = r.split(",")
        if ex == "T":
            exact += 1
        if verdict == "OK":
            continue
        bad += 1
        m = re.match(r'DIFF@(\d+)', verdict)
        where = ""
        if m:
            body = ast.parse(text).body
            i = int(m.group(1))
            where = ast.unparse(body[i])[:300] if i < len(body) else "<missing statement %d>" % i
        nway_under_product = bool(re.search(r'\d \* \([A-Z]\w* - 1\) // ', where))
        ctx.violation({"kind": "text-differs-from-tree", "nway_step_under_product": nway_under_product},
                      "CPython parses the emitted text into a different tree than the translator built; first differing statement: %s" % where,
                      {"yaml": it.get("yaml"), "kind": it["kind"], "text": text, "verdict": verdict, "statement": where})
    ctx.coverage.update({
        "programs": len(meta), "disagreements_checked": bad, "evaluations": len(meta), "distinct_nontrivial": len(set(t for _, t in meta)),
        "population": stats, "equal_without_reassociation": exact,
        "rule": "statement trees of the C01-C05 populations, the same with spacetime, accelerator and generated metrics specifications (incl. multi-Einsum cascades sharing "
                "sequencers/mergers/buffets/intersectors); index-math Einsums (1-3 variables, coefficients 1-4 and negative, varied rank names) partitioned on ANY rank of the "
                "relation (n-way / uniform shape stacks, literal or symbolic) with the other ranks following; plus expressions built by "
                "CoordAccess.build_expr from generated affine sympy expressions (1-3 symbols, rational coefficients with denominators 1-4, optional constant)",
        "samples": [{"kind": meta[0][0]["kind"], "text": meta[0][1][:400], "verdict": res[0]}, {"kind": "coord-builder", "sympy": meta[-1][0]["yaml"], "text": meta[-1][1], "verdict": res[-1]}],
        "trusted_base": ["Coq 8.16.1 kernel + VM", "CPython ast.parse (the definition of what the text denotes)", "tools/py2coq.py and tools/obj2coq.py (fail-closed; an error in one shows up as a disagreement)",
                         "reading EVar('None'/'True'/'False') as the Python constants"],
    })


def replay(ctx, rep):
    r = rep["replay"]
    print(r.get("statement"))
    print(r.get("text", "")[:3000])
    return 0
