"""C10 - statement order respects every data and control dependence.

Theorems (coq/Props/C10.v, proofs in Proofs/FlowOrderProofs.v), for EVERY graph, loop list and
topological order: the model of FlowGraph.__hoist returns a permutation that is still a
topological order (so every statement follows all statements it transitively depends on, and
nothing is lifted above a loop it depends on); any topological order of a graph holding the
chain Loop r1 -> .. -> Body -> EndLoop rn -> .. has its brackets nested in loop order with the
update innermost; the bracket consumer builds a tree whose in-order reading is the list itself;
the decision procedures hoist_spec_okb / topo_okb / brackets_okb are sound and complete.

Tie, re-established on every run against TEAAL_REPO's working tree:
 (A) T-ref.  For every Einsum of every generated specification (plain and metrics mode) and for
     several topological tie-breaks (networkx's own, seeded random Kahn orders, LIFO, loops-first,
     loops-last - substituted for nx.topological_sort inside teaal.ir.flow_graph only) the code's
     own graph, its pre-hoist list (opts=[]) and its post-hoist list (the one HiFiber consumed) are
     handed to the kernel, which evaluates the verified checkers on them.
 (B) The statement tree HiFiber really built is compared, statement by statement and nesting level
     by nesting level, with the post-hoist list: per-node statements come from an instrumented
     replica of HiFiber.__translate that calls the same translator objects in list order, nesting
     depths come from the Gallina `depths` (theorem C10_trans_nodes_faithful).
 (P) Pruning: a probe subclass keeps a copy of the graph as it was before FlowGraph.__prune; the kernel
     checks that every kept node reaches exactly the same kept nodes before and after (prune_okb,
     theorem C10_prune_okb_sound) and that no statement node was pruned.
 (C) Completeness of the graph (does it hold every TRUE dependence?) cannot be read off the graph.
     (C1) per node the names its statements write/read are extracted from the emitted text; every
     pair of statements touching a common name (one writing) that the graph ORDERS is emitted in
     that order under every tie-break (conflicts_okb, theorem C10_conflicts_okb_sound); every such
     pair the graph does NOT order is a candidate missing dependence and is flipped by a targeted
     tie-break ("front|node").  (C2) every distinct text produced under the tie-breaks (targeted
     flips first) is run through C06's verified closedness checker and executed in coqc on
     identical inputs; outcomes must not depend on the tie-break (a missing edge shows up as a
     tie-break under which a name is read before it is bound, the compiler crashes, or another
     tensor / canvas activity is computed).
"""
import collections
import random
import re
import time

import vlib
from vlib import clist, cpos
import popgen
import runlib
import execlib
import specgen_metrics
from props import c06
from props.c06 import partition_info

LEVEL = "proof"

COQ_IMPORTS = ["TV.Model.Show", "TV.Model.FlowOrder"]

MAX_EXECUTED_VARIANTS = 4     # networkx's order, then the targeted flips, then the others
STRATEGIES = ["random", "lifo", "loopsfirst", "loopslast", "fifo", "lazy"]


# ----------------------------------------------------------------------------
# topological tie-breaks (third-party behaviour the property quantifies over)
# ----------------------------------------------------------------------------

class TieBreak:
    """Stands in for the `nx` name inside teaal.ir.flow_graph: everything is networkx except
    topological_sort, which returns a seeded Kahn order of the same graph."""

    def __init__(self, strat, seed):
        import networkx
        self._nx = networkx
        self.strat = strat
        self.seed = seed

    def __getattr__(self, k):
        return getattr(self._nx, k)

    def topological_sort(self, g):
        from teaal.ir.flow_nodes import LoopNode, EndLoopNode, OtherNode
        if self.strat.startswith("front|"):
            # networkx's own order, except that the node named after the bar and everything it
            # depends on is emitted first: flips the node with every statement it is not ordered with
            base = list(self._nx.topological_sort(g))
            target = [n for n in base if repr(n) == self.strat[6:]]
            if not target:
                return base
            first = self._nx.ancestors(g, target[0]) | {target[0]}
            return [n for n in base if n in first] + [n for n in base if n not in first]
        rng = random.Random("%s-%d" % (self.strat, self.seed))
        indeg = {n: g.in_degree(n) for n in g.nodes}
        ready = [n for n in g.nodes if indeg[n] == 0]
        out = []
        needed = []
        if self.strat == "lazy":
            # every statement as late as possible: only what the next loop opening / update / loop
            # closing needs is emitted before it, so whatever does not depend on a loop lands
            # behind the loop node and the hoist pass has to lift it
            chain = [n for n in g.nodes if isinstance(n, (LoopNode, EndLoopNode)) or n == OtherNode("Body") or n == OtherNode("Footer")]
            anc = {n: self._nx.ancestors(g, n) for n in chain}
            chain.sort(key=lambda n: len(anc[n]))
            needed = [anc[n] | {n} for n in chain]
        done = set()
        while ready:
            if self.strat == "lazy":
                while needed and needed[0] <= done:
                    needed.pop(0)
                cand = [j for j, n in enumerate(ready) if needed and n in needed[0]]
                i = rng.choice(cand) if cand else rng.randrange(len(ready))
            elif self.strat == "random":
                i = rng.randrange(len(ready))
            elif self.strat == "lifo":
                i = len(ready) - 1
            elif self.strat == "fifo":
                i = 0
            elif self.strat == "loopsfirst":
                # open loops as early as possible: everything independent of them lands behind
                # the loop node and has to be hoisted
                cand = [j for j, n in enumerate(ready) if isinstance(n, LoopNode)]
                i = cand[0] if cand else rng.randrange(len(ready))
            elif self.strat == "loopslast":
                cand = [j for j, n in enumerate(ready) if not isinstance(n, LoopNode)]
                i = rng.choice(cand) if cand else 0
            else:
                raise ValueError(self.strat)
            n = ready.pop(i)
            out.append(n)
            done.add(n)
            for _, m in g.out_edges(n):
                indeg[m] -= 1
                if indeg[m] == 0:
                    ready.append(m)
        if len(out) != len(g.nodes):
            # networkx raises NetworkXUnfeasible on a cycle
            raise self._nx.NetworkXUnfeasible("Graph contains a cycle")
        return out


class patched:
    """Context manager: install a tie-break and a recording FlowGraph factory."""

    def __init__(self, tb, recorder=None):
        self.tb = tb
        self.recorder = recorder

    def __enter__(self):
        import networkx
        import teaal.ir.flow_graph as FG
        import teaal.trans.hifiber as HF
        self.FG, self.HF = FG, HF
        self.old_nx = FG.nx
        self.old_fg = HF.FlowGraph
        FG.nx = networkx if self.tb is None else TieBreak(*self.tb)
        if self.recorder is not None:
            HF.FlowGraph = self.recorder
        return self

    def __exit__(self, *a):
        self.FG.nx = self.old_nx
        self.HF.FlowGraph = self.old_fg
        return False


class Recorder:
    """Replaces the name FlowGraph in teaal.trans.hifiber: builds the real FlowGraph twice through
    its public constructor (opts=[] for the pre-hoist list, then the caller's opts) and records."""

    def __init__(self):
        from teaal.ir.flow_graph import FlowGraph
        self.FlowGraph = FlowGraph
        self.records = []
        self.Probe = None
        if hasattr(FlowGraph, "_FlowGraph__prune"):
            # observation only: the probe instance (used for the pre-hoist list, never handed to
            # HiFiber) keeps a copy of the graph as it was before FlowGraph.__prune
            class Probe(FlowGraph):
                def _FlowGraph__prune(self):
                    self.c10_unpruned = self.graph.copy()
                    FlowGraph._FlowGraph__prune(self)
            self.Probe = Probe

    def __call__(self, program, metrics, opts):
        pre_fg = (self.Probe or self.FlowGraph)(program, metrics, [])
        fg = self.FlowGraph(program, metrics, opts)
        self.records.append(record_of(program, pre_fg, fg))
        return fg


def record_of(program, pre_fg, fg):
    from teaal.ir.flow_nodes import LoopNode, EndLoopNode, OtherNode
    g = fg.get_graph()
    names = [repr(n) for n in g.nodes]
    pre = [repr(n) for n in pre_fg.get_sorted()]
    post = [repr(n) for n in fg.get_sorted()]
    pre_edges = sorted((repr(a), repr(b)) for a, b in pre_fg.get_graph().edges)
    edges = sorted((repr(a), repr(b)) for a, b in g.edges)
    ranks = list(program.get_loop_order().get_ranks())
    unpruned = None
    gu = getattr(pre_fg, "c10_unpruned", None)
    if gu is not None:
        import networkx
        from teaal.ir.flow_nodes import FiberNode, RankNode, TensorNode
        try:
            order = [repr(n) for n in networkx.topological_sort(gu)]
        except Exception:   # noqa  (a cycle: reported through topo_okb on the node list)
            order = [repr(n) for n in gu.nodes]
        passthrough = [repr(n) for n in gu.nodes if isinstance(n, (FiberNode, RankNode, TensorNode)) or
                       (isinstance(n, OtherNode) and n.get_type() == "StartLoop")]
        unpruned = {"edges": sorted((repr(a), repr(b)) for a, b in gu.edges), "order": order, "passthrough": passthrough}
    return {"unpruned": unpruned, "names": names, "edges": edges, "same_graph": pre_edges == edges and sorted(names) == sorted(repr(n) for n in pre_fg.get_graph().nodes),
            "pre": pre, "post": post, "ranks": ranks,
            "loops": [repr(LoopNode(r)) for r in ranks], "ends": [repr(EndLoopNode(r)) for r in ranks],
            "body": repr(OtherNode("Body"))}


# ----------------------------------------------------------------------------
# the statement tree that was really built, flattened
# ----------------------------------------------------------------------------

def flat_stmt(stmt, depth, out):
    from teaal.hifiber import SBlock, SFor
    if isinstance(stmt, SBlock):
        for s in stmt.stmts:
            flat_stmt(s, depth, out)
    elif isinstance(stmt, SFor):
        out.append((depth, "for " + stmt.payload.gen(False) + " in " + stmt.expr.gen() + ":"))
        flat_stmt(stmt.stmt, depth + 1, out)
    else:
        out.append((depth, stmt.gen(0)))
    return out


def names_of(loop_hdr, code):
    """(names written, names read) by the statements one node emits, from the text alone.
    A method call standing alone as a statement counts as a read AND a write of its receiver
    (setRankIds, addActivity, ... mutate it).  For a loop node only the `for` header counts."""
    import ast
    src = (loop_hdr + "\n    pass") if loop_hdr is not None else code.gen(0)
    if not src.strip():
        return [], []
    try:
        tree = ast.parse(src)
    except SyntaxError:
        # e.g. a `for` emitted with an empty body by a non-loop node: complete it
        try:
            tree = ast.parse("\n".join(l + ("\n" + " " * (len(l) - len(l.lstrip()) + 4) + "pass" if l.rstrip().endswith(":") else "") for l in src.split("\n")))
        except SyntaxError:
            return None
    defs, uses = set(), set()
    for n in ast.walk(tree):
        if isinstance(n, ast.Name):
            (defs if isinstance(n.ctx, (ast.Store, ast.Del)) else uses).add(n.id)
        elif isinstance(n, ast.Expr) and isinstance(n.value, ast.Call) and isinstance(n.value.func, ast.Attribute):
            # a call standing alone as a statement is executed for its effect on the receiver
            t = n.value.func.value
            while isinstance(t, (ast.Subscript, ast.Attribute, ast.Call)):
                t = t.func if isinstance(t, ast.Call) else t.value
            if isinstance(t, ast.Name):
                defs.add(t.id)
        elif isinstance(n, ast.AugAssign) and isinstance(n.target, ast.Name):
            uses.add(n.target.id)
        elif isinstance(n, (ast.Assign, ast.AugAssign)):
            # writes through a subscript / attribute mutate the object: metrics["x"] = ..
            for t in (n.targets if isinstance(n, ast.Assign) else [n.target]):
                while isinstance(t, (ast.Subscript, ast.Attribute)):
                    t = t.value
                if isinstance(t, ast.Name):
                    defs.add(t.id)
    return sorted(defs), sorted(uses)


def conflict_groups(per):
    """[(earlier node, [later nodes touching a common name, one of the two writing])] in list order."""
    import runlib as _rl
    api = set(_rl.API_NAMES)
    info = []
    for name, loop_hdr, stmts, du in per:
        if du is None:
            return None
        d, u = du
        info.append((name, set(d) - api, set(u) - api))
    groups = []
    for i, (a, da, ua) in enumerate(info):
        later = []
        for b, db, ub in info[i + 1:]:
            if (da & (db | ub)) or (ua & db):
                later.append(b)
        if later:
            groups.append((a, later))
    return groups


def split_conflicts(rec, groups):
    """-> (groups ordered by the graph, [(a, b)] not ordered by it).  Reachability by networkx here;
    the ordered part is re-checked by the kernel (conflicts_okb, theorem C10_conflicts_okb_sound)."""
    import networkx
    g = networkx.DiGraph()
    g.add_nodes_from(rec["names"])
    g.add_edges_from(rec["edges"])
    ordered, unordered = [], []
    for a, bs in groups:
        desc = networkx.descendants(g, a) if a in g else set()
        ok = [b for b in bs if b in desc]
        if ok:
            ordered.append((a, ok))
        unordered += [(a, b) for b in bs if b not in desc]
    return ordered, unordered


def parse_all(yaml, arch):
    from teaal.parse import Einsum, Mapping
    e, m = Einsum.from_str(yaml), Mapping.from_str(yaml)
    if arch:
        from teaal.parse import Architecture, Bindings, Format
        return e, m, Architecture.from_str(yaml), Bindings.from_str(yaml), Format.from_str(yaml)
    return e, m, None, None, None


def compile_recorded(yaml, arch, tb):
    """-> (text, flattened real tree, per-Einsum records) with the current tree's HiFiber."""
    from teaal.trans.hifiber import HiFiber
    rec = Recorder()
    with patched(tb, rec):
        hf = HiFiber(*parse_all(yaml, arch))
    return str(hf), flat_stmt(hf.hifiber, 0, []), rec.records


def reference_walk(yaml, arch, tb):
    """Instrumented replica of HiFiber.__init__/__translate: the same translator objects are driven
    in the order of FlowGraph(..., ['hoist']).get_sorted(), WITHOUT nesting; returns per Einsum the
    list [(repr(node), is_loop, [flattened statements relative to depth 0])]."""
    from teaal.hifiber import SBlock
    from teaal.ir.flow_graph import FlowGraph
    from teaal.ir import flow_nodes as N
    from teaal.ir.fusion import Fusion
    from teaal.ir.hardware import Hardware
    from teaal.ir.iter_graph import IterationGraph
    from teaal.ir.metrics import Metrics
    from teaal.ir.program import Program
    from teaal.trans.collector import Collector
    from teaal.trans.graphics import Graphics
    from teaal.trans.equation import Equation
    from teaal.trans.footer import Footer
    from teaal.trans.header import Header
    from teaal.trans.partitioner import Partitioner
    from teaal.trans.utils import TransUtils
    einsum, mapping, arch_, bindings, format_ = parse_all(yaml, arch)
    out = []
    with patched(tb):
        program = Program(einsum, mapping)
        hardware = fusion = None
        if arch_ and bindings and arch_.get_spec():
            hardware = Hardware(arch_, bindings, program)
            fusion = Fusion(hardware)
        trans_utils = TransUtils(program)
        for i in range(len(einsum.get_expressions())):
            program.add_einsum(i)
            metrics = None
            if hardware and format_:
                metrics = Metrics(program, hardware, format_)
                fusion.add_einsum(program)
            nodes = FlowGraph(program, metrics, ["hoist"]).get_sorted()
            graphics = Graphics(program, metrics)
            partitioner = Partitioner(program, trans_utils)
            header = Header(program, metrics, partitioner)
            graph = IterationGraph(program)
            eqn = Equation(program, metrics)
            collector = Collector(program, metrics, fusion) if metrics else None
            per = []
            for node in nodes:
                code = SBlock([])
                loop_hdr = None
                if isinstance(node, N.EagerInputNode):
                    code.add(eqn.make_eager_inputs(node.get_rank(), node.get_tensors()))
                elif isinstance(node, N.EndLoopNode):
                    pass
                elif isinstance(node, N.FromFiberNode):
                    code.add(Header.make_tensor_from_fiber(program.get_equation().get_tensor(node.get_tensor())))
                elif isinstance(node, N.GetPayloadNode):
                    code.add(header.make_get_payload(program.get_equation().get_tensor(node.get_tensor()), node.get_ranks()))
                elif isinstance(node, N.GetRootNode):
                    code.add(Header.make_get_root(program.get_equation().get_tensor(node.get_tensor())))
                elif isinstance(node, N.IntervalNode):
                    code.add(eqn.make_interval(node.get_rank()))
                elif isinstance(node, N.LoopNode):
                    rank, tensors = graph.peek_concord()
                    expr = eqn.make_iter_expr(rank, tensors)
                    _, tensors = graph.pop_concord()
                    payload = eqn.make_payload(rank, tensors)
                    loop_hdr = "for " + payload.gen(False) + " in " + expr.gen() + ":"
                elif isinstance(node, N.MetricsNode):
                    t = node.get_type()
                    code.add({"Body": collector.make_body, "Dump": collector.dump, "End": collector.end, "Start": collector.start}[t]())
                elif isinstance(node, N.MetricsFooterNode):
                    code.add(collector.make_loop_footer(node.get_rank()))
                elif isinstance(node, N.MetricsHeaderNode):
                    code.add(collector.make_loop_header(node.get_rank()))
                elif isinstance(node, N.OtherNode):
                    t = node.get_type()
                    if t == "Body":
                        code.add(eqn.make_update())
                        code.add(graphics.make_body())
                    elif t == "Footer":
                        code.add(Footer.make_footer(program, graphics, partitioner))
                    elif t == "Graphics":
                        code.add(graphics.make_header())
                    elif t == "Output":
                        code.add(header.make_output())
                    else:
                        raise ValueError("unknown node " + repr(node))
                elif isinstance(node, N.PartNode):
                    tensor = program.get_equation().get_tensor(node.get_tensor())
                    tensor.from_fiber()
                    code.add(partitioner.partition(tensor, node.get_ranks()))
                elif isinstance(node, N.SwizzleNode):
                    code.add(header.make_swizzle(program.get_equation().get_tensor(node.get_tensor()), node.get_ranks(), node.get_type()))
                else:
                    raise ValueError("unknown node " + repr(node))
                per.append((repr(node), loop_hdr, flat_stmt(code, 0, []), names_of(loop_hdr, code)))
            out.append(per)
            program.reset()
    return out


# ----------------------------------------------------------------------------
# Gallina terms
# ----------------------------------------------------------------------------

def intern_record(rec):
    """names -> positives; names occurring only in the lists / loop chain get fresh ids (the
    checkers then fail on coverage/brackets, as they must)."""
    ids = {}
    extra = []
    if rec.get("unpruned"):
        extra = rec["unpruned"]["order"] + [x for e in rec["unpruned"]["edges"] for x in e]
    for n in rec["names"] + rec["pre"] + rec["post"] + rec["loops"] + rec["ends"] + [rec["body"]] + [x for e in rec["edges"] for x in e] + extra:
        if n not in ids:
            ids[n] = len(ids) + 1
    return ids


def coq_report_expr(rec, ids):
    P = lambda n: cpos(ids[n])
    return "(c10_report %s %s %s %s %s %s %s)" % (
        clist(P(n) for n in rec["names"]),
        clist("(%s, %s)" % (P(a), P(b)) for a, b in rec["edges"]),
        clist(P(n) for n in rec["loops"]), P(rec["body"]), clist(P(n) for n in rec["ends"]),
        clist(P(n) for n in rec["pre"]), clist(P(n) for n in rec["post"]))


def coq_conflicts_expr(rec, ids, groups):
    P = lambda n: cpos(ids[n])
    return "(c10_conflicts_report %s %s %s)" % (
        clist("(%s, %s)" % (P(a), P(b)) for a, b in rec["edges"]), clist(P(n) for n in rec["post"]),
        clist("(%s, %s)" % (P(a), clist(P(b) for b in bs)) for a, bs in groups))


def coq_prune_expr(rec, ids):
    P = lambda n: cpos(ids[n])
    u = rec["unpruned"]
    return "(c10_prune_report %s %s %s %s %s)" % (
        clist("(%s, %s)" % (P(a), P(b)) for a, b in u["edges"]), clist(P(n) for n in u["order"]),
        clist(P(n) for n in u["passthrough"]),
        clist("(%s, %s)" % (P(a), P(b)) for a, b in rec["edges"]), clist(P(n) for n in rec["pre"]))


FLAGS = ["covers_pre", "topo_pre", "perm", "topo_post", "lifted_independent", "brackets", "balanced", "model_equal", "inversions_justified"]
VERDICT_FLAGS = ["perm", "topo_post", "lifted_independent", "brackets", "balanced"]


def parse_report(s):
    flags, bad_edge, bad_lift, depths = s.split(";")
    d = {k: (c == "T") for k, c in zip(FLAGS, flags)}
    d["bad_edge"] = bad_edge
    d["bad_lift"] = bad_lift
    d["depths"] = [int(x) for x in depths.split(",")] if depths else []
    return d


# Python mirror of the verdict, used only by replay() to say what is wrong without coqc
def py_verdict(rec):
    pos = {n: i for i, n in enumerate(rec["post"])}
    probs = []
    if sorted(rec["post"]) != sorted(rec["pre"]) or len(set(rec["post"])) != len(rec["post"]):
        probs.append("post-hoist list is not a permutation of the pre-hoist list")
    for a, b in rec["edges"]:
        if a not in pos or b not in pos or pos[a] >= pos[b]:
            probs.append("edge %s -> %s is not respected" % (a, b))
            break
    chain = rec["loops"] + [rec["body"]] + rec["ends"][::-1]
    if [n for n in rec["post"] if n in set(chain)] != chain:
        probs.append("loop openings/closings are not nested in loop order with the update innermost")
    return probs


# ----------------------------------------------------------------------------
# populations
# ----------------------------------------------------------------------------

def deep_specs(rng, n):
    """Richer flow graphs than the shared populations give: two dynamic levels between loops on tensors
    of three ranks (re-swizzles of >= 4 ranks inside loops), flattening over a partitioned rank with
    discordant rank orders (multi-rank getPayload), occupancy on two ranks at once.  Loop orders are
    random among those that keep the levels of one rank in order; the compiler rejects the rest."""
    import specgen
    out = []
    tries = 0
    while len(out) < n and tries < 20 * n:
        tries += 1
        batch = rng.random() < 0.5
        decl = {"A": ["K", "M"] + (["P"] if batch else []), "B": ["K", "N"] + (["P"] if batch else []),
                "Z": ["M", "N"] + (["P"] if batch else [])}
        idx = lambda t: ", ".join(r.lower() for r in decl[t])
        expr = "Z[%s] = A[%s] * B[%s]" % (idx("Z"), idx("A"), idx("B"))
        lead = rng.choice(["A", "B"])
        v = rng.choice(["two-level", "two-level", "two-ranks", "static-flatten", "dyn-flatten", "flatten3", "dyn-flatten3"])
        part = {}
        if v == "dyn-flatten3":
            # a dynamic split whose lower level is flattened with two more ranks, then split again
            decl = {"A": ["K", "M", "J"], "B": ["K", "J", "N"], "Z": ["M", "N"]}
            expr = "Z[m, n] = A[k, m, j] * B[k, j, n]"
            batch = False
            part["K"] = ["uniform_occupancy(A.%d)" % rng.choice([3, 4])]
            part["(M, K0, J)"] = ["flatten()"]
            part["MK0J"] = ["uniform_occupancy(A.%d)" % rng.choice([2, 5])]
            groups = [["K1", "MK0J1", "MK0J0"], ["N"]]
        elif v == "flatten3":
            # three ranks flattened; B holds only two of them: a two-rank getPayload(k, j)
            decl = {"A": ["K", "M", "J"], "B": ["K", "J", "N"], "Z": ["M", "N"]}
            expr = "Z[m, n] = A[k, m, j] * B[k, j, n]"
            batch = False
            part["(M, K, J)"] = ["flatten()"]
            part["MKJ"] = ["uniform_occupancy(A.%d)" % rng.choice([3, 5])]
            groups = [["MKJ1", "MKJ0"], ["N"]]
        elif v == "two-level":
            part["K"] = ["uniform_occupancy(%s.%d)" % (lead, rng.choice([4, 5, 6])), "uniform_occupancy(%s.%d)" % (lead, rng.choice([2, 3]))]
            groups = [["K2", "K1", "K0"], ["M"], ["N"]]
        elif v == "two-ranks":
            part["K"] = ["uniform_occupancy(A.%d)" % rng.choice([4, 6]), "uniform_occupancy(A.%d)" % rng.choice([2, 3])]
            part["N"] = ["uniform_occupancy(B.%d)" % rng.choice([3, 5])]
            groups = [["K2", "K1", "K0"], ["M"], ["N1", "N0"]]
        elif v == "static-flatten":
            part["K"] = ["uniform_shape(%d)" % rng.choice([2, 4])]
            part["(M, K0)"] = ["flatten()"]
            part["MK0"] = ["uniform_occupancy(A.%d)" % rng.choice([3, 5])]
            groups = [["K1", "MK01", "MK00"], ["N"]]
        else:
            part["M"] = ["uniform_shape(%d)" % rng.choice([3, 6])]
            part["K"] = ["uniform_occupancy(A.%d)" % rng.choice([3, 4])]
            part["(M0, K0)"] = ["flatten()"]
            part["M0K0"] = ["uniform_occupancy(A.%d)" % rng.choice([2, 5])]
            groups = [["M1", "K1", "M0K01", "M0K00"], ["N"]]
        if batch:
            groups.append(["P"])
        # random interleaving that keeps each group's internal order
        pools = [list(g) for g in groups]
        loop = []
        while any(pools):
            g = rng.choice([q for q in pools if q])
            loop.append(g.pop(0))
        mp = {"partitioning": {"Z": part}, "loop-order": {"Z": loop}}
        if rng.random() < 0.6:
            ro = {}
            for t in ("A", "B"):
                rs = list(decl[t])
                rng.shuffle(rs)
                ro[t] = rs
            mp["rank-order"] = ro
        y = specgen.yaml_of(decl, [expr], mp)
        try:
            runlib.Spec(y).compile()
        except Exception:   # noqa  (illegal combination: not part of the population)
            continue
        out.append({"yaml": y, "syms": {}, "kind": "deep:" + v, "mapping": mp})
    return out


def gather(ctx):
    rng = ctx.rng
    q = ctx.quick()
    pops = []
    pops += list(popgen.plain(rng, 14 if q else 80))
    pops += list(popgen.shape(rng, 22 if q else 110))
    pops += list(popgen.occupancy(rng, 50 if q else 200))
    pops += list(popgen.affine(rng, 18 if q else 100))
    pops += list(popgen.affine_rich(rng, 16 if q else 80))
    pops += list(popgen.affine_occ(rng, 6 if q else 30))
    pops += list(popgen.cascade(rng, 10 if q else 40))
    pops += deep_specs(rng, 24 if q else 90)
    base = list(popgen.shape(rng, 8 if q else 30)) + list(popgen.occupancy(rng, 22 if q else 90))
    pops += list(popgen.with_spacetime(rng, base))
    pops += popgen.accelerators()
    for _ in range(16 if q else 64):
        y, meta = specgen_metrics.gen(rng)
        pops.append({"yaml": y, "kind": "generated-metrics", "arch": True, "syms": {}, "meta": meta})
    pops += list(popgen.compute_only(rng, 4 if q else 16))
    # metrics mode over dynamically partitioned specifications (hoistable partitioning chains next to metrics headers)
    import specgen_hw
    for it in popgen.occupancy(rng, 24 if q else 100):
        w = specgen_hw.wrap_single(rng, it)
        if w is not None:
            w = dict(w, meta=w.get("meta", {}))
            pops.append(w)
    # metrics mode with non-empty loop headers / footers (eager buffets, evict-on ranks, several buffer levels)
    import specgen_c12
    for _ in range(24 if q else 100):
        y, meta = specgen_c12.gen(rng)
        pops.append({"yaml": y, "kind": "generated-c12", "arch": True, "syms": {}, "meta": meta})
    return pops


def tiebreaks(ctx, k):
    """The tie-breaks tried for one specification: networkx's own + k others."""
    tbs = [None, ("lazy", ctx.rng.randrange(1 << 30))]
    pool = [("random", ctx.rng.randrange(1 << 30)), ("lifo", 0), ("loopslast", ctx.rng.randrange(1 << 30)),
            ("random", ctx.rng.randrange(1 << 30)), ("fifo", 0), ("loopsfirst", ctx.rng.randrange(1 << 30)),
            ("lazy", ctx.rng.randrange(1 << 30))]
    ctx.rng.shuffle(pool)
    return tbs + pool[:max(0, k - 1)]


def tb_name(tb):
    return "networkx" if tb is None else "%s/%d" % tuple(tb)


# ----------------------------------------------------------------------------
# the checks
# ----------------------------------------------------------------------------

def structure_mismatch(real_flat, walk, depth_lists):
    """(B): compare the flattened real tree with the per-node statements placed at Gallina's depths.
    -> None or a description of the first difference."""
    exp = []
    for per, depths in zip(walk, depth_lists):
        if len(per) != len(depths):
            return "depth list length %d != node count %d" % (len(depths), len(per))
        for (name, loop_hdr, stmts, _), d in zip(per, depths):
            if loop_hdr is not None:
                exp.append((d, loop_hdr, name))
            for (rd, text) in stmts:
                exp.append((d + rd, text, name))
    for i in range(max(len(exp), len(real_flat))):
        if i >= len(exp):
            return "emitted program has an extra statement at nesting depth %d: %s" % (real_flat[i][0], real_flat[i][1][:120])
        if i >= len(real_flat):
            return "statement of node %s is missing from the emitted program: %s" % (exp[i][2], exp[i][1][:120])
        if (exp[i][0], exp[i][1]) != real_flat[i]:
            return "statement %d: the sorted list puts node %s at depth %d (%s) but the emitted tree has, at depth %d: %s" % (
                i, exp[i][2], exp[i][0], exp[i][1][:100], real_flat[i][0], real_flat[i][1][:100])
    return None


def _compile_item(job):
    """One specification under all its tie-breaks (runs in a forked worker; plain data out)."""
    yaml, arch, tbs, n_targeted, seed = job
    rows = []
    tbs = list(tbs)
    k = 0
    while k < len(tbs):
        tb = tbs[k]
        k += 1
        try:
            text, real_flat, records = compile_recorded(yaml, arch, tb)
        except Exception as e:   # noqa
            rows.append((tb, None, type(e).__name__ + ": " + str(e)[:80], None, None, None))
            continue
        try:
            walk = reference_walk(yaml, arch, tb)
        except Exception as e:   # noqa
            walk = "reference walk raised %s: %s" % (type(e).__name__, str(e)[:200])
        rows.append((tb, text, None, real_flat, records, walk))
        if tb is None and n_targeted and not isinstance(walk, str) and len(walk) == len(records):
            # every pair of statements that touch a common name and that the graph does not order
            # is a candidate missing dependence: flip it with a targeted tie-break
            cands = []
            for rec, per in zip(records, walk):
                groups = conflict_groups(per)
                if groups is None or [n for n, _, _, _ in per] != rec["post"]:
                    continue
                for a, b in split_conflicts(rec, groups)[1]:
                    kind = (a.split(",")[0], b.split(",")[0])
                    cands.append((kind, b))
            rng = random.Random("targeted-%d" % seed)
            rng.shuffle(cands)
            chosen, kinds = [], set()
            for kind, b in cands:          # one per kind of pair first, then whatever is left
                if kind not in kinds and b not in chosen:
                    kinds.add(kind)
                    chosen.append(b)
            for kind, b in cands:
                if b not in chosen:
                    chosen.append(b)
            tbs += [("front|" + b, 0) for b in chosen[:n_targeted]]
    return rows


def check_specs(ctx, items, tbs_of, tag, stats):
    """Compile every item under every tie-break; run (A) and (B). Returns the list of
    (item, [(tb, text or None, error or None)])."""
    import multiprocessing
    t0 = time.time()
    n_targeted = 2 if ctx.quick() else 4
    jobs = [(it["yaml"], it.get("arch", False), tbs_of(it), n_targeted, ctx.seed * 100003 + i) for i, it in enumerate(items)]
    nproc = max(1, min(8, vlib.NPROC // 2))
    if nproc > 1 and len(jobs) > 8:
        with multiprocessing.get_context("fork").Pool(nproc) as pool:
            all_rows = pool.map(_compile_item, jobs, chunksize=4)
    else:
        all_rows = [_compile_item(j) for j in jobs]
    stats["seconds_compile"] = round(time.time() - t0, 1)
    units = []      # (item index, tb, text, real_flat, records, walk)
    outcomes = []
    for idx, (it, rows) in enumerate(zip(items, all_rows)):
        row = []
        for tb, text, err, real_flat, records, walk in rows:
            row.append((tb, text, err))
            if text is not None:
                units.append((idx, tb, text, real_flat, records, walk))
        outcomes.append((it, row))
    t0 = time.time()
    # (A) kernel evaluation, de-duplicated on the term
    exprs, where = [], {}
    for u, (idx, tb, text, real_flat, records, walk) in enumerate(units):
        for j, rec in enumerate(records):
            ids = intern_record(rec)
            ex = coq_report_expr(rec, ids)
            if ex not in where:
                where[ex] = len(exprs)
                exprs.append(ex)
    pexprs, pwhere = [], {}
    for u, (idx, tb, text, real_flat, records, walk) in enumerate(units):
        if tb is not None:
            continue            # pruning precedes the sort: one tie-break is enough
        for j, rec in enumerate(records):
            if rec.get("unpruned"):
                ex = coq_prune_expr(rec, intern_record(rec))
                if ex not in pwhere:
                    pwhere[ex] = len(exprs) + len(pexprs)
                    pexprs.append(ex)
    cexprs, cwhere = [], {}
    for u, (idx, tb, text, real_flat, records, walk) in enumerate(units):
        if isinstance(walk, str) or [[n for n, _, _, _ in per] for per in walk] != [rec["post"] for rec in records]:
            continue
        for j, (rec, per) in enumerate(zip(records, walk)):
            groups = conflict_groups(per)
            if groups is None:
                stats["conflicts_unparsable"] += 1
                continue
            groups, unordered = split_conflicts(rec, groups)
            stats["conflict_pairs_not_ordered_by_graph"] += len(unordered)
            ex = coq_conflicts_expr(rec, intern_record(rec), groups)
            if ex not in cwhere:
                cwhere[ex] = len(exprs) + len(pexprs) + len(cexprs)
                cexprs.append(ex)
            stats["conflict_pairs_ordered_by_graph"] += sum(len(bs) for _, bs in groups)
    res = vlib.coq_eval_lines(tag, COQ_IMPORTS, "", exprs + pexprs + cexprs, shard=60)
    stats["conflict_checks_evaluated"] += len(cexprs)
    stats["graphs_evaluated"] += len(exprs)
    stats["prune_checks_evaluated"] += len(pexprs)
    stats["seconds_kernel_graphs"] = round(time.time() - t0, 1)
    default_pre = {}
    for u, (idx, tb, text, real_flat, records, walk) in enumerate(units):
        if tb is None:
            default_pre[idx] = [rec["pre"] for rec in records]
    for u, (idx, tb, text, real_flat, records, walk) in enumerate(units):
        it = items[idx]
        depth_lists = []
        if tb is not None and idx in default_pre:
            stats["tiebreak_compiles"] += 1
            stats["tiebreak_compiles_changing_the_sorted_list"] += 1 if [rec["pre"] for rec in records] != default_pre[idx] else 0
        for j, rec in enumerate(records):
            ids = intern_record(rec)
            rep = parse_report(res[where[coq_report_expr(rec, ids)]])
            depth_lists.append(rep["depths"])
            stats["einsum_graphs"] += 1
            stats["nodes_max"] = max(stats["nodes_max"], len(rec["names"]))
            stats["edges_max"] = max(stats["edges_max"], len(rec["edges"]))
            moved = rec["pre"] != rec["post"]
            stats["graphs_where_hoist_moved_something"] += 1 if moved else 0
            stats["by_tiebreak"][tb_name(tb).split("/")[0].split("|")[0]] += 1
            stats["model_equal"] += 1 if rep["model_equal"] else 0
            stats["inversions_justified"] += 1 if rep["inversions_justified"] else 0
            if any(re.match(r"\(FromFiberNode", n) for n in rec["names"]):
                stats["graphs_with_dynamic_partition"] += 1
            base = {"yaml": it["yaml"], "arch": bool(it.get("arch")), "tiebreak": list(tb) if tb else None, "einsum_index": j,
                    "kind_of_spec": it["kind"]}
            inv = {v: k for k, v in ids.items()}

            def nm(s):
                return " -> ".join(inv.get(int(x), x) for x in s.split(">")) if s != "-" else "-"
            if tb is None and rec.get("unpruned"):
                u_ = rec["unpruned"]
                pr = res[pwhere[coq_prune_expr(rec, ids)]]
                kept = [n for n in u_["order"] if n not in set(u_["passthrough"])]
                stats["prune_model_equal"] += 1 if pr[2] == "T" else 0
                stats["passthrough_nodes_max"] = max(stats["passthrough_nodes_max"], len(u_["passthrough"]))
                if sorted(kept) != sorted(rec["names"]):
                    lost = sorted(set(kept) - set(rec["names"]))
                    ctx.violation({"kind": "prune-drops-statement"}, "pruning removed or invented statement nodes: lost %s, new %s" % (
                        lost[:4], sorted(set(rec["names"]) - set(kept))[:4]), dict(base, mode="prune"))
                elif pr[0] != "T":
                    ctx.violation({"kind": "graph-cyclic"}, "the flow graph before pruning has no topological order (cycle)", dict(base, mode="prune"), no_input=True)
                elif pr[1] != "T":
                    ctx.violation({"kind": "prune-changes-dependences"},
                                  "FlowGraph.__prune does not preserve the dependences among the statements that stay (a path through fiber/rank/tensor nodes "
                                  "was not replaced by an edge, or an edge was invented) [Einsum %d, %s]" % (j, it["kind"]), dict(base, mode="prune"))
            elif tb is None:
                stats["prune_not_observable"] += 1
            if not rec["same_graph"]:
                ctx.violation({"kind": "graph-not-repeatable"}, "FlowGraph built twice on the same Program gives two different graphs", base, no_input=True)
                continue
            if not (rep["covers_pre"] and rep["topo_pre"]):
                # the hypothesis of the theorems: what the sort returned is a topological order of the graph
                ctx.violation({"kind": "sort-not-topological", "tiebreak_is_networkx": tb is None},
                              "the pre-hoist list is not a topological order of the flow graph (tie-break %s)" % tb_name(tb),
                              dict(base, pre=rec["pre"], edges=rec["edges"]), no_input=(tb is not None))
                continue
            bad = [f for f in VERDICT_FLAGS if not rep[f]]
            if bad:
                what = []
                if not rep["perm"]:
                    what.append("the hoisted list is not a permutation of the sorted list")
                if not rep["topo_post"]:
                    what.append("statement order violates the dependence %s" % nm(rep["bad_edge"]))
                if not rep["lifted_independent"]:
                    what.append("a statement was lifted above a loop it depends on: %s" % nm(rep["bad_lift"]))
                if not rep["brackets"] or not rep["balanced"]:
                    what.append("loop openings/closings are not properly nested in loop order %s with the update innermost" % rec["ranks"])
                ctx.violation({"kind": "order-violates-dependence", "clauses": sorted(bad)},
                              "%s [tie-break %s, Einsum %d, %s]" % ("; ".join(what), tb_name(tb), j, it["kind"]),
                              dict(base, pre=rec["pre"], post=rec["post"], edges=rec["edges"], flags=rep))
        # (B) the tree that was built
        if isinstance(walk, str):
            ctx.violation({"kind": "reference-walk-failed"}, walk, {"yaml": it["yaml"], "arch": bool(it.get("arch")), "tiebreak": list(tb) if tb else None}, no_input=True)
            continue
        stats["trees_compared"] += 1
        walked_nodes = [[n for n, _, _, _ in per] for per in walk]
        if walked_nodes != [rec["post"] for rec in records]:
            ctx.violation({"kind": "sorted-list-not-repeatable"}, "two constructions of FlowGraph(..., ['hoist']) on equal inputs return different lists",
                          {"yaml": it["yaml"], "arch": bool(it.get("arch")), "tiebreak": list(tb) if tb else None}, no_input=True)
            continue
        for j, (rec, per) in enumerate(zip(records, walk)):
            groups = conflict_groups(per)
            if groups is None:
                continue
            groups = split_conflicts(rec, groups)[0]
            ids = intern_record(rec)
            cr = res[cwhere[coq_conflicts_expr(rec, ids, groups)]]
            flags_, badc = cr.split(";")
            if flags_[0] == "T" and flags_[1] != "T":
                # networkx says ordered, the verified descb says not: the harness is wrong somewhere
                ctx.violation({"kind": "harness-reachability-disagrees"}, "networkx and the kernel disagree on reachability: %s" % badc,
                              {"yaml": it["yaml"]}, no_input=True)
            if False:
                inv = {v: k for k, v in ids.items()}
                a, b = [inv[int(x)] for x in badc.split(">")]
                info = {n: du for n, _, _, du in per}
                common = sorted((set(info[a][0]) & (set(info[b][0]) | set(info[b][1]))) | (set(info[a][1]) & set(info[b][0])))
                key = {"kind": "dependence-missing-from-graph", "earlier": a.split(",")[0].strip("("), "later": b.split(",")[0].strip("(")}
                ctx.violation(key, "statements of %s and %s both touch %s (one of them writes) but the flow graph does not order them: "
                              "another topological tie-break may emit them the other way round [tie-break %s, Einsum %d, %s]" % (a, b, common[:4], tb_name(tb), j, it["kind"]),
                              {"yaml": it["yaml"], "arch": bool(it.get("arch")), "tiebreak": list(tb) if tb else None, "einsum_index": j, "mode": "conflict",
                               "earlier": a, "later": b, "names": common})
        mm = structure_mismatch(real_flat, walk, depth_lists)
        stats["statements_compared"] += len(real_flat)
        if mm is not None:
            ctx.violation({"kind": "tree-differs-from-sorted-list"},
                          "the emitted statement tree is not the bracket structure of the sorted list: %s [tie-break %s, %s]" % (mm, tb_name(tb), it["kind"]),
                          {"yaml": it["yaml"], "arch": bool(it.get("arch")), "tiebreak": list(tb) if tb else None, "mismatch": mm, "text": text})
    return outcomes


def _first_top_level(text, needle):
    for i, ln in enumerate(text.split("\n")):
        if needle in ln and not ln.startswith(" "):
            return i
    return None


def graphics_flags(default_text, variant_text):
    """Structural description of how two tie-break variants differ around the canvas, computed from
    the emitted texts alone: True when both create a canvas but on different versions of the tensors
    (the createCanvas(...) argument lists differ), i.e. the Graphics node was translated at another
    point of the partitioning sequence."""
    def canvas_line(text):
        i = _first_top_level(text, "createCanvas(")
        return None if i is None else text.split("\n")[i].strip()
    a, b = canvas_line(default_text), canvas_line(variant_text)
    flags = {"canvas_arguments_differ": a is not None and b is not None and a != b}
    flags.update(input_rebound_flags(default_text, variant_text))
    return flags


def input_rebound_flags(default_text, variant_text):
    """True when exactly one of the two variants ASSIGNS, at top level, a name that the other variant only reads and that
    is read before any assignment there (a user-supplied tensor name such as A_JNKL): some order of the statements rebinds
    the user's input variable (seen with two static flatten() directives on one input: the second partitioning swizzle is
    emitted under the declared name while the tensor is still called <name>_flat)."""
    import ast

    def first_uses(text):
        reads_first, assigned = set(), set()
        try:
            tree = ast.parse(text)
        except SyntaxError:
            return reads_first, assigned
        for node in tree.body:
            names_r = [n.id for n in ast.walk(node) if isinstance(n, ast.Name) and isinstance(n.ctx, ast.Load)]
            names_w = [n.id for n in ast.walk(node) if isinstance(n, ast.Name) and isinstance(n.ctx, ast.Store)]
            for n in names_r:
                if n not in assigned:
                    reads_first.add(n)
            assigned.update(names_w)
        return reads_first, assigned
    rd, ad = first_uses(default_text)
    rv, av = first_uses(variant_text)
    inputs_d = set(n for n in rd if runlib.NAME_RE.match(n))
    inputs_v = set(n for n in rv if runlib.NAME_RE.match(n))
    rebound = (inputs_d & av) - ad | (inputs_v & ad) - av
    return {"user_input_name_rebound_in_one_variant": bool(rebound)}


def behaviour_checks(ctx, outcomes, tag, stats):
    """(C): outcomes must not depend on the tie-break."""
    rng = ctx.rng
    cases, da_items = [], []
    for sidx, (it, row) in enumerate(outcomes):
        errs = [e for _, t, e in row if t is None]
        oks = [(tb, t) for tb, t, e in row if t is not None]
        if errs and not oks:
            stats["rejected"] += 1
            continue
        if errs:
            tb_bad = [tb for tb, t, e in row if t is None][0]
            ctx.violation({"kind": "tiebreak-dependent-crash", "default_compiles": row[0][1] is not None},
                          "the specification compiles under some topological tie-breaks and crashes under others (%s: %s)" % (tb_name(tb_bad), errs[0]),
                          {"yaml": it["yaml"], "arch": bool(it.get("arch")), "tiebreak": list(tb_bad) if tb_bad else None, "mode": "crash",
                           "outcomes": [(tb_name(tb), e or "ok") for tb, t, e in row]})
            continue
        stats["specs"] += 1
        stats["by_kind"][it["kind"].split(":")[0]] += 1
        texts = []
        pref = [x for x in oks if x[0] is None] + [x for x in oks if x[0] is not None and x[0][0].startswith("front|")] + \
               [x for x in oks if x[0] is not None and not x[0][0].startswith("front|")]
        for tb, t in pref:
            if t not in [x for _, x in texts]:
                texts.append((tb, t))
        stats["targeted_flips_changing_the_text"] += sum(1 for tb, _ in texts if tb is not None and tb[0].startswith("front|"))
        texts = texts[:MAX_EXECUTED_VARIANTS if ctx.quick() else MAX_EXECUTED_VARIANTS + 2]
        stats["distinct_texts"] += len(texts)
        stats["specs_with_variants"] += 1 if len(texts) > 1 else 0
        stats["max_variants"] = max(stats["max_variants"], len(texts))
        spec = runlib.Spec(it["yaml"])
        syms = dict(it.get("syms") or {})
        for k in partition_info(spec)[0]:
            syms.setdefault(k, rng.randint(1, 4))
        ext = runlib.default_extents(spec, rng, 1, 5)
        data, scal = runlib.gen_inputs(spec, ext, rng, density=rng.choice([1.0, 0.6]))
        for j, (tb, t) in enumerate(texts):
            meta = {"kind": it["kind"], "variant": j, "nvariants": len(texts), "spec_index": sidx, "tiebreak": list(tb) if tb else None, "arch": bool(it.get("arch"))}
            cases.append(execlib.Case(spec, t, ext, data, scal, extra_ints=syms, meta=meta))
            da_items.append((it["kind"], spec, syms, t, meta))
    t0 = time.time()
    execlib.evaluate(cases, tag)
    stats["seconds_kernel_executions"] = round(time.time() - t0, 1)
    t0 = time.time()
    da = c06.analyse(ctx, da_items, tag + "da")
    stats["seconds_kernel_da"] = round(time.time() - t0, 1)
    by_spec = collections.defaultdict(list)
    for c, ((label, spec, syms, text, meta), r) in zip(cases, da):
        raw = getattr(c, "raw", None) or str(c.result)
        if isinstance(c.result, dict) and c.result.get("unbound"):
            # an unbound-name error is identified by the NAME (interned numbers differ between texts)
            raw = "ERR unbound:" + c.result["unbound"]
        by_spec[c.meta["spec_index"]].append((c, raw, r))
    for sidx, rows in by_spec.items():
        stats["executions"] += len(rows)
        c0, raw0, da0 = rows[0]
        if all(raw == raw0 and d == da0 for _, raw, d in rows):
            ok = raw0.startswith("RAN;OK;OK") and da0 == "OK"
            stats["specs_all_orders_agree_and_correct" if ok else "specs_all_orders_agree_but_default_order_fails_too"] += 1
            continue
        c, raw, d = [x for x in rows if x[1] != raw0 or x[2] != da0][0]
        rep = c.replay()
        rep.update({"arch": c.meta["arch"], "tiebreak": c.meta["tiebreak"], "mode": "behaviour", "default_result": raw0, "default_da": da0,
                    "variant_result": raw, "variant_da": d, "default_text": c0.text})
        key = {"kind": "tiebreak-dependent-behaviour"}
        key.update(graphics_flags(c0.text, c.text))
        ctx.violation(key,
                      "the emitted program depends on the topological tie-break: under networkx's order it gives (%s, closedness %s), under %s (%s, closedness %s) "
                      "- a dependence is missing from the flow graph" % (raw0[:80], da0, tb_name(tuple(c.meta["tiebreak"]) if c.meta["tiebreak"] else None), raw[:80], d), rep)


def run(ctx):
    stats = collections.defaultdict(int)
    stats["by_tiebreak"] = collections.defaultdict(int)
    stats["by_kind"] = collections.defaultdict(int)
    items = gather(ctx)
    k = 2 if ctx.quick() else 3
    tbs = {id(it): tiebreaks(ctx, k) for it in items}
    outcomes = check_specs(ctx, items, lambda it: tbs[id(it)], "c10", stats)
    behaviour_checks(ctx, outcomes, "c10x", stats)
    sample = None
    for it, row in outcomes:
        if it["kind"] == "occupancy" and row and row[1][1]:
            sample = {"kind": it["kind"], "yaml": it["yaml"], "tiebreak": tb_name(row[1][0]), "text": row[1][1][:1200]}
            break
    if stats.get("tiebreak_compiles") and not stats.get("tiebreak_compiles_changing_the_sorted_list"):
        ctx.notes.append("the substituted tie-breaks never changed the sorted list: FlowGraph.__sort no longer goes through nx.topological_sort; "
                         "only the code's own order was examined in this run")
    if stats.get("prune_not_observable"):
        ctx.notes.append("FlowGraph._FlowGraph__prune not found: the pruning check (P) was skipped")
    stats = {k2: (dict(v) if isinstance(v, dict) else v) for k2, v in stats.items()}
    ctx.coverage.update({
        "programs": stats.get("specs", 0), "cases": stats.get("einsum_graphs", 0),
        "disagreements_checked": len(ctx.violations), "evaluations": stats.get("graphs_evaluated", 0) + stats.get("executions", 0) * 2,
        "distinct_nontrivial": stats.get("graphs_where_hoist_moved_something", 0),
        "population": stats,
        "rule": "plain, shape-partitioned, occupancy-partitioned (+flatten), affine (eager intervals), cascade and spacetime specifications, the five accelerator YAMLs, "
                "generated architectures and compute-only cascades; every specification compiled under networkx's tie-break, one 'lazy' tie-break (every statement as late as "
                "possible, so that the hoist pass has work), %d more (seeded random Kahn, LIFO, FIFO, loops-first, loops-last) and up to %d targeted flips of statement pairs "
                "that share a name but are not ordered by the graph; per Einsum and tie-break one kernel evaluation of the checkers on (graph, pre-hoist list, post-hoist list); "
                "pruning checked once per Einsum; non-trivial = the hoist pass moved at least one statement; up to %d distinct texts per specification run through da and executed"
                % (k - 1, 2 if ctx.quick() else 4, MAX_EXECUTED_VARIANTS),
        "samples": [sample] if sample else [],
        "trusted_base": ["Coq 8.16.1 kernel + VM (vm_compute)", "tools/props/c10.py: interning of repr(node), reading of loop order from Program.get_loop_order(), "
                         "the instrumented replica of HiFiber.__translate (its output is compared with the real tree on every run)",
                         "the tie-break generator (each produced order is itself checked by topo_okb)",
                         "observation of the unpruned graph through a subclass overriding the name-mangled FlowGraph.__prune (skipped, and said so, if that name disappears)",
                         "extraction of written/read names per node with CPython ast (used to choose targeted tie-breaks; the verdict is behavioural)",
                         "for (C): Model/Rt.v + Model/Interp.v, tools/py2coq.py, Model/Closed.v da"],
    })
    ctx.assumptions += [
        "the dependence relation of the theorems is the edge set of the code's own flow graph; that the graph holds every true dependence is validated (C) by behaviour under "
        "sampled tie-breaks (closedness + execution), not proved",
        "tie-breaks are sampled (networkx's own + seeded Kahn variants), the theorems hold for all of them; the pre-hoist list is re-validated by topo_okb on every run"]


def replay(ctx, rep):
    r = rep["replay"]
    tb = tuple(r["tiebreak"]) if r.get("tiebreak") else None
    arch = bool(r.get("arch"))
    mode = r.get("mode", "structure")
    try:
        text, real_flat, records = compile_recorded(r["yaml"], arch, tb)
    except Exception as e:   # noqa
        print("compilation under tie-break %s raises %s: %s" % (tb_name(tb), type(e).__name__, e))
        if mode == "crash":
            print("VIOLATION property=C10 replay=<given file>")
            return 1
        return 0
    bad = []
    for j, rec in enumerate(records):
        for p in py_verdict(rec):
            bad.append("Einsum %d: %s" % (j, p))
    exprs = [coq_report_expr(rec, intern_record(rec)) for rec in records]
    pexprs = [coq_prune_expr(rec, intern_record(rec)) for rec in records if rec.get("unpruned")]
    out = vlib.coq_eval_lines("c10r", COQ_IMPORTS, "", exprs + pexprs)
    reps = [parse_report(x) for x in out[:len(exprs)]]
    for j, rp in enumerate(reps):
        fl = [f for f in VERDICT_FLAGS + ["covers_pre", "topo_pre"] if not rp[f]]
        if fl:
            bad.append("Einsum %d: kernel checkers reject: %s (bad edge %s, bad lift %s)" % (j, fl, rp["bad_edge"], rp["bad_lift"]))
    k = 0
    for j, rec in enumerate(records):
        if not rec.get("unpruned"):
            continue
        pr = out[len(exprs) + k]
        k += 1
        u_ = rec["unpruned"]
        kept = [n for n in u_["order"] if n not in set(u_["passthrough"])]
        if sorted(kept) != sorted(rec["names"]):
            bad.append("Einsum %d: pruning removed or invented statement nodes" % j)
        elif pr[0] == "T" and pr[1] != "T":
            bad.append("Einsum %d: FlowGraph.__prune does not preserve the dependences among the statements that stay" % j)
    try:
        walk = reference_walk(r["yaml"], arch, tb)
        mm = structure_mismatch(real_flat, walk, [rp["depths"] for rp in reps])
        if mm:
            bad.append(mm)
    except Exception as e:   # noqa
        bad.append("reference walk raised %s" % e)
    if mode == "behaviour":
        spec = runlib.Spec(r["yaml"])
        data = {t: {tuple(int(x) for x in k_.split(",") if x != ""): v for k_, v in d.items()} for t, d in r["inputs"].items()}
        with patched(None):
            t0 = spec.compile(arch=arch)
        cs = [execlib.Case(spec, t, r["extents"], data, r["scalars"], extra_ints=r.get("extra_ints")) for t in (t0, text)]
        execlib.evaluate(cs, "c10rx")
        das = [x[1] for x in c06.analyse(ctx, [("r", spec, r.get("extra_ints") or {}, t, {}) for t in (t0, text)], "c10rd")]
        print("networkx order:", cs[0].raw, das[0])
        print("tie-break %s:" % tb_name(tb), cs[1].raw, das[1])
        if cs[0].raw != cs[1].raw or das[0] != das[1]:
            if ctx.match_known(dict({"kind": "tiebreak-dependent-behaviour"}, **graphics_flags(t0, text))):
                print("(matches a known finding)")
            bad.append("behaviour depends on the tie-break")
    print(text)
    for b in bad:
        print("  ", b)
    if bad:
        print("VIOLATION property=C10 replay=<given file>")
        return 1
    return 0
