"""C15 - compilation does not mutate its inputs and is repeatable.

Ties (correspondence-heavy, honest label: partial):
 (1) deep snapshots of the five parsed objects (Einsum, Mapping, Architecture, Bindings, Format)
     before and after HiFiber(...) must be equal;
 (2) a second HiFiber on the same objects must succeed and return the same text;
 (3) the text for a specification must not depend on which other specifications were compiled
     before it in the same interpreter: two fresh worker processes (same hash seed) compile the
     pool in different orders, texts are compared per specification;
 (4) T-eq of Model/BindStore.v component_view against the real BuffetComponent
     (__init__ defaults + expand_eager) on generated binding lists."""
import json
import os
import subprocess
import sys
import tempfile

import vlib
from vlib import cstr, clist
import runlib
import popgen
import specgen_metrics
import specgen_families
import specgen_mixed

LEVEL = "translation_validation"


def snap(o, depth=0):
    from lark.tree import Tree
    from lark.lexer import Token
    if depth > 60:
        return "..."
    if isinstance(o, Token):
        return ("Token", o.type, str(o))
    if isinstance(o, Tree):
        return ("Tree", str(o.data), tuple(snap(c, depth + 1) for c in o.children))
    if isinstance(o, dict):
        return ("dict", tuple(sorted(((snap(k, depth + 1), snap(v, depth + 1)) for k, v in o.items()), key=repr)))
    if isinstance(o, (list, tuple)):
        return (type(o).__name__, tuple(snap(x, depth + 1) for x in o))
    if isinstance(o, (set, frozenset)):
        return ("set", tuple(sorted((snap(x, depth + 1) for x in o), key=repr)))
    if isinstance(o, (str, int, float, bool)) or o is None:
        return o
    return (type(o).__name__, snap(vars(o), depth + 1))


def first_diff(a, b, path="root"):
    if type(a) != type(b):
        return path
    if isinstance(a, tuple):
        if len(a) != len(b):
            return path + " (length %d -> %d)" % (len(a), len(b))
        for i, (x, y) in enumerate(zip(a, b)):
            if x != y:
                return first_diff(x, y, path + "/%d" % i)
        return None
    return None if a == b else "%s (%r -> %r)" % (path, a, b)


def order_workers(items, orders, fresh=()):
    """one worker process per order; the specifications listed in `fresh` are in addition compiled ALONE (each in a child forked from an
    interpreter that never compiled anything; tools/freshworker.py, three such workers) -> (results per order, {index: result alone})"""
    d = tempfile.mkdtemp(prefix="c15_", dir=vlib.GENDIR)
    procs = []
    fresh = list(fresh)
    chunks = [c for c in (fresh[0::3], fresh[1::3], fresh[2::3]) if c]
    jobs = [(o, "seedworker.py") for o in orders] + [(c, "freshworker.py") for c in chunks]
    for k, (order, script) in enumerate(jobs):
        inp = os.path.join(d, "in_%d.json" % k)
        out = os.path.join(d, "out_%d.json" % k)
        json.dump([{"yaml": items[i]["yaml"], "arch": items[i].get("arch", False)} for i in order], open(inp, "w"))
        env = dict(os.environ)
        env["PYTHONHASHSEED"] = "0"
        procs.append((order, out, subprocess.Popen([sys.executable, os.path.join(vlib.VERIF, "tools", script), inp, out], env=env,
                                                   stdout=subprocess.PIPE, stderr=subprocess.STDOUT)))
    res = []
    for order, out, p in procs:
        log = p.communicate()[0]
        if p.returncode != 0:
            raise RuntimeError("worker failed: %s" % log[-500:])
        r = json.load(open(out))
        res.append({i: r[j] for j, i in enumerate(order)})
    import shutil
    shutil.rmtree(d, ignore_errors=True)
    alone = {}
    for r in res[len(orders):]:
        alone.update(r)
    return res[:len(orders)], alone


def buffet_teq(ctx, n):
    from teaal.ir.component import BuffetComponent
    rng = ctx.rng
    exprs, expect, samples = [], [], []
    for _ in range(n):
        ranks = rng.sample(["M", "N", "K", "J"], rng.randint(1, 3))
        types = [rng.choice([["coord", "payload"], ["payload"], ["coord"], ["elem"]]) for _ in ranks]
        bs = []
        for _ in range(rng.randint(1, 3)):
            b = {"tensor": "Z", "rank": rng.choice(ranks), "type": rng.choice(["coord", "payload", "elem"]),
                 "format": rng.choice(["default", "default", "other"]), "evict-on": rng.choice(["root", "M", "K"])}
            st = rng.choice([None, "lazy", "eager", "eager"])
            if st:
                b["style"] = st
            bs.append(b)
        import copy
        comp = BuffetComponent("RegFile", 1, {"width": 64, "depth": 128}, {"E": copy.deepcopy(bs)})
        comp.expand_eager("E", "Z", "default", list(ranks), [list(t) for t in types])
        got = ";".join(",".join("%s=%s" % (k, v) for k, v in b.items()) for b in comp.get_bindings()["E"])
        coq_bs = clist(clist("(%s, %s)" % (cstr(k), cstr(str(v))) for k, v in b.items()) for b in bs)
        exprs.append("(show_view (component_view %s %s %s %s))" % (cstr("default"), clist(map(cstr, ranks)), clist(clist(map(cstr, t)) for t in types), coq_bs))
        expect.append(got)
        if len(samples) < 2 and any(b.get("style") == "eager" for b in bs):
            samples.append({"ranks": ranks, "types": types, "bindings": bs, "view": got})
    res = vlib.coq_eval_lines("c15b", ["TV.Model.BindStore"], "", exprs)
    bad = [(e, g, r) for e, g, r in zip(exprs, expect, res) if g != r]
    return len(exprs), bad, samples


def run(ctx):
    rng = ctx.rng
    q = ctx.quick()
    os.makedirs(vlib.GENDIR, exist_ok=True)
    from teaal.parse import Einsum, Mapping, Architecture, Bindings, Format
    from teaal.trans.hifiber import HiFiber
    items = popgen.accelerators()
    for _ in range(40 if q else 300):
        y, meta = specgen_metrics.gen(rng)
        items.append({"yaml": y, "kind": "generated-metrics", "arch": True})
    items += list(popgen.compute_only(rng, 10 if q else 60))
    items += list(popgen.shape(rng, 15 if q else 100)) + list(popgen.occupancy(rng, 20 if q else 150)) + list(popgen.cascade(rng, 10 if q else 60))
    # families: one Einsum / one set of names under mappings that give the same derived rank names different ancestry (tools/specgen_families.py)
    nfam = 0
    for _ in range(12 if q else 100):
        fam = specgen_families.gen_family(rng)
        nfam += 1
        items += fam
    # cascades with index arithmetic over a shared pool of rank names
    items += [{"yaml": specgen_mixed.gen_mixed_cascade(rng)["yaml"], "kind": "mixed-cascade"} for _ in range(12 if q else 100)]
    bad = 0
    stats = {"specs": 0, "with_arch": 0, "rejected": 0, "families": nfam, "by_kind": {}}
    good = []
    main_outcome = {}
    for idx, it in enumerate(items):
        y = it["yaml"]
        arch = it.get("arch", False)
        objs = [Einsum.from_str(y), Mapping.from_str(y)] + ([Architecture.from_str(y), Bindings.from_str(y), Format.from_str(y)] if arch else [])
        before = [snap(o) for o in objs]
        try:
            t1 = str(HiFiber(*objs))
        except Exception as e:
            stats["rejected"] += 1
            main_outcome[idx] = type(e).__name__ + ": " + str(e)[:100]
            continue
        main_outcome[idx] = t1
        stats["specs"] += 1
        stats["with_arch"] += 1 if arch else 0
        kd = it.get("kind", "?").split(":")[0]
        stats["by_kind"][kd] = stats["by_kind"].get(kd, 0) + 1
        good.append(it)
        after = [snap(o) for o in objs]
        names = ["Einsum", "Mapping", "Architecture", "Bindings", "Format"]
        for nm, b, a in zip(names, before, after):
            if a != b:
                bad += 1
                ctx.violation({"kind": "input-mutated", "object": nm}, "HiFiber(...) changed the parsed %s object at %s" % (nm, first_diff(b, a)),
                              {"yaml": y, "object": nm, "where": first_diff(b, a)})
        try:
            t2 = str(HiFiber(*objs))
            if t2 != t1:
                bad += 1
                ctx.violation({"kind": "recompile-differs"}, "compiling again from the same parsed objects gives a different program", {"yaml": y})
        except Exception as e:
            bad += 1
            ctx.violation({"kind": "recompile-fails"}, "compiling again from the same parsed objects raises %s: %s" % (type(e).__name__, str(e)[:200]), {"yaml": y})
    # (3) order of compilation: every generated specification (also those the main process rejected: a rejection may itself be the
    # effect of an earlier compilation) in three orders, each against the specification compiled alone
    n = len(items)
    o1 = list(range(n))
    o2 = list(range(n))
    rng.shuffle(o2)
    o3 = list(reversed(o1))
    # the empty history is the reference where affordable (a fork per specification costs 0.2-2 s): every specification in the thorough tier; in
    # the quick tier the accelerators, three members of every family and six mixed cascades; elsewhere the first order is the reference
    if q:
        fresh, per_family = [], {}
        for i, it in enumerate(items):
            kd = it.get("kind", "")
            if kd.startswith("accelerator"):
                fresh.append(i)
            elif kd == "family":
                per_family.setdefault(it["family"], []).append(i)
        for fam, idxs in per_family.items():
            fresh += rng.sample(idxs, min(3, len(idxs)))
        fresh += [i for i, it in enumerate(items) if it.get("kind") == "mixed-cascade"][:6]
        fresh.sort()
    else:
        fresh = list(range(len(items)))
    res, alone = order_workers(items, [o1, o2, o3], fresh=fresh)
    stats["compiled_alone"] = len(alone)
    for i in range(n):
        outs = [("order %d (position %d)" % (k + 1, o.index(i)), r[i].get("text", r[i].get("error"))) for k, (o, r) in enumerate(zip([o1, o2, o3], res))]
        if i in main_outcome:
            outs.append(("checking process (position %d)" % i, main_outcome[i]))
        ref = alone[i].get("text", alone[i].get("error")) if i in alone else outs[0][1]
        diff = [(w, t) for w, t in outs if t != ref]
        if diff:
            bad += 1
            w, t = diff[0]
            la, lb = (ref or "").split("\n"), (t or "").split("\n")
            fd = next(((x.strip(), y.strip()) for x, y in zip(la, lb) if x != y), (str(len(la)) + " lines", str(len(lb)) + " lines"))
            ctx.violation({"kind": "order-dependent-text"}, "the text emitted for a specification depends on which specifications were compiled before it in the same process: "
                          "%s `%s` but in %s `%s`" % ("alone" if i in alone else "in order 1", fd[0][:160], w, fd[1][:160]),
                          {"yaml": items[i]["yaml"], "differs_in": [w for w, _ in diff], "alone": ref, "in_sequence": t})
    nb, bbad, bsamples = buffet_teq(ctx, 300 if q else 3000)
    for e, g, r in bbad[:5]:
        bad += 1
        ctx.violation({"kind": "buffet-view-correspondence"}, "BuffetComponent and Model/BindStore.v disagree: code [%s] model [%s]" % (g, r),
                      {"case": e, "code": g, "model": r, "correspondence": "T-eq Model/BindStore.v component_view vs teaal.ir.component.BuffetComponent"}, no_input=True)
    ctx.coverage.update({
        "programs": stats["specs"], "disagreements_checked": bad, "evaluations": stats["specs"] * 3 + nb, "distinct_nontrivial": stats["specs"],
        "population": stats, "buffet_views_compared": nb, "compilation_orders": 3,
        "rule": "five accelerator YAMLs + generated metrics specifications + compute-only cascades + plain partitioned/cascade specifications + families of 4-7 specifications sharing all names "
                "whose mappings give the same derived rank names different ancestry (flatten-then-split vs split-then-flatten, 1-3 shape levels, occupancy levels, coord-style spacetimes) + mixed cascades with index arithmetic; per specification: snapshot equality of every parsed "
                "object around HiFiber, recompilation from the same objects, three compilation orders in fresh processes; 300/3000 generated buffet binding lists against the model",
        "samples": bsamples or [{"spec": good[0]["kind"]}],
        "trusted_base": ["Coq 8.16.1 kernel + VM", "tools/props/c15.py snap() (observable state = vars() of the parsed objects, recursively)", "Model/BindStore.v tied by T-eq"],
    })
    ctx.assumptions += ["'observably equal' is read as equality of the recursive vars() snapshot of the parsed objects"]


def replay(ctx, rep):
    print(json.dumps(rep["replay"], indent=1)[:3000])
    return 0
