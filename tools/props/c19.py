"""C19 - an omitted mapping means the canonical default.

Theorems (coq/Props/C19.v, model coq/Model/Defaults.v): the operational model of what teaal does for an omitted
loop order (Equation.__build_einsum_ranks + Partitioning.partition_ranks with all levels, for EVERY iteration
order of the set of partitioned ranks) equals the canonical order read off the property statement on the class
`plain_first`, is a permutation of it beginning with the output ranks otherwise, and is refuted outside the class
(finding F9); declared rank order / empty partitioning by induction over the sections.

Tie, re-established on every run against TEAAL_REPO's working tree:
 (1) the explicitly written default is computed INSIDE coqc from the specification alone (`canonical_order`,
     `declared_rank_orders`) - never by the compiler - written into the mapping, and the text of HiFiber(explicit)
     must equal the text of HiFiber(omitted): per Einsum loop order, all loop orders, all / a subset of rank
     orders, every way of writing "no partitioning" and "empty section", and everything together;
 (2) T-eq of the operational model against the real objects (Equation.get_einsum_ranks, LoopOrder.get_ranks,
     Program.tensors, Partitioning.get_all_parts) - this is what connects the theorems to the code and what
     classifies a difference in (1) as the known finding F9 (the model predicts exactly this difference) or as
     something new.
A difference in (1) IS a failing input (the two YAML texts are the replay).
"""
import itertools
import json
import signal

import vlib
from vlib import cstr, clist, cnat
import specgen_defaults as sg

LEVEL = "proof"

COQ_IMPORTS = ["TV.Model.Show", "TV.Model.Defaults"]


# ---------------------------------------------------------------------------------------------
# the real compiler
# ---------------------------------------------------------------------------------------------
class _Timeout(Exception):
    pass


def _alarm(signum, frame):
    raise _Timeout()


def compile_yaml(y, limit=20):
    """-> ("ok", text) | ("exc", "Type: message")"""
    from teaal.parse import Einsum, Mapping, Architecture, Bindings, Format
    from teaal.trans.hifiber import HiFiber
    old = signal.signal(signal.SIGALRM, _alarm)
    signal.alarm(limit)
    try:
        return ("ok", str(HiFiber(Einsum.from_str(y), Mapping.from_str(y), Architecture.from_str(y),
                                  Bindings.from_str(y), Format.from_str(y))))
    except _Timeout:
        return ("exc", "Timeout: compilation exceeded %d s" % limit)
    except Exception as e:  # noqa
        return ("exc", "%s: %s" % (type(e).__name__, e))
    finally:
        signal.alarm(0)
        signal.signal(signal.SIGALRM, old)


def inspect_yaml(y, n):
    """What the real objects hold for the specification: rank orders, per-Einsum default ranks / loop order / parts."""
    from teaal.parse import Einsum, Mapping
    from teaal.ir.program import Program
    old = signal.signal(signal.SIGALRM, _alarm)
    signal.alarm(20)
    try:
        try:
            p = Program(Einsum.from_str(y), Mapping.from_str(y))
        except Exception as e:  # noqa
            return {"exc": "%s: %s" % (type(e).__name__, e)}
        res = {"tensors": {k: list(t.get_ranks()) for k, t in p.tensors.items()}, "einsums": []}
        for i in range(n):
            try:
                if i:
                    p.reset()
                p.add_einsum(i)
                res["einsums"].append({
                    "einsum_ranks": list(p.get_equation().get_einsum_ranks()),
                    "loop": list(p.get_loop_order().get_ranks()),
                    "parts": sorted("".join(x) for x in p.get_partitioning().get_all_parts())})
            except _Timeout:
                raise
            except Exception as e:  # noqa
                res["einsums"].append({"exc": "%s: %s" % (type(e).__name__, e)})
        return res
    except _Timeout:
        return {"exc": "Timeout"}
    finally:
        signal.alarm(0)
        signal.signal(signal.SIGALRM, old)


def tree_struct(expr):
    """Independent reading of the Einsum text: the compiler's own parse tree walked child by child (never
    find_data), in the shape of specgen_defaults' structure. Fail closed."""
    from teaal.parse.equation import EquationParser
    from lark.tree import Tree
    from lark.lexer import Token
    tree = EquationParser.parse(expr)
    assert tree.data == "einsum" and len(tree.children) == 2, tree

    def iexpr(t):
        assert isinstance(t, Tree) and t.data == "iplus", t
        out = []
        for c in t.children:
            assert isinstance(c, Tree), c
            if c.data == "ijust":
                assert len(c.children) == 1 and isinstance(c.children[0], Token)
                out.append([None, str(c.children[0])])
            elif c.data == "itimes":
                assert len(c.children) == 2 and isinstance(c.children[0], Token) and isinstance(c.children[1], Token)
                out.append([int(str(c.children[0])), str(c.children[1])])
            else:
                raise AssertionError(c)
        return out

    def access(t):
        assert isinstance(t, Tree) and t.data == "ranks", t
        return [iexpr(c) for c in t.children]

    def factor(t):
        assert isinstance(t, Tree), t
        if t.data == "var":
            assert len(t.children) == 1
            return ["V", str(t.children[0])]
        assert t.data == "tensor" and len(t.children) == 2, t
        return ["T", str(t.children[0]), access(t.children[1])]

    o, rhs = tree.children
    assert o.data == "output" and len(o.children) == 2
    assert rhs.data == "plus"
    terms = []
    for t in rhs.children:
        assert isinstance(t, Tree), t
        if t.data == "times":
            terms.append({"take": None, "factors": [factor(c) for c in t.children]})
        elif t.data == "take":
            assert isinstance(t.children[-1], Token)
            terms.append({"take": int(str(t.children[-1])), "factors": [factor(c) for c in t.children[:-1]]})
        else:
            raise AssertionError(t)
    return {"out": str(o.children[0]), "oidx": access(o.children[1]), "terms": terms}


# ---------------------------------------------------------------------------------------------
# the specification as Gallina terms
# ---------------------------------------------------------------------------------------------
def coq_access(a):
    return clist(clist(("(ITimes (%d)%%Z %s)" % (c, cstr(v))) if c is not None else "(IJust %s)" % cstr(v)
                       for c, v in ie) for ie in a)


def coq_factor(f):
    return "(FVar %s)" % cstr(f[1]) if f[0] == "V" else "(FTen %s %s)" % (cstr(f[1]), coq_access(f[2]))


def coq_term(t):
    fs = clist(coq_factor(f) for f in t["factors"])
    return "(TTimes %s)" % fs if t["take"] is None else "(TTake %s %s)" % (fs, cnat(t["take"]))


def coq_einsum(e):
    return "(mkEinsum %s %s %s)" % (cstr(e["out"]), coq_access(e["oidx"]), clist(coq_term(t) for t in e["terms"]))


def coq_decls(d):
    return clist("(%s, %s)" % (cstr(k), clist(cstr(r) for r in v)) for k, v in d.items())


def coq_part_section(m):
    return "(%s : part_section string)" % clist(
        "(%s, %s)" % (cstr(z), clist("(%s, %s)" % (cstr(r), clist(cstr(d) for d in ds)) for r, ds in (rs or {}).items()))
        for z, rs in m.items())


def coq_expr(spec):
    mp = spec["mapping"]
    lines = []
    for e in spec["einsums"]:
        lines.append(
            "(let e := %s in let ps := einsum_parts m %s in "
            "show_strs \",\" (canonical_order e ps) ++ \"#\" ++ show_opt_strs (code_default_loop_order 4 e (rev ps)) ++ \"#\" ++ "
            "show_strs \",\" (canonical_ranks e) ++ \"#\" ++ show_opt_strs (code_einsum_ranks e) ++ \"#\" ++ "
            "show_bool (same_ranks_b e) ++ show_bool (plain_first e) ++ show_bool (head_ok e) ++ "
            "show_bool (fresh_b ps && nodup_b (map fst ps)) ++ \"#\" ++ show_parts ps)" % (coq_einsum(e), cstr(e["out"])))
    return ("(let d := %s in let ro := %s in let m := %s in "
            "show_decls (resolve_rank_orders d ro) ++ \"!\" ++ show_decls (declared_rank_orders d) ++ \"!\" ++ String.concat \"@\" %s)"
            % (coq_decls(spec["decl"]), coq_decls(mp["rank-order"]), coq_part_section(mp["partitioning"]), clist(lines)))


def _strs(s):
    return s.split(",") if s else []


def parse_coq(line):
    ro, decl, es = line.split("!")

    def decls(s):
        d = {}
        for item in (s.split(";") if s else []):
            k, v = item.split("=")
            d[k] = _strs(v)
        return d
    out = {"rank_orders": decls(ro), "declared": decls(decl), "einsums": []}
    for el in es.split("@"):
        canon, code, cranks, coderanks, flags, parts = el.split("#")
        out["einsums"].append({
            "canonical": _strs(canon),
            "code_model": _strs(code[2:]) if code.startswith("S:") else None,
            "canonical_ranks": _strs(cranks),
            "code_model_ranks": _strs(coderanks[2:]) if coderanks.startswith("S:") else None,
            "same_ranks": flags[0] == "T", "plain_first": flags[1] == "T", "head_ok": flags[2] == "T",
            "parts_ok": flags[3] == "T",
            "parts": [p.split(":")[0] for p in _strs(parts)]})
    return out


# ---------------------------------------------------------------------------------------------
# variants: the same specification with defaults written out
# ---------------------------------------------------------------------------------------------
def copy_mapping(mp):
    return {"rank-order": dict(mp["rank-order"]), "loop-order": dict(mp["loop-order"]),
            "partitioning": {k: (dict(v) if v else v) for k, v in mp["partitioning"].items()}}


def base_mapping(spec):
    """drop empty sections: that is the 'omitted' form"""
    return {k: v for k, v in spec["mapping"].items() if v}


def shape_of(cq):
    if not cq["head_ok"]:
        return "take-before-product"
    if not cq["plain_first"]:
        return "coefficient-before-plain"
    return "plain-first"


def variants(spec, coq, rng):
    """-> list of (label, key-kind, yaml_explicit, made_explicit)"""
    mp = spec["mapping"]
    outs = [e["out"] for e in spec["einsums"]]
    res = []
    omitted_lo = [i for i, o in enumerate(outs) if o not in mp["loop-order"]]
    omitted_ro = [t for t in spec["decl"] if t not in mp["rank-order"]]
    omitted_pt = [o for o in outs if o not in mp["partitioning"]]

    def mk(label, kind, m, made, raw=None):
        m = {k: v for k, v in m.items() if (v or k in made.get("_keep", ()))}
        res.append((label, kind, sg.yaml_of(spec, m, raw), {k: v for k, v in made.items() if k != "_keep"}))

    # loop order, one Einsum at a time and all together
    for i in omitted_lo:
        m = copy_mapping(mp)
        m["loop-order"][outs[i]] = coq["einsums"][i]["canonical"]
        mk("loop-order:%d" % i, "loop-order", m, {"loop-order": {outs[i]: coq["einsums"][i]["canonical"]}})
    if len(omitted_lo) > 1:
        m = copy_mapping(mp)
        for i in omitted_lo:
            m["loop-order"][outs[i]] = coq["einsums"][i]["canonical"]
        mk("loop-order:all", "loop-order-all", m, {"loop-order": {outs[i]: coq["einsums"][i]["canonical"] for i in omitted_lo}})
    # rank order: all omitted tensors, and a random non-empty proper subset
    if omitted_ro:
        m = copy_mapping(mp)
        for t in omitted_ro:
            m["rank-order"][t] = coq["declared"][t]
        mk("rank-order:all", "rank-order", m, {"rank-order": {t: coq["declared"][t] for t in omitted_ro}})
        if len(omitted_ro) > 1:
            sub = [t for t in omitted_ro if rng.random() < 0.5] or omitted_ro[:1]
            if len(sub) < len(omitted_ro):
                m = copy_mapping(mp)
                for t in sub:
                    m["rank-order"][t] = coq["declared"][t]
                mk("rank-order:subset", "rank-order", m, {"rank-order": {t: coq["declared"][t] for t in sub}})
    # partitioning: the ways of writing "no partitioning" for an Einsum that has none
    if omitted_pt:
        for form in ("empty-dict", "null", "empty-lists"):
            m = copy_mapping(mp)
            for o in omitted_pt:
                if form == "empty-dict":
                    m["partitioning"][o] = {}
                elif form == "null":
                    m["partitioning"][o] = None
                else:
                    i = outs.index(o)
                    rs = coq["einsums"][i]["canonical_ranks"]
                    m["partitioning"][o] = {r: [] for r in rs[:2]} if rs else {}
            # keep the entries even when falsy
            y = sg.yaml_of(spec, {k: v for k, v in m.items() if v or k == "partitioning"})
            res.append(("partitioning:" + form, "partitioning", y, {"partitioning": {o: form for o in omitted_pt}}))
    # empty sections
    for sec in ("rank-order", "loop-order", "partitioning"):
        if not mp[sec]:
            for form, val in (("section-empty-dict", {}), ("section-null", None)):
                m = base_mapping(spec)
                m[sec] = val
                res.append(("%s:%s" % (sec, form), "empty-section", sg.yaml_of(spec, m), {sec: form}))
    if not any(mp.values()):
        res.append(("mapping:null", "empty-section", sg.yaml_of(spec, {}, {"mapping": "mapping:\n"}), {"mapping": "null"}))
    # everything together
    m = copy_mapping(mp)
    for i in omitted_lo:
        m["loop-order"][outs[i]] = coq["einsums"][i]["canonical"]
    for t in omitted_ro:
        m["rank-order"][t] = coq["declared"][t]
    for o in omitted_pt:
        m["partitioning"][o] = {}
    y = sg.yaml_of(spec, {k: v for k, v in m.items() if v or k == "partitioning"})
    res.append(("all", "all", y, {"loop-order": {outs[i]: coq["einsums"][i]["canonical"] for i in omitted_lo},
                                  "rank-order": {t: coq["declared"][t] for t in omitted_ro},
                                  "partitioning": {o: "empty-dict" for o in omitted_pt}}))
    return res


def same_outcome(a, b):
    """texts equal; or both raise the same exception type (messages may print sets)"""
    if a[0] != b[0]:
        return False
    if a[0] == "ok":
        return a[1] == b[1]
    return a[1].split(":")[0] == b[1].split(":")[0]


def first_diff_line(a, b):
    la, lb = a.splitlines(), b.splitlines()
    for i, (x, y) in enumerate(itertools.zip_longest(la, lb)):
        if x != y:
            return "line %d: omitted `%s` / explicit `%s`" % (i + 1, x, y)
    return "no difference"


def interleave_levels(order, rng):
    """a non-default loop order that keeps the levels of one rank in their order (a legal order)"""
    groups = {}
    for r in order:
        groups.setdefault(r.rstrip("0123456789"), []).append(r)
    slots = [g for g, rs in groups.items() for _ in rs]
    rng.shuffle(slots)
    its = {g: iter(rs) for g, rs in groups.items()}
    return [next(its[g]) for g in slots]


# ---------------------------------------------------------------------------------------------
def population(ctx):
    rng = ctx.rng
    specs = sg.hand_written()
    n = 120 if ctx.quick() else 1200
    for _ in range(n):
        specs.append(sg.gen_spec(rng))
    return specs


def jobs_for(spec, coq, rng, forms_all):
    """All YAML texts to compile for one specification: [(label, kind, yaml, made_explicit)]; label 'base' first."""
    outs = [e["out"] for e in spec["einsums"]]
    jobs = [("base", "base", sg.yaml_of(spec, base_mapping(spec)), {})]
    vs = variants(spec, coq, rng)
    if not forms_all:
        # the forms of "nothing" are cheap in information: one partitioning form and one empty section per specification
        pf = [v for v in vs if v[1] == "partitioning"]
        es = [v for v in vs if v[1] == "empty-section"]
        keep_p = rng.choice(pf) if pf else None
        keep_e = rng.choice(es) if es else None
        vs = [v for v in vs if v[1] not in ("partitioning", "empty-section") or v is keep_p or v is keep_e]
    jobs.extend(vs)
    for i in range(len(outs)):
        cq = coq["einsums"][i]
        if outs[i] in spec["mapping"]["loop-order"] or cq["code_model"] is None or cq["code_model"] == cq["canonical"]:
            continue
        m = copy_mapping(spec["mapping"])
        m["loop-order"][outs[i]] = cq["code_model"]
        jobs.append(("loop-order-model:%d" % i, "loop-order-model", sg.yaml_of(spec, {k: v for k, v in m.items() if v}),
                     {"loop-order": {outs[i]: cq["code_model"]}}))
    return jobs


def _work(job):
    kind, y, n = job
    if kind == "inspect":
        return inspect_yaml(y, n)
    return compile_yaml(y)


def run_jobs(jobs):
    """jobs: list of ("compile"|"inspect", yaml, n) -> results, in worker processes forked after sys.path is set"""
    import multiprocessing
    uniq = list(dict.fromkeys(jobs))
    with multiprocessing.get_context("fork").Pool(min(8, vlib.NPROC)) as pool:
        res = pool.map(_work, uniq, chunksize=4)
    return dict(zip(uniq, res))


def check_spec(ctx, spec, coq, stats, jobs, results):
    """All comparisons for one specification. Returns the number of (omitted, explicit) pairs compared."""
    n = len(spec["einsums"])
    outs = [e["out"] for e in spec["einsums"]]
    y0 = jobs[0][2]
    base = results[("compile", y0, 0)]
    stats["base_" + base[0]] += 1
    if base[0] == "exc":
        stats["exc:" + base[1].split(":")[0]] = stats.get("exc:" + base[1].split(":")[0], 0) + 1
    obj = results[("inspect", y0, n)]

    # ---- (2) T-eq of the operational model against the real objects --------------------------------
    model_ok = [None] * n
    if "exc" not in obj:
        stats["teq_rank_orders"] += 1
        if obj["tensors"] != coq["rank_orders"]:
            bad = sorted(t for t in coq["rank_orders"] if obj["tensors"].get(t) != coq["rank_orders"][t])
            omitted = [t for t in bad if t not in spec["mapping"]["rank-order"]]
            ctx.violation({"kind": "rank-order-default", "how": "objects", "omitted_tensor": bool(omitted)},
                          "Program.tensors holds rank order %s for %s; the declaration / rank-order section says %s"
                          % ([obj["tensors"].get(t) for t in bad], bad, [coq["rank_orders"][t] for t in bad]),
                          {"mode": "objects", "yaml": y0, "expected_rank_orders": coq["rank_orders"], "got": obj["tensors"]})
        for i in range(n):
            o, cq = obj["einsums"][i], coq["einsums"][i]
            if "exc" in o:
                stats["inspect_exc"] += 1
                continue
            stats["teq_einsums"] += 1
            # all_parts also lists the intermediates K1I of occupancy stacks; they never occur in a rank list
            roots = sorted(p for p in o["parts"] if p in cq["canonical_ranks"])
            if sorted(cq["parts"]) != roots:
                ctx.violation({"kind": "partitioning-default", "how": "objects"},
                              "Partitioning.get_all_parts() = %s but the mapping partitions %s for Einsum %s"
                              % (o["parts"], sorted(cq["parts"]), outs[i]),
                              {"mode": "objects", "yaml": y0, "einsum": i, "expected_parts": sorted(cq["parts"]), "got": o["parts"]})
            ok = (cq["code_model_ranks"] == o["einsum_ranks"])
            if outs[i] not in spec["mapping"]["loop-order"]:
                ok = ok and (cq["code_model"] == o["loop"])
            model_ok[i] = ok
            if not ok:
                stats["model_mismatch"] += 1

    # ---- (1) omitted versus explicitly written default ---------------------------------------------
    pairs = 0
    lo_bad = set()
    model_variant = {}
    for label, kind, y1, made in jobs[1:]:
        r = results[("compile", y1, 0)]
        pairs += 1
        stats["pairs:" + kind] = stats.get("pairs:" + kind, 0) + 1
        if kind == "loop-order-model":
            model_variant[int(label.split(":")[1])] = (y1, r, made)
            continue
        if same_outcome(base, r):
            continue
        what_diff = (first_diff_line(base[1], r[1]) if base[0] == r[0] == "ok"
                     else "omitted -> %s ; explicit -> %s" % (base[0] if base[0] == "ok" else base[1][:150],
                                                              r[0] if r[0] == "ok" else r[1][:150]))
        rep = {"mode": "text", "label": label, "yaml_omitted": y0, "yaml_explicit": y1, "made_explicit": made,
               "einsums": [sg.einsum_str(e) for e in spec["einsums"]]}
        if kind == "loop-order":
            i = int(label.split(":")[1])
            cq = coq["einsums"][i]
            lo_bad.add(i)
            key = {"kind": "loop-order-default", "einsum_shape": shape_of(cq),
                   "model_predicts_difference": cq["code_model"] != cq["canonical"],
                   "code_matches_model": bool(model_ok[i]), "explicit_raises": r[0] == "exc" and base[0] == "ok"}
            rep["code_default"] = obj["einsums"][i].get("loop") if "exc" not in obj else None
            rep["canonical_default"] = cq["canonical"]
            rep["model_of_code_default"] = cq["code_model"]
            ctx.violation(key, "Einsum `%s` (%s): omitted loop order gives %s, the canonical default is %s; texts differ: %s"
                          % (sg.einsum_str(spec["einsums"][i]), key["einsum_shape"], rep["code_default"], cq["canonical"], what_diff), rep)
        elif kind in ("loop-order-all", "all"):
            if lo_bad:
                continue       # already reported per Einsum
            ctx.violation({"kind": "defaults-together", "which": kind},
                          "writing all defaults together (%s) changes the output although each one alone does not: %s" % (label, what_diff), rep)
        elif kind == "rank-order":
            ctx.violation({"kind": "rank-order-default", "how": "text", "scope": label.split(":")[1]},
                          "writing the declared rank order of %s explicitly changes the output: %s"
                          % (sorted(made["rank-order"]), what_diff), rep)
        elif kind == "partitioning":
            ctx.violation({"kind": "partitioning-default", "how": "text", "form": label.split(":")[1],
                           "explicit_raises": r[0] == "exc", "error": r[1].split(":")[0] if r[0] == "exc" else None},
                          "writing 'no partitioning' as %s changes the outcome: %s" % (label, what_diff), rep)
        else:
            sec, form = label.split(":")
            ctx.violation({"kind": "empty-section", "section": sec, "form": form,
                           "explicit_raises": r[0] == "exc", "error": r[1].split(":")[0] if r[0] == "exc" else None},
                          "an empty `%s` section (%s) does not mean the default: %s" % (sec, form, what_diff), rep)

    # ---- the known deviation must be exactly the modelled one ---------------------------------------
    for i, (y1, r, made) in model_variant.items():
        cq = coq["einsums"][i]
        stats["outside_class_differs"] += 1
        if not same_outcome(base, r) and i in lo_bad:
            ctx.violation({"kind": "loop-order-default", "einsum_shape": shape_of(cq), "model_predicts_difference": True,
                           "code_matches_model": False, "explicit_raises": False},
                          "Einsum `%s`: the omitted loop order is neither the canonical default %s nor the modelled deviation %s"
                          % (sg.einsum_str(spec["einsums"][i]), cq["canonical"], cq["code_model"]),
                          {"mode": "text", "label": "loop-order:%d(model)" % i, "yaml_omitted": y0, "yaml_explicit": y1,
                           "made_explicit": made})
        if i not in lo_bad:
            stats["deviation_without_text_difference"] += 1
    # a model mismatch that produced no text difference: the theorem no longer speaks about the code
    for i in range(n):
        cq = coq["einsums"][i]
        if model_ok[i] is False and i not in lo_bad and base[0] == "ok" and outs[i] not in spec["mapping"]["loop-order"]:
            o = obj["einsums"][i]
            if o["loop"] == cq["canonical"]:
                stats["code_canonical_where_model_deviates"] += 1
                continue        # the code computes the canonical default where the model deviates: F9 repaired
            ctx.violation({"kind": "model-correspondence"},
                          "Einsum `%s`: LoopOrder.get_ranks() = %s, model of the code %s, canonical %s, but no text difference found"
                          % (sg.einsum_str(spec["einsums"][i]), o["loop"], cq["code_model"], cq["canonical"]),
                          {"mode": "objects", "yaml": y0, "einsum": i, "got": o, "model": cq}, no_input=True)
    return pairs


def run(ctx):
    vlib.setup_repo_path()
    rng = ctx.rng
    specs = population(ctx)
    # the generator's structure must be what the compiler's parser reads in the text it is given
    for s in specs:
        for e in s["einsums"]:
            t = tree_struct(sg.einsum_str(e))
            if t != e:
                raise AssertionError("structure/text mismatch: %s vs %s" % (t, e))
    # round 1: canonical orders (needed to write non-default explicit loop orders into some base mappings)
    res = vlib.coq_eval_lines("c19a", COQ_IMPORTS, "", [coq_expr(s) for s in specs], shard=40)
    for s, line in zip(specs, res):
        cq = parse_coq(line)
        for i, e in enumerate(s["einsums"]):
            if s["want_loop_order"][i] and cq["einsums"][i]["canonical"]:
                s["mapping"]["loop-order"][e["out"]] = interleave_levels(cq["einsums"][i]["canonical"], rng)
        s["coq"] = cq
    stats = {k: 0 for k in ("compiles", "base_ok", "base_exc", "teq_rank_orders", "teq_einsums", "inspect_exc", "model_mismatch",
                            "outside_class_differs", "deviation_without_text_difference", "code_canonical_where_model_deviates")}
    pairs = 0
    all_jobs = []
    work = []
    for k, s in enumerate(specs):
        js = jobs_for(s, s["coq"], rng, forms_all=(k < 10 or k % 5 == 0))
        all_jobs.append(js)
        work.append(("inspect", js[0][2], len(s["einsums"])))
        work.extend(("compile", j[2], 0) for j in js)
    results = run_jobs(work)
    stats["compiles"] = sum(1 for w in results if w[0] == "compile")
    dist = {"einsums": {}, "terms": {}, "take_terms": 0, "affine_accesses": 0, "coefficient_indices": 0, "scalars": 0, "rank0": 0,
            "partitioned_einsums": 0, "partition_depth": {}, "partition_kind": {}, "explicit_loop_orders": 0,
            "explicit_rank_orders": 0, "einsum_shape": {}, "same_ranks_false": 0}
    for s, js in zip(specs, all_jobs):
        pairs += check_spec(ctx, s, s["coq"], stats, js, results)
        dist["einsums"][len(s["einsums"])] = dist["einsums"].get(len(s["einsums"]), 0) + 1
        dist["explicit_loop_orders"] += len(s["mapping"]["loop-order"])
        dist["explicit_rank_orders"] += len(s["mapping"]["rank-order"])
        for e, cq in zip(s["einsums"], s["coq"]["einsums"]):
            dist["terms"][len(e["terms"])] = dist["terms"].get(len(e["terms"]), 0) + 1
            dist["take_terms"] += sum(1 for t in e["terms"] if t["take"] is not None)
            for t in e["terms"]:
                for f in t["factors"]:
                    if f[0] == "V":
                        dist["scalars"] += 1
                    elif not f[2]:
                        dist["rank0"] += 1
                    else:
                        dist["affine_accesses"] += sum(1 for ie in f[2] if len(ie) > 1)
                        dist["coefficient_indices"] += sum(1 for ie in f[2] for c, _ in ie if c is not None)
            dist["einsum_shape"][shape_of(cq)] = dist["einsum_shape"].get(shape_of(cq), 0) + 1
            dist["same_ranks_false"] += 0 if cq["same_ranks"] else 1
            pt = s["mapping"]["partitioning"].get(e["out"])
            if pt:
                dist["partitioned_einsums"] += 1
                for r, ds in pt.items():
                    dist["partition_depth"][len(ds)] = dist["partition_depth"].get(len(ds), 0) + 1
                    for d in ds:
                        k = d.split("(")[0]
                        dist["partition_kind"][k] = dist["partition_kind"].get(k, 0) + 1
    samples = []
    for s in specs[10:]:
        if len(samples) >= 3:
            break
        if s["mapping"]["partitioning"] and len(s["einsums"]) >= 1 and not all(s["mapping"]["loop-order"].get(e["out"]) for e in s["einsums"]):
            samples.append({"einsums": [sg.einsum_str(e) for e in s["einsums"]], "mapping_as_written": base_mapping(s),
                            "canonical_loop_orders_from_coq": [c["canonical"] for c in s["coq"]["einsums"]],
                            "declared_rank_orders_from_coq": s["coq"]["declared"]})
    ctx.coverage.update({
        "programs": len(specs),
        "cases": pairs,
        "evaluations": len(specs),
        "compilations": stats["compiles"],
        "disagreements_checked": stats["model_mismatch"],
        "distinct_nontrivial": len(set(sg.yaml_of(s, base_mapping(s)) for s in specs if base_mapping(s))),
        "counters": stats,
        "distribution": dist,
        "rule": "hand-written shapes + seeded random cascades of 1-3 Einsums (1-4 ranks, 1-3 terms, products / take / scalars / rank-0 / "
                "affine accesses with coefficients written before or after the plain index), partial mappings (rank orders for some "
                "tensors, non-default loop orders for some Einsums, split partitioning stacks of depth 1-3 on <= 2 ranks: uniform_shape, "
                "nway_shape, uniform_occupancy); every omitted item is written out (one at a time, subsets, all) with the default "
                "computed by coqc; non-trivial = the mapping as written is not empty",
        "samples": samples,
        "trusted_base": ["Coq 8.16.1 kernel + VM (vm_compute)",
                         "tools/specgen_defaults.py rendering of one structure both as YAML and as a Gallina term "
                         "(cross-checked on every run against the compiler's own parse tree, walked child by child)",
                         "text equality of str(HiFiber(...)) as the observation",
                         "flattening, follow() and spacetime are outside the statement and never generated"],
    })
    ctx.assumptions += ["the canonical default is Model/Defaults.v canonical_order / declared_rank_orders evaluated inside coqc on the "
                        "specification; the compiler is never asked for it",
                        "two compilations that both raise the same exception type count as the same outcome"]


def replay(ctx, rep):
    vlib.setup_repo_path()
    r = rep["replay"]
    if r.get("mode") == "text":
        a, b = compile_yaml(r["yaml_omitted"]), compile_yaml(r["yaml_explicit"])
        print("made explicit:", json.dumps(r.get("made_explicit")))
        print("omitted :", a[0], "" if a[0] == "ok" else a[1][:200])
        print("explicit:", b[0], "" if b[0] == "ok" else b[1][:200])
        if not same_outcome(a, b):
            if a[0] == b[0] == "ok":
                print(first_diff_line(a[1], b[1]))
            key = dict(rep.get("key") or {})
            if key.get("kind") == "loop-order-default" and "model_of_code_default" in r:
                # re-derive the part of the key that depends on the tree: does the code still deviate exactly as modelled?
                i = int(r["label"].split(":")[1].split("(")[0])
                obj = inspect_yaml(r["yaml_omitted"], len(r.get("einsums", [])) or i + 1)
                loop = obj["einsums"][i].get("loop") if "exc" not in obj else None
                key["code_matches_model"] = (loop == r["model_of_code_default"])
                key["model_predicts_difference"] = r["model_of_code_default"] != r["canonical_default"]
                print("omitted loop order now:", loop, " model of the pinned code:", r["model_of_code_default"], " canonical:", r["canonical_default"])
            k = ctx.match_known(key)
            if k is not None:
                print("KNOWN-FINDING: property=C19 %s [%s]" % (k["id"], k["what"][:200]))
                return 0
            print("VIOLATION property=C19 replay=%s" % rep.get("path", "<given file>"))
            return 1
        return 0
    if r.get("mode") == "objects":
        n = r["yaml"].count("\n  - ")
        obj = inspect_yaml(r["yaml"], n)
        bad = False
        if "expected_rank_orders" in r:
            bad = obj.get("tensors") != r["expected_rank_orders"]
        elif "expected_parts" in r:
            bad = obj["einsums"][r["einsum"]].get("parts") != r["expected_parts"]
        else:
            bad = obj["einsums"][r["einsum"]].get("loop") not in (r["model"]["code_model"], r["model"]["canonical"])
        print("objects:", json.dumps(obj)[:600])
        if bad:
            print("VIOLATION property=C19 replay=%s" % rep.get("path", "<given file>"))
            return 1
        return 0
    print("nothing to replay (no failing input was found for this violation)")
    return 1
