"""C11 - metrics instrumentation does not change what is computed.

Tie: every specification with architecture/bindings/format (the five accelerator YAMLs with
varied symbolic sizes and inputs; generated architectures with DRAM, cache, buffet (lazy and
eager/evict-on), intersectors of each type, compute; compute-only cascades) is compiled twice
by the current tree - with and without the hardware sections - and both programs are executed
in coqc on identical inputs with recording stand-ins for the metrics API: the final tensors
must be equal to each other and to the dense oracle.
Modelling assumption (not a theorem): Fiber.intersection(..., style="leader-follower") is
intersection with payloads in argument order."""
import specgen
import runlib
import execlib
import popgen
import os

import specgen_metrics
import specgen_hw
import patterns
from props.c06 import partition_info

LEVEL = "translation_validation"


def unbound_class(name, text, spec):
    """Structural description (from the specification and the emitted text) of a name the metrics-mode program reads unbound."""
    import ast
    tree = ast.parse(text)
    reads = [n for n in ast.walk(tree) if isinstance(n, ast.Name) and n.id == name and isinstance(n.ctx, ast.Load)]
    assigned = any(isinstance(n, ast.Name) and n.id == name and isinstance(n.ctx, ast.Store) for n in ast.walk(tree))
    in_format, in_shape = [], []
    for call in ast.walk(tree):
        if not isinstance(call, ast.Call):
            continue
        if isinstance(call.func, ast.Name) and call.func.id == "Format" and call.args:
            in_format += [n for n in ast.walk(call.args[0]) if n in reads] if isinstance(call.args[0], ast.Name) else []
        for k in call.keywords:
            if k.arg == "shape":
                in_shape += [n for n in ast.walk(k.value) if isinstance(n, ast.Name) and n.id == name]
    # (a) `Format(<T>_<ranks>, ...)` for a format whose rank-order spells a variant of T that the program never builds, or
    # builds only in a later Einsum: the first occurrence of the name (source order) is that read
    m = runlib.NAME_RE.match(name)
    occ = sorted(((n.lineno, n.col_offset, isinstance(n.ctx, ast.Load), n) for n in ast.walk(tree) if isinstance(n, ast.Name) and n.id == name), key=lambda x: x[:2])
    fmt_variant = bool(m and m.group(1) in spec.decl and occ and occ[0][2] and any(occ[0][3] is n for n in in_format))
    # (b) the forced explicit shape of an output rank made by flatten(): `shape=[.., JM, ..]`
    flats = set("".join(f) for f in partition_info(spec)[1])
    return {"unbound_is_format_tensor_variant": fmt_variant,
            # (c) `<r>_pos` of the eager-interval form: metrics mode never wraps the loop in enumerate(...)
            "unbound_is_loop_position": bool(name.endswith("_pos") and not assigned),
            "unbound_is_flattened_rank_in_shape": bool(name in flats and not assigned and reads and len(in_shape) == len(reads))}


def same_outcome(a, b):
    """Both executions end the same way: the same output report, or the same error (the same unbound name)."""
    if a["status"] != b["status"]:
        return False
    if a["status"] == "RAN":
        return a["out"] == b["out"]
    return a.get("unbound", a.get("err")) == b.get("unbound", b.get("err"))


def out_partitioned(spec):
    """output -> set of its declared ranks that the mapping partitions (read from the parsed mapping)."""
    res = {}
    for out, parts in (spec.mapping.get_partitioning() or {}).items():
        res[out] = set()
        for key in parts:
            ranks = [str(t) for t in key.children]
            res[out].add("".join(ranks))         # a rank made by flatten() is named by the concatenation
    return res


def decl_with_flats(spec):
    """declared ranks of every tensor, plus the names of flattened ranks made of them."""
    flats = ["".join(f) for f in partition_info(spec)[1]]
    return {t: list(rs) + flats for t, rs in spec.decl.items()}


def shape_witness(spec, prob, rng):
    """A concrete input on which the misaligned explicit shape is wrong: extents in which the rank's own extent exceeds the
    extent it is given, and all-ones dense inputs (every point of a sum of products of positive numbers is non-zero, so the
    output holds a point beyond the emitted shape).  None when the Einsum is not a plain sum of products."""
    struct = [s for s in spec.structs if s["out"] == prob["tensor"]]
    if not struct or any(t["take"] is not None for t in struct[0]["terms"]) or not isinstance(prob["shape"], list):
        return None
    for rid, got, want in zip(prob["rank_ids"], prob["shape"], prob["want"] or []):
        if got != want and want is not None and got in sum(spec.decl.values(), []):
            ext = runlib.default_extents(spec, rng, 2, 3)
            ext[want], ext[got] = 4, 2
            return {"extents": ext, "inputs": "all ones (dense)", "rank_id": rid, "declared_rank": want, "given_extent_of": got,
                    "point_outside_shape": "%s = %d >= %s = %d" % (want.lower(), ext[want] - 1, got, ext[got])}
    return None


def static_conditions(ctx, it, spec, text_m, text_p, stats):
    """Static side conditions on the emitted text (all inputs at once): explicit shapes line up with rank ids in both
    modes and are present in metrics mode; the payload pattern of a leader-follower loop names the operands in argument
    order.  -> number of violations reported."""
    bad = 0
    part = out_partitioned(spec)
    declf = decl_with_flats(spec)
    for mode, text in (("metrics", text_m), ("plain", text_p)):
        cons = [c for c in patterns.tensor_constructors(text) if c[3] is not None]
        if mode == "metrics":
            stats["explicit_shapes"] += len(cons)
            for var, name, ids, shape in cons:
                roots = [patterns.root_of(r, declf.get(name, []), part.get(name, set())) for r in ids]
                # partitions of one rank separated by another rank
                if any(roots[i] == roots[j] and any(r != roots[i] for r in roots[i:j]) for i in range(len(roots)) for j in range(i + 1, len(roots))):
                    stats["explicit_shapes_partitioned_interleaved"] += 1
        for prob in patterns.shape_problems(text, declf, part, spec.outs, require_shape=(mode == "metrics")):
            bad += 1
            w = shape_witness(spec, prob, ctx.rng)
            ctx.violation({"kind": "explicit-" + prob["kind"], "mode": mode},
                          "%s-mode program builds tensor %s with rank_ids %s but shape %s (extent of rank_ids[i] expected: %s)%s" % (
                              mode, prob["tensor"], prob["rank_ids"], prob["shape"], prob["want"],
                              "" if w is None else "; e.g. %s" % w["point_outside_shape"]),
                          {"yaml": it["yaml"], "text": text, "problem": prob, "witness": w}, no_input=w is None)
    stats["fiber_intersections"] += text_m.count("Fiber.intersection(")
    m = it.get("meta") if isinstance(it.get("meta"), dict) else {}
    if "leaders" in m:
        seen = {}
        for o, comp, typ, x in m["intersectors"]:
            if typ == "leader-follower":
                seen.setdefault((comp, x), set()).update(ld for o2, x2, ld in m["leaders"] if o2 == o and x2 == x)
        stats["lf_shared_rank_other_leader"] += 1 if any(len(v) > 1 for v in seen.values()) else 0
    stats["metrics_swizzles_for_mergers"] += (it.get("meta") or {}).get("mergers", 0) if isinstance(it.get("meta"), dict) else 0
    # reported after the executions of this very program (the failing-input search; a compiled-only item is then executed too)
    it["lf_problems"] = patterns.lf_payload_problems(text_m)
    return bad + len(it["lf_problems"])


def run(ctx):
    rng = ctx.rng
    q = ctx.quick()
    items = []
    for rep in range(2 if q else 6):
        items += popgen.accelerators()
    for _ in range(170 if q else 1500):
        y, meta = specgen_metrics.gen(rng)
        items.append({"yaml": y, "kind": "generated", "arch": True, "meta": meta})
    items += list(popgen.compute_only(rng, 20 if q else 150))
    # metrics mode on the classes the four fixed templates never reach (tools/specgen_hw.py): cascades over shared inputs
    # whose Einsums bind the SAME components with per-Einsum parameters, partitioned (interleaved) outputs, other rank
    # names; and the plain populations of C02/C03/C01 wrapped in a small architecture
    items += [specgen_hw.gen_cascade(rng) for _ in range(190 if q else 1000)]
    for gen, n in ((popgen.shape, 100 if q else 500), (popgen.occupancy, 40 if q else 250), (popgen.plain, 30 if q else 150)):
        for it in gen(rng, n):
            w = specgen_hw.wrap_single(rng, it)
            if w is not None:
                items.append(w)
    # index math (C04's class) with metrics on: the eager-interval form needs the loop position that metrics mode suppresses
    for it in popgen.affine(rng, 60 if q else 400):
        w = specgen_hw.wrap_single(rng, it)
        if w is not None:
            items.append(w)
    # compiled only (both static side conditions below are evaluated on them; no execution)
    static_only = [specgen_hw.gen_cascade(rng) for _ in range(250 if q else 3000)]
    # index-math outputs are built with an explicit shape in plain mode as well (iterRangeShapeRef over the output rank)
    for it in list(popgen.shape(rng, 100 if q else 1500)) + list(popgen.affine(rng, 80 if q else 800)):
        w = specgen_hw.wrap_single(rng, it)
        if w is not None:
            static_only.append(w)
    pop = os.environ.get("VERIF_C11_POP")        # development aid: restrict to kinds containing this substring
    if pop:
        items = [it for it in items if pop in it["kind"]]
        static_only = [it for it in static_only if pop in it["kind"]]
    for it in static_only:
        it["static_only"] = True
    items += static_only
    cases = []
    stats = {"by_kind": {}, "rejected": {}, "intersector": {}, "cache": 0, "static_only": 0, "explicit_shapes": 0,
             "explicit_shapes_partitioned_interleaved": 0, "fiber_intersections": 0, "lf_shared_rank_other_leader": 0,
             "metrics_swizzles_for_mergers": 0}
    static_bad = 0
    for it in items:
        try:
            spec = runlib.Spec(it["yaml"])
            text_m = spec.compile(arch=True)
            text_p = spec.compile(arch=False)
        except Exception as e:
            k = type(e).__name__ + ": " + str(e)[:50]
            stats["rejected"][k] = stats["rejected"].get(k, 0) + 1
            continue
        kind = it["kind"]
        static_bad += static_conditions(ctx, it, spec, text_m, text_p, stats)
        if it.get("static_only"):
            stats["static_only"] += 1
            if not it.get("lf_problems"):
                continue
        stats["by_kind"][kind] = stats["by_kind"].get(kind, 0) + 1
        if "meta" in it and "cache" in it["meta"]:
            i = str(it["meta"]["intersector"])
            stats["intersector"][i] = stats["intersector"].get(i, 0) + 1
            stats["cache"] += 1 if it["meta"]["cache"] else 0
        it["cases"] = []
        for rep in range(4 if it.get("lf_problems") else 1):       # a broken side condition: several inputs
            syms = {k: rng.randint(1, 4) for k in partition_info(spec)[0]}
            ext = runlib.default_extents(spec, rng, 1 if rep == 0 else 2, 5)
            data, scal = runlib.gen_inputs(spec, ext, rng, density=rng.choice([1.0, 0.7, 0.4]) if rep == 0 else 1.0)
            cm = execlib.Case(spec, text_m, ext, data, scal, extra_ints=syms, meta={"kind": kind, "mode": "metrics"})
            cp = execlib.Case(spec, text_p, ext, data, scal, extra_ints=syms, meta={"kind": kind, "mode": "plain"})
            cm.partner = cp
            cases += [cm, cp]
            it["cases"].append(cm)
    execlib.evaluate(cases, "c11")
    for it in items:
        for names, args, line in it.get("lf_problems") or []:
            failing = [c for c in it.get("cases", []) if not (c.result["status"] == "RAN" and c.result["out"] == "OK")]
            rep = failing[0].replay() if failing else {"yaml": it["yaml"], "text": it["cases"][0].text if it.get("cases") else None}
            rep["line"] = line
            ctx.violation({"kind": "leader-follower-payload-order"},
                          "payload pattern names operands %s but Fiber.intersection is given %s (payloads come in argument order): %s%s" % (
                              names, args, line, "; e.g. %s" % getattr(failing[0], "raw", str(failing[0].result))[:120] if failing else ""), rep, no_input=not failing)
    bad = 0
    pairs = 0
    for c in cases:
        if c.meta["mode"] != "metrics":
            continue
        pairs += 1
        p = c.partner
        rm, rp = c.result, p.result
        if rm["status"] == "RAN" and rm["out"] == "OK" and rm["inp"] == "OK":
            continue
        plain_ok = rp["status"] == "RAN" and rp["out"] == "OK"
        if c.meta["kind"] == "affine+hw" and not plain_ok and same_outcome(rm, rp):
            # the plain program already differs from the Einsum in exactly the same way: the index-math defects F4/F5/F11/F12
            # that C04 reports (known_findings.json); nothing the instrumentation changed
            stats["affine_same_as_plain_wrong"] = stats.get("affine_same_as_plain_wrong", 0) + 1
            continue
        bad += 1
        key = {"kind": "metrics-mode-differs" if plain_ok else "both-modes-wrong",
               "take_in_sum_selected_lacks_rank": any(specgen.take_selected_lacks_rank(s) for s in c.spec.structs)}
        if rm["status"] == "ERR" and "unbound" in rm:
            key["error"] = "unbound"
            key.update(unbound_class(rm["unbound"], c.text, c.spec))
        rep = c.replay()
        rep["plain_text"] = p.text
        rep["plain_result"] = p.raw if hasattr(p, "raw") else None
        ctx.violation(key, "program compiled with architecture/bindings/format computes %s while the plain program gives %s" % (
            str(c.raw if hasattr(c, "raw") else rm)[:200], str(p.raw if hasattr(p, "raw") else rp)[:60]), rep)
    distinct = len(set(c.text for c in cases if c.meta["mode"] == "metrics"))
    ctx.coverage.update({
        "programs": distinct, "executions": len(cases), "disagreements_checked": bad + static_bad, "static_violations": static_bad, "evaluations": len(cases), "distinct_nontrivial": distinct,
        "pairs_compared": pairs, "population": stats,
        "rule": "five accelerator YAMLs (random symbolic sizes and inputs, 2/6 repetitions) + generated architectures over 4 Einsum templates x loop orders x rank orders x "
                "formats x {DRAM, optional cache, buffet with lazy/evict-on bindings, intersector two-finger/leader-follower(any leader)/skip-ahead/none, mul/add} + compute-only cascades; "
                "each compiled with and without hardware and both executed on identical inputs",
        "samples": [{"kind": cases[0].meta, "result": cases[0].raw}, {"yaml": cases[-2].spec.yaml[:1500], "result": cases[-2].raw}],
        "trusted_base": ["Coq 8.16.1 kernel + VM", "Model/Rt.v + Model/Interp.v (metrics API = recording stand-ins returning opaque values)", "tools/py2coq.py", "Model/Einsum.v"],
    })
    ctx.assumptions += ["Fiber.intersection(style=leader-follower) modelled as intersection with payloads in argument order"]


def replay(ctx, rep):
    r = rep["replay"]
    spec = runlib.Spec(r["yaml"])
    if rep.get("key", {}).get("kind", "").startswith(("explicit-shape", "leader-follower")) and "inputs" not in r:
        it = {"yaml": r["yaml"], "kind": "replay"}
        n = static_conditions(ctx, it, spec, spec.compile(arch=True), spec.compile(arch=False), __import__("collections").defaultdict(int))
        print(spec.compile(arch=True))
        print("static side conditions broken:", n, it.get("lf_problems"))
        if n:
            print("VIOLATION property=C11 replay=<given file>")
        return 1 if n else 0
    data = {t: {tuple(int(x) for x in k.split(",") if x != ""): v for k, v in d.items()} for t, d in r["inputs"].items()}
    cs = [execlib.Case(spec, spec.compile(arch=a), r["extents"], data, r["scalars"], extra_ints=r.get("extra_ints")) for a in (True, False)]
    execlib.evaluate(cs, "c11r")
    print(cs[0].text)
    print("metrics:", cs[0].raw, "plain:", cs[1].raw)
    if not cs[0].raw.startswith("RAN;OK;OK"):
        print("VIOLATION property=C11 replay=<given file>")
        return 1
    return 0
