"""C11 - metrics instrumentation does not change what is computed.

Tie: every specification with architecture/bindings/format (the five accelerator YAMLs with
varied symbolic sizes and inputs; generated architectures with DRAM, cache, buffet (lazy and
eager/evict-on), intersectors of each type, compute; compute-only cascades) is compiled twice
by the current tree - with and without the hardware sections - and both programs are executed
in coqc on identical inputs with recording stand-ins for the metrics API: the final tensors
must be equal to each other and to the dense oracle.
Modelling assumption (not a theorem): Fiber.intersection(..., style="leader-follower") is
intersection with payloads in argument order."""
import specgen
import runlib
import execlib
import popgen
import specgen_metrics
from props.c06 import partition_info

LEVEL = "translation_validation"


def run(ctx):
    rng = ctx.rng
    q = ctx.quick()
    items = []
    for rep in range(2 if q else 6):
        items += popgen.accelerators()
    for _ in range(170 if q else 1500):
        y, meta = specgen_metrics.gen(rng)
        items.append({"yaml": y, "kind": "generated", "arch": True, "meta": meta})
    items += list(popgen.compute_only(rng, 20 if q else 150))
    cases = []
    stats = {"by_kind": {}, "rejected": {}, "intersector": {}, "cache": 0}
    for it in items:
        try:
            spec = runlib.Spec(it["yaml"])
            text_m = spec.compile(arch=True)
            text_p = spec.compile(arch=False)
        except Exception as e:
            k = type(e).__name__ + ": " + str(e)[:50]
            stats["rejected"][k] = stats["rejected"].get(k, 0) + 1
            continue
        kind = it["kind"]
        stats["by_kind"][kind] = stats["by_kind"].get(kind, 0) + 1
        if "meta" in it:
            i = str(it["meta"]["intersector"])
            stats["intersector"][i] = stats["intersector"].get(i, 0) + 1
            stats["cache"] += 1 if it["meta"]["cache"] else 0
        syms = {k: rng.randint(1, 4) for k in partition_info(spec)[0]}
        ext = runlib.default_extents(spec, rng, 1, 5)
        data, scal = runlib.gen_inputs(spec, ext, rng, density=rng.choice([1.0, 0.7, 0.4]))
        cm = execlib.Case(spec, text_m, ext, data, scal, extra_ints=syms, meta={"kind": kind, "mode": "metrics"})
        cp = execlib.Case(spec, text_p, ext, data, scal, extra_ints=syms, meta={"kind": kind, "mode": "plain"})
        cm.partner = cp
        cases += [cm, cp]
    execlib.evaluate(cases, "c11")
    bad = 0
    pairs = 0
    for c in cases:
        if c.meta["mode"] != "metrics":
            continue
        pairs += 1
        p = c.partner
        rm, rp = c.result, p.result
        if rm["status"] == "RAN" and rm["out"] == "OK" and rm["inp"] == "OK":
            continue
        bad += 1
        plain_ok = rp["status"] == "RAN" and rp["out"] == "OK"
        key = {"kind": "metrics-mode-differs" if plain_ok else "both-modes-wrong",
               "take_in_sum_selected_lacks_rank": any(specgen.take_selected_lacks_rank(s) for s in c.spec.structs)}
        rep = c.replay()
        rep["plain_text"] = p.text
        rep["plain_result"] = p.raw if hasattr(p, "raw") else None
        ctx.violation(key, "program compiled with architecture/bindings/format computes %s while the plain program gives %s" % (
            (c.raw if hasattr(c, "raw") else rm)[:200] if True else "", (p.raw if hasattr(p, "raw") else rp)[:60] if True else ""), rep)
    distinct = len(set(c.text for c in cases if c.meta["mode"] == "metrics"))
    ctx.coverage.update({
        "programs": distinct, "executions": len(cases), "disagreements_checked": bad, "evaluations": len(cases), "distinct_nontrivial": distinct,
        "pairs_compared": pairs, "population": stats,
        "rule": "five accelerator YAMLs (random symbolic sizes and inputs, 2/6 repetitions) + generated architectures over 4 Einsum templates x loop orders x rank orders x "
                "formats x {DRAM, optional cache, buffet with lazy/evict-on bindings, intersector two-finger/leader-follower(any leader)/skip-ahead/none, mul/add} + compute-only cascades; "
                "each compiled with and without hardware and both executed on identical inputs",
        "samples": [{"kind": cases[0].meta, "result": cases[0].raw}, {"yaml": cases[-2].spec.yaml[:1500], "result": cases[-2].raw}],
        "trusted_base": ["Coq 8.16.1 kernel + VM", "Model/Rt.v + Model/Interp.v (metrics API = recording stand-ins returning opaque values)", "tools/py2coq.py", "Model/Einsum.v"],
    })
    ctx.assumptions += ["Fiber.intersection(style=leader-follower) modelled as intersection with payloads in argument order"]


def replay(ctx, rep):
    r = rep["replay"]
    spec = runlib.Spec(r["yaml"])
    data = {t: {tuple(int(x) for x in k.split(",") if x != ""): v for k, v in d.items()} for t, d in r["inputs"].items()}
    cs = [execlib.Case(spec, spec.compile(arch=a), r["extents"], data, r["scalars"], extra_ints=r.get("extra_ints")) for a in (True, False)]
    execlib.evaluate(cs, "c11r")
    print(cs[0].text)
    print("metrics:", cs[0].raw, "plain:", cs[1].raw)
    if not cs[0].raw.startswith("RAN;OK;OK"):
        print("VIOLATION property=C11 replay=<given file>")
        return 1
    return 0
