"""C05 - cascaded Einsums compose and are compiled independently of their predecessors.

Ties: (1) kernel-evaluated execution of whole cascades (2-4 Einsums, per-Einsum mappings)
against the chained dense oracle; (2) implementation vs implementation: for every cascade and
every i, the text emitted for Einsum i inside the cascade (obtained as the difference between
the programs of the prefixes exprs[:i+1] and exprs[:i]) equals the text of Einsum i compiled
alone with the same declarations and mapping, after renumbering temporaries; (3) the tensor
state machine model (Model/TensorSM.v) against teaal.ir.tensor.Tensor on random operation
sequences, for which reset_restores is a theorem."""
import re

import vlib
from vlib import cstr, clist
import specgen
import specgen_mixed
import compilepool
import runlib
import execlib

LEVEL = "translation_validation"


def renumber(text):
    """Rename tmpN by order of first appearance."""
    seen = {}

    def f(m):
        n = m.group(0)
        if n not in seen:
            seen[n] = "tmp%d" % len(seen)
        return seen[n]
    return re.sub(r'\btmp\d+\b', f, text)


def sections(decl, exprs, mapping):
    """-> list of section texts obtained from prefix compilations, or raises."""
    prev = ""
    out = []
    for i in range(len(exprs)):
        y = specgen.yaml_of(decl, exprs[:i + 1], mapping)
        t = runlib.Spec(y).compile()
        if not t.startswith(prev):
            raise AssertionError(("prefix", i, prev, t))
        out.append(t[len(prev):].lstrip("\n"))
        prev = t
    return out


def restrict_mapping(mapping, out):
    m = {"rank-order": dict(mapping.get("rank-order", {}))}
    for sec in ("loop-order", "partitioning", "spacetime"):
        if out in mapping.get(sec, {}):
            m[sec] = {out: mapping[sec][out]}
    return m



def _lines(text):
    return [l for l in text.split("\n") if l.strip()]


def cascade_vs_standalone(decl, exprs, mapping, outs, full, alones):
    """full / alones[i]: ("T", text) | ("E", error) of the cascade and of every Einsum compiled alone (same declarations,
    the mapping restricted to that Einsum).  -> None when the cascade is the concatenation of the stand-alone programs up
    to the numbering of temporaries (or both sides reject), else (key, what, detail)."""
    failing = [i for i, a in enumerate(alones) if a[0] == "E"]
    if full[0] == "E":
        if not failing:
            return ({"kind": "cascade-rejected-standalone-compiles"},
                    "every Einsum of the cascade compiles alone, but the cascade is rejected with %s" % full[1][:200], {"error": full[1]})
        return None
    if failing:
        i = failing[0]
        return ({"kind": "standalone-rejected-cascade-compiles"},
                "Einsum %d (%s) is rejected when compiled alone (%s) but accepted after its predecessors" % (i, exprs[i], alones[i][1][:200]),
                {"index": i, "error": alones[i][1]})
    cat = []
    for i, a in enumerate(alones):
        cat += _lines(re.sub(r'\btmp(\d+)\b', lambda m: "tmp9%02d%s" % (i, m.group(1)), a[1]))
    got = _lines(renumber(full[1]))
    exp = _lines(renumber("\n".join(cat)))
    if got == exp:
        return None
    # which Einsum?  walk the stand-alone programs along the cascade's text
    pos = 0
    for i, a in enumerate(alones):
        n = len(_lines(a[1]))
        g = _lines(renumber("\n".join(_lines(full[1])[pos:pos + n])))
        e = _lines(renumber(a[1]))
        if g != e:
            d = [(x, y) for x, y in zip(g, e) if x != y][:3]
            return ({"kind": "section-differs-from-standalone"},
                    "Einsum %d (%s) is compiled differently inside the cascade than alone: %s" % (i, exprs[i], d),
                    {"index": i, "alone": a[1], "first_differences": d})
        pos += n
    return ({"kind": "sections-do-not-concatenate"}, "the cascade's text is not the concatenation of the stand-alone texts", {})


def mixed_part(ctx, stats):
    """Cascades over one small pool of rank names mixing plain Einsums with index arithmetic, per-Einsum shape(+follow) /
    occupancy / flatten partitioning and spacetimes (tools/specgen_mixed.py): text of the cascade vs concatenation of the
    stand-alone texts for all of them; execution against the chained oracle outside the C04 defect classes."""
    from props.c04 import flags_of
    from props.c16 import coord_on_flat
    rng = ctx.rng
    n = 220 if ctx.quick() else 2400
    nexec = 110 if ctx.quick() else 1200
    items = [specgen_mixed.gen_mixed_cascade(rng) for _ in range(n)]
    items += [specgen_mixed.gen_iterative_cascade(rng) for _ in range(n // 6)]
    jobs, index = [], []
    for it in items:
        index.append(len(jobs))
        jobs.append(it["yaml"])
        for j, e in enumerate(it["exprs"]):
            jobs.append(specgen.yaml_of(it["decl"], [e], restrict_mapping(it["mapping"], it["per"][j]["out"])))
    res = compilepool.compile_many(jobs)
    ms = {"cascades": n, "compiled": 0, "rejected_consistently": 0, "sections_compared": 0, "kinds": {}, "with_index_math": 0,
          "index_math_then_reuse_of_its_ranks": 0, "with_spacetime": 0, "partitioned_sections": 0, "executed": 0, "in_c04_defect_class": 0, "in_c01_c16_defect_class": 0, "take_reads_intermediate": 0}
    bad = 0
    cases = []
    for it, k in zip(items, index):
        full = res[k]
        alones = res[k + 1:k + 1 + len(it["exprs"])]
        v = cascade_vs_standalone(it["decl"], it["exprs"], it["mapping"], [p["out"] for p in it["per"]], full, alones)
        if v is not None:
            bad += 1
            key, what, detail = v
            detail.update({"yaml": it["yaml"]})
            ctx.violation(key, what, detail)
            continue
        if full[0] == "E":
            ms["rejected_consistently"] += 1
            continue
        ms["compiled"] += 1
        ms["sections_compared"] += len(it["exprs"])
        kinds = "+".join(sorted(set(p["kind"] for p in it["per"])))
        ms["kinds"][kinds] = ms["kinds"].get(kinds, 0) + 1
        ms["with_spacetime"] += 1 if it["mapping"].get("spacetime") else 0
        ms["partitioned_sections"] += len(it["mapping"].get("partitioning", {}))
        rel = [(i, p) for i, p in enumerate(it["per"]) if p["kind"] != "plain"]
        if rel:
            ms["with_index_math"] += 1
            i0, p0 = rel[0]
            names = set([p0["W"], p0["Q"]] + ([p0["S"]] if p0["S"] else []))
            if any(len(names & (set(q["ranks"]) | set(q.get("acc", {})))) >= 2 for q in it["per"][i0 + 1:]):
                ms["index_math_then_reuse_of_its_ranks"] += 1
        text = full[1]
        if it.get("iterative"):
            ms["iterative_text_only"] = ms.get("iterative_text_only", 0) + 1
            continue
        fl = {}
        for p in it["per"]:
            for a, b in flags_of(text, it["mapping"], p["out"]).items():
                fl[a] = fl.get(a, False) or b
        if any(fl.values()):
            ms["in_c04_defect_class"] += 1
            continue
        spec = runlib.Spec(it["yaml"])
        if any(specgen.take_selected_lacks_rank(s) for s in spec.structs) or \
                any(coord_on_flat(spec, st) for st in (it["mapping"].get("spacetime") or {}).values()):
            ms["in_c01_c16_defect_class"] += 1         # F7 / F6b: reported by C01 / C16
            continue
        produced = set()
        take_on_intermediate = False
        for st_ in spec.structs:
            for t in st_["terms"]:
                if t["take"] is not None and any(f[0] == "T" and f[1] in produced for f in t["factors"]):
                    take_on_intermediate = True
            produced.add(st_["out"])
        if take_on_intermediate:
            # an intermediate holds explicit zeros (`z << a` creates the element before the reduction adds anything; iterRangeShapeRef
            # creates every coordinate); whether take() sees them as present is a question about fibertree that the runtime model
            # answers with "present" - not settled (see notes/STRENGTHEN_X2.md), so these are compared as text only
            ms["take_reads_intermediate"] += 1
            continue
        if ms["executed"] >= nexec:
            continue
        ms["executed"] += 1
        ext = specgen_mixed.mixed_extents(rng, it)
        data, scal = runlib.gen_inputs(spec, ext, rng, density=rng.choice([1.0, 0.7]))
        cases.append(execlib.Case(spec, text, ext, data, scal, extra_ints=it["syms"], meta={"mixed": True}))
    stats["mixed"] = ms
    return cases, bad


# ---- tensor state machine T-eq ------------------------------------------------
def tensor_sm_cases(ctx, n):
    from teaal.ir.tensor import Tensor
    rng = ctx.rng
    exprs, expect, samples = [], [], []
    for _ in range(n):
        k = rng.randint(1, 4)
        ranks = rng.sample(["J", "K", "M", "N", "P"], k)
        t = Tensor("A", list(ranks))
        ops = []
        for _ in range(rng.randint(0, 8)):
            choice = rng.choice(["swizzle", "update", "from_fiber", "pop", "out", "reset", "update_shorter"])
            active = t.get_ranks()
            if choice == "swizzle":
                p = list(active)
                rng.shuffle(p)
                t.swizzle(p)
                ops.append("(OSwizzle %s)" % clist(map(cstr, p)))
            elif choice in ("update", "update_shorter"):
                if choice == "update":
                    new = [r + str(i) for r in active for i in (1, 0)][:rng.randint(0, 6)]
                else:
                    new = ["".join(active)] if active else []
                t.update_ranks(list(new))
                ops.append("(OUpdate %s)" % clist(map(cstr, new)))
            elif choice == "from_fiber":
                t.from_fiber()
                ops.append("OFromFiber")
            elif choice == "pop":
                if t.peek() is None:
                    continue
                t.pop()
                ops.append("OPop")
            elif choice == "out":
                b = rng.random() < 0.5
                t.set_is_output(b)
                ops.append("(OSetOut %s)" % ("true" if b else "false"))
            else:
                t.reset()
                ops.append("OReset")
        got = "%s|%s|%s" % (t.tensor_name(), t.fiber_name(), ",".join(t.get_ranks()))
        t.reset()
        got += "|" + "%s|%s" % (t.tensor_name(), ",".join(t.get_ranks()))
        exprs.append("(show_tensor_run %s %s %s)" % (cstr("A"), clist(map(cstr, ranks)), clist(ops)))
        expect.append(got)
        if len(samples) < 2 and len(ops) > 4:
            samples.append({"ranks": ranks, "ops": ops, "code": got})
    res = vlib.coq_eval_lines("c05sm", ["TV.Model.Show", "TV.Model.TensorSM"], "", exprs)
    bad = [(e, g, r) for e, g, r in zip(exprs, expect, res) if g != r]
    return len(exprs), bad, samples


def tmp_counter_cases(ctx, n):
    """T-eq Model/TmpCounter.v vs teaal.trans.utils.TransUtils.next_tmp / curr_tmp on random request sequences"""
    from teaal.trans.utils import TransUtils
    rng = ctx.rng
    exprs, expect = [], []
    for _ in range(n):
        tu = TransUtils(None)
        ops, outs = [], []
        for _ in range(rng.randint(0, 14)):
            if rng.random() < 0.55:
                ops.append("TNext")
                outs.append(tu.next_tmp())
            else:
                ops.append("TCurr")
                try:
                    outs.append(tu.curr_tmp())
                except ValueError:
                    outs.append("ERR")
        exprs.append("(show_tmp_run %s)" % clist(ops))
        expect.append(",".join(outs))
    res = vlib.coq_eval_lines("c05tmp", ["TV.Model.Show", "TV.Model.TmpCounter"], "", exprs)
    return len(exprs), [(e, g, r) for e, g, r in zip(exprs, expect, res) if g != r]


def run(ctx):
    rng = ctx.rng
    n = 120 if ctx.quick() else 1200
    cases = []
    stats = {"cascades": 0, "compile_errors": {}, "lengths": {}, "partitioned_sections": 0, "sections_compared": 0}
    text_bad = 0
    for i in range(n):
        decl, exprs, mp, syms, per = specgen.gen_cascade(rng)
        y = specgen.yaml_of(decl, exprs, mp)
        try:
            spec = runlib.Spec(y)
            text = spec.compile()
        except Exception as e:
            k = type(e).__name__ + ": " + str(e)[:60]
            stats["compile_errors"][k] = stats["compile_errors"].get(k, 0) + 1
            # a cascade may only be rejected when one of its Einsums is rejected alone
            alones = compilepool.compile_many([specgen.yaml_of(decl, [x], restrict_mapping(mp, per[j]["out"])) for j, x in enumerate(exprs)], nproc=1)
            v = cascade_vs_standalone(decl, exprs, mp, [q["out"] for q in per], ("E", k), alones)
            if v is not None:
                text_bad += 1
                v[2]["yaml"] = y
                ctx.violation(v[0], v[1], v[2])
            continue
        stats["cascades"] += 1
        stats["lengths"][len(exprs)] = stats["lengths"].get(len(exprs), 0) + 1
        stats["partitioned_sections"] += len(mp.get("partitioning", {}))
        # (2) section i vs stand-alone compilation
        try:
            secs = sections(decl, exprs, mp)
        except AssertionError as e:
            text_bad += 1
            ctx.violation({"kind": "prefix-changes-earlier-sections"}, "compiling a longer cascade changed the text of earlier Einsums",
                          {"yaml": y, "detail": str(e.args[0])[:2000]})
            continue
        if "\n".join(s for s in secs if s) != text.strip("\n") and "".join(secs).replace("\n", "") != text.replace("\n", ""):
            text_bad += 1
            ctx.violation({"kind": "sections-do-not-concatenate"}, "prefix sections do not concatenate to the cascade's text", {"yaml": y})
            continue
        for j, e in enumerate(exprs):
            alone = runlib.Spec(specgen.yaml_of(decl, [e], restrict_mapping(mp, per[j]["out"]))).compile()
            stats["sections_compared"] += 1
            if renumber(alone).strip("\n") != renumber(secs[j]).strip("\n"):
                text_bad += 1
                ctx.violation({"kind": "section-differs-from-standalone"},
                              "Einsum %d (%s) is compiled differently inside the cascade than alone" % (j, e),
                              {"yaml": y, "index": j, "in_cascade": secs[j], "alone": alone})
        for j in range(2):
            ext = runlib.default_extents(spec, rng, 1, 4)
            data, scal = runlib.gen_inputs(spec, ext, rng, density=rng.choice([1.0, 0.7]))
            cases.append(execlib.Case(spec, text, ext, data, scal, extra_ints=syms))
    mcases, mbad = mixed_part(ctx, stats)
    cases += mcases
    text_bad += mbad
    execlib.evaluate(cases, "c05")
    bad = 0
    for c in cases:
        r = c.result
        if r["status"] == "RAN" and r["out"] == "OK":
            continue
        bad += 1
        f7 = any(specgen.take_selected_lacks_rank(s) for s in c.spec.structs)
        if r["status"] == "RAN":
            ctx.violation({"kind": "wrong-result", "take_in_sum_selected_lacks_rank": f7}, "cascade computes wrong outputs: %s" % r["out"][:300], c.replay())
        else:
            key = {"kind": "execution-error", "error": r.get("err", r["status"])[:40]}
            if "unbound" in r:       # same structural key as C04/C02 use for F5 (the level-size name read in iterRangeShapeRef arguments)
                key["unbound_is_level_name"] = bool(re.match(r'^[A-Z]+\d$', r["unbound"]))
                key["error"] = "unbound"
            ctx.violation(key, "cascade cannot be executed: %s" % r, c.replay())
    nsm, sm_bad, sm_samples = tensor_sm_cases(ctx, 400 if ctx.quick() else 4000)
    for e, g, r in sm_bad[:5]:
        ctx.violation({"kind": "tensor-sm-correspondence"}, "teaal.ir.tensor.Tensor and Model/TensorSM.v disagree: code %s model %s" % (g, r),
                      {"case": e, "code": g, "model": r, "correspondence": "T-eq Model/TensorSM.v vs teaal.ir.tensor.Tensor"}, no_input=True)
    ntmp, tmp_bad = tmp_counter_cases(ctx, 200 if ctx.quick() else 2000)
    for e, g, r in tmp_bad[:5]:
        ctx.violation({"kind": "tmp-counter-correspondence"}, "TransUtils.next_tmp/curr_tmp and Model/TmpCounter.v disagree: code %s model %s" % (g, r),
                      {"case": e, "code": g, "model": r, "correspondence": "T-eq Model/TmpCounter.v vs teaal.trans.utils.TransUtils"}, no_input=True)
    distinct = len(set(c.text for c in cases))
    ctx.coverage.update({
        "programs": distinct, "executions": len(cases), "disagreements_checked": bad + text_bad + len(sm_bad) + len(tmp_bad), "evaluations": len(cases) + nsm + ntmp,
        "distinct_nontrivial": distinct, "population": stats, "tensor_sm_sequences": nsm, "tmp_counter_sequences": ntmp,
        "rule": "mixed cascades (tools/specgen_mixed.py: one pool of 3-5 rank names out of 17 per cascade, every Einsum plain or with index arithmetic I[a*q], I[a*q+b*s], "
                "per-Einsum shape(+follow)/occupancy/flatten partitioning and spacetimes; cascade text vs concatenated stand-alone texts, rejection only if an Einsum is rejected alone; "
                "execution outside the C04 defect classes) + "
                "random cascades of 2-4 Einsums (each reading earlier results where ranks allow), per-Einsum loop orders, optional shape partitioning of one rank per Einsum, "
                "random rank orders of all tensors incl. intermediates; section-vs-standalone text for every Einsum of every cascade; 2 executions per cascade; "
                "400/4000 random Tensor operation sequences",
        "samples": [{"yaml": cases[0].spec.yaml, "extents": cases[0].extents, "result": cases[0].raw}] + sm_samples if cases else sm_samples,
        "trusted_base": ["Coq 8.16.1 kernel + VM", "Model/Rt.v + Model/Interp.v", "tools/py2coq.py", "Model/Einsum.v denote_all", "Model/TensorSM.v tied by T-eq", "Model/TmpCounter.v tied by T-eq (names as indices; \"tmp\" + decimal spelling compared as text)"],
    })


def replay(ctx, rep):
    r = rep["replay"]
    spec = runlib.Spec(r["yaml"])
    text = spec.compile()
    print(text)
    if "inputs" in r:
        data = {t: {tuple(int(x) for x in k.split(",") if x != ""): v for k, v in d.items()} for t, d in r["inputs"].items()}
        c = execlib.Case(spec, text, r["extents"], data, r["scalars"], extra_ints=r.get("extra_ints"))
        execlib.evaluate([c], "c05r")
        print("result:", c.raw)
        if c.result["status"] != "RAN" or c.result["out"] != "OK":
            print("VIOLATION property=C05 replay=<given file>")
            return 1
    return 0
