"""C12 - every trace the metrics dump consumes is produced during collection.

Theorems (coq/Props/C12.v):
  * C12_checker_iff: the decision procedure `prog_failures` (Model/XRef.v) returns no failure exactly when the
    property `prog_ok` holds on the event sequence of an emitted program (beginCollect/trace/consumeTrace/endCollect,
    <fiber>.trace, filterTrace, the traces dictionaries handed to buffetTraffic/cacheTraffic, numIters, *Intersector(),
    addTraces, getNumIntersects, `for` brackets);
  * C12_names_*: in the model of the compiler's two derivations of trace names (Model/TraceNames.v: registration =
    Collector.start/__build_trace_ranks/set_collecting + Metrics.get_collected_tensor_info, consumption =
    Collector.__get_trace/__build_traffic/__build_sequencers/consume_traces) every consumed name is registered when
    every active buffer binding is on the format the loop nest uses, and is NOT when one is not (finding F8).
Tie (re-established on every run, on /repo's current working tree):
  * T-val: every metrics-mode program of the population is compiled by the real compiler, parsed by CPython, translated
    fail-closed (tools/py2coq.py) and `prog_failures n (events names program)` is evaluated by the kernel's VM; every
    listed failure is a violation (witness: the first consumed name without producer).
  * T-eq: for every Einsum of every program the inputs of Model/TraceNames.v are read off the real Hardware/Metrics
    objects and the model's registrations / dump events are compared (as sets) with those of the emitted section.
"""
import ast
import json

import vlib
from vlib import cstr, clist, cnat
import py2coq
import popgen
import runlib
import specgen_c12
import specgen_metrics

LEVEL = "proof"

COQ_IMPORTS = ["TV.Model.Show", "TV.Model.Py", "TV.Model.XRef"]


# ----------------------------------------------------------------------------------------------------
# compiling
# ----------------------------------------------------------------------------------------------------

def parse_spec(yaml):
    """the specification as plain data (ruamel, through the repository's own YamlParser)"""
    from teaal.parse.yaml import YamlParser
    return json.loads(json.dumps(YamlParser.parse_str(yaml)))


def compile_item(it, stats):
    """-> (spec, text) or None when the compiler rejects / crashes on the specification (counted)."""
    try:
        spec = runlib.Spec(it["yaml"])
        text = spec.compile(arch=True)
    except Exception as e:
        k = type(e).__name__ + ": " + str(e)[:48]
        stats["rejected"][k] = stats["rejected"].get(k, 0) + 1
        return None
    return spec, text


# ----------------------------------------------------------------------------------------------------
# T-val: the cross-reference evaluated inside coqc
# ----------------------------------------------------------------------------------------------------

def xref_expr(text, n):
    prog, names = py2coq.translate(text)
    return "(xref_report %s %s %s)" % (clist(map(cstr, names)), cnat(n), prog)


def parse_report(r):
    fails, evs = r.split("#", 1)
    return [f for f in fails.split("|") if f], evs.split(";") if evs else []


# ----------------------------------------------------------------------------------------------------
# structural keys of failures (from the specification and the emitted text, not from the failure alone)
# ----------------------------------------------------------------------------------------------------

def _lit(n):
    return ast.literal_eval(n)


def _calls(node):
    for e in ast.walk(node):
        if isinstance(e, ast.Call) and isinstance(e.func, ast.Attribute) and isinstance(e.func.value, ast.Name):
            yield e.func.value.id, e.func.attr, e


def consumers_of(text):
    """{section index: [(file, consumer kind, binding dicts that name it)]} read off the dump statements."""
    out = {}
    sec = -1
    bindings = []
    filt = {}

    def visit(stmts):
        nonlocal sec, bindings, filt
        for st in stmts:
            if isinstance(st, ast.For):
                visit(st.body)
                continue
            if isinstance(st, ast.If):
                visit(st.body)
                visit(st.orelse)
                continue
            for o, m, e in _calls(st):
                if (o, m) == ("Metrics", "beginCollect"):
                    sec += 1
                    filt = {}
                    out[sec] = []
                elif (o, m) == ("Traffic", "filterTrace"):
                    a = [_lit(x) for x in e.args]
                    filt[a[2]] = (a[0], a[1])
                elif (o, m) == ("Compute", "numIters"):
                    out[sec].append((_lit(e.args[0]), "sequencer", []))
            if isinstance(st, ast.Assign) and isinstance(st.targets[0], ast.Name):
                nm = st.targets[0].id
                if nm == "bindings":
                    bindings = _lit(st.value)
                elif nm == "traces":
                    for (t, r, ty, rw), f in _lit(st.value).items():
                        bs = [b for b in bindings if b["tensor"] == t and b["rank"] == r and b["type"] == ty]
                        for g in [f] + list(filt.get(f, ())):
                            out[sec].append((g, "traffic", bs))
    visit(ast.parse(text).body)
    return out


def discordant(pspec, einsum, tensor, fname):
    """Is format `fname` of `tensor` not in the order of the loop nest of `einsum`?  None when this cannot be said from
    the specification alone (a format rank that is not a loop rank)."""
    loop = ((pspec.get("mapping") or {}).get("loop-order") or {}).get(einsum)
    try:
        order = pspec["format"][tensor][fname]["rank-order"]
    except Exception:
        return None
    if loop is None or any(r not in loop for r in order):
        return None
    return [r for r in loop if r in order] != list(order)


def failure_keys(spec, pspec, text, fails):
    """one structural key per failure string"""
    keys = []
    try:
        cons = consumers_of(text)
    except Exception:
        cons = None
    for f in fails:
        if f.startswith("unproduced: file "):
            fn = f[len("unproduced: file "):]
            key = {"kind": "consumed-unregistered", "consumer": None, "binding_format_discordant": None}
            if cons is not None:
                hits = [(s, kind, bs) for s, lst in cons.items() for (g, kind, bs) in lst if g == fn]
                if hits:
                    kinds = sorted(set(k for _, k, _ in hits))
                    key["consumer"] = "+".join(kinds)
                    ds = []
                    for s, kind, bs in hits:
                        if kind != "traffic" or not bs or s >= len(spec.outs):
                            ds.append(None)
                        for b in bs:
                            ds.append(discordant(pspec, spec.outs[s], b["tensor"], b["format"]))
                    key["binding_format_discordant"] = True if ds and all(d is True for d in ds) else (False if any(d is False for d in ds) else None)
            keys.append(key)
        elif f.startswith("unproduced: trace "):
            keys.append({"kind": "consumed-unregistered", "consumer": "intersector", "binding_format_discordant": None})
        else:
            keys.append({"kind": f.split(":")[0]})
    return keys


# ----------------------------------------------------------------------------------------------------
# population
# ----------------------------------------------------------------------------------------------------

def population(ctx):
    rng = ctx.rng
    q = ctx.quick()
    items = []
    for it in popgen.accelerators():
        items.append({"yaml": it["yaml"], "kind": it["kind"], "meta": {}})
    for _ in range(60 if q else 400):
        y, meta = specgen_metrics.gen(rng)
        items.append({"yaml": y, "kind": "generated-c11", "meta": meta})
    for it in popgen.compute_only(rng, 15 if q else 100):
        items.append({"yaml": it["yaml"], "kind": "compute-only", "meta": {}})
    for _ in range(420 if q else 4000):
        y, meta = specgen_c12.gen(rng)
        items.append({"yaml": y, "kind": "generated-c12", "meta": meta})
    return items


def count(d, k, n=1):
    d[k] = d.get(k, 0) + n


def run(ctx):
    items = population(ctx)
    stats = {"by_kind": {}, "rejected": {}, "template": {}, "intersector": {}, "einsums": {}, "features": {}}
    progs = []
    for it in items:
        r = compile_item(it, stats)
        if r is None:
            continue
        spec, text = r
        count(stats["by_kind"], it["kind"].split(":")[0])
        m = it["meta"]
        if "template" in m:
            count(stats["template"], str(m["template"]))
        if isinstance(m.get("intersector"), list):
            for ty in m["intersector"]:
                count(stats["intersector"], ty)
            for f in ("eager", "lazy", "cache", "sequencer", "partitioned", "two_formats", "discordant_format", "elem"):
                if m.get(f):
                    count(stats["features"], f)
        elif "intersector" in m:
            count(stats["intersector"], str(m["intersector"]))
        count(stats["einsums"], str(len(spec.outs)))
        progs.append((it, spec, text))
    exprs = [xref_expr(text, len(spec.outs)) for _, spec, text in progs]
    res = vlib.coq_eval_lines("c12", COQ_IMPORTS, "", exprs, shard=24)
    ev_counts = {}
    n_fail = 0
    fail_kinds = {}
    samples = []
    for (it, spec, text), r in zip(progs, res):
        fails, evs = parse_report(r)
        for e in evs:
            count(ev_counts, e.split(" ")[0])
        if len(samples) < 2 and len(evs) > 25 and not fails:
            samples.append({"kind": it["kind"], "events": evs[:60]})
        if not fails:
            continue
        n_fail += 1
        pspec = parse_spec(it["yaml"])
        keys = failure_keys(spec, pspec, text, fails)
        seen = set()
        for f, key in zip(fails, keys):
            count(fail_kinds, key["kind"])
            ks = json.dumps(key, sort_keys=True)
            if ks in seen:
                continue
            seen.add(ks)
            same = [g for g, k2 in zip(fails, keys) if k2 == key]
            ctx.violation(key, "metrics-mode program (%s): %s" % (it["kind"], "; ".join(same[:4])),
                          {"yaml": it["yaml"], "text": text, "failures": fails, "key": key, "witness": f})
    consumptions = sum(ev_counts.get(k, 0) for k in ("Traffic", "Filter", "NumIters", "Consume"))
    ctx.coverage.update({
        "programs": len(progs), "evaluations": len(progs), "disagreements_checked": n_fail,
        "distinct_nontrivial": len(set(t for _, _, t in progs if "Traffic." in t or "Intersector()" in t or "numIters" in t)),
        "specifications_generated": len(items),
        "events": ev_counts, "consuming_events": consumptions, "failing_programs": n_fail, "failures_by_kind": fail_kinds,
        "population": stats,
        "rule": "five accelerator YAMLs + C11's generated architectures + compute-only cascades + tools/specgen_c12.py: 8 Einsum templates (1-2 Einsums) x loop orders x "
                "rank orders x optional shape partitioning x 1-2 formats per tensor (concordant with the loop order or not, cbits/pbits present, zero or absent, interleaved "
                "layouts) x {DRAM, optional cache, optional second buffet, buffet} with lazy and eager bindings and evict-on ranks x 0-2 intersectors of each type (any leader) "
                "x optional sequencer; non-trivial = the dump hands at least one trace to a model",
        "samples": samples,
        "trusted_base": ["Coq 8.16.1 kernel + VM (vm_compute)", "tools/py2coq.py (fail-closed ast -> Model/Py.v)", "CPython ast.parse",
                         "Model/XRef.v `events` (which calls of the emitted text are registrations / consumptions) and `prog_ok` (the reading of the property)",
                         "tools/props/c12.py failure_keys (only chooses the structural key of an already established failure)",
                         "tools/specgen_c12.py (seeded generator; rejected specifications are counted in population.rejected)"],
    })
    ctx.assumptions += [
        "the file a registration Metrics.trace(rank, type_=t) writes is <prefix>-<rank>-<t>.csv with the prefix of the open beginCollect (fibertree behaviour, modelled as `fname`)",
        "traces whose type starts with eager_ are written only by an emitted <fiber>.trace(type); all other types are written by fibertree's iteration itself once registered",
        "'fed inside the loops' is read as: addTraces stands at the exit of a loop (closest loop bracket before it closes a loop) inside the collection window - for the outermost loop rank that is after the nest, before endCollect",
    ]


def replay(ctx, rep):
    r = rep["replay"]
    stats = {"rejected": {}}
    c = compile_item({"yaml": r["yaml"]}, stats)
    if c is None:
        print("specification no longer compiles:", stats["rejected"])
        return 0
    spec, text = c
    res = vlib.coq_eval_lines("c12r", COQ_IMPORTS, "", [xref_expr(text, len(spec.outs))])
    fails, evs = parse_report(res[0])
    print(text)
    print("events:", "; ".join(evs))
    print("failures:", fails)
    keys = failure_keys(spec, parse_spec(r["yaml"]), text, fails)
    want = r.get("key")
    hit = [f for f, k in zip(fails, keys) if want is None or k == want]
    if hit:
        print("VIOLATION property=C12 replay=<given file> %s" % hit[0])
        return 1
    return 0
