"""C12 - every trace the metrics dump consumes is produced during collection.

Theorems (coq/Props/C12.v):
  * C12_checker_iff: the decision procedure `prog_failures` (Model/XRef.v) returns no failure exactly when the
    property `prog_ok` holds on the event sequence of an emitted program (beginCollect/trace/consumeTrace/endCollect,
    <fiber>.trace, filterTrace, the traces dictionaries handed to buffetTraffic/cacheTraffic, numIters, *Intersector(),
    addTraces, getNumIntersects, `for` brackets);
  * C12_names_*: in the model of the compiler's two derivations of trace names (Model/TraceNames.v: registration =
    Collector.start/__build_trace_ranks/set_collecting + Metrics.get_collected_tensor_info, consumption =
    Collector.__get_trace/__build_traffic/__build_sequencers/consume_traces) every consumed name is registered when
    every active buffer binding is on the format the loop nest uses, and is NOT when one is not (finding F8).
Tie (re-established on every run, on /repo's current working tree):
  * T-val: every metrics-mode program of the population is compiled by the real compiler, parsed by CPython, translated
    fail-closed (tools/py2coq.py) and `prog_failures n (events names program)` is evaluated by the kernel's VM; every
    listed failure is a violation (witness: the first consumed name without producer).
  * T-eq: for every Einsum of every program the inputs of Model/TraceNames.v are read off the real Hardware/Metrics
    objects and the model's registrations / dump events are compared (as sets) with those of the emitted section.
"""
import ast
import copy
import json
import re

import vlib
from vlib import cstr, clist, cnat
import py2coq
import popgen
import runlib
import specgen_c12
import specgen_metrics

LEVEL = "translation_validation"

COQ_IMPORTS = ["TV.Model.Show", "TV.Model.Py", "TV.Model.XRef", "TV.Model.TraceNames"]


# ----------------------------------------------------------------------------------------------------
# compiling
# ----------------------------------------------------------------------------------------------------

def parse_spec(yaml):
    """the specification as plain data (ruamel, through the repository's own YamlParser)"""
    from teaal.parse.yaml import YamlParser
    return YamlParser.parse_str(yaml)


def parsed_objects(d):
    """fresh parse objects of the repository from one parsed YAML dictionary (ruamel's pure-Python loader is slow: parse once)"""
    from teaal.parse import Einsum, Mapping, Architecture, Bindings, Format
    d = copy.deepcopy(d)
    return Einsum(d), Mapping(d), Architecture(d), Bindings(d), Format(d)


def extract_cfgs(d):
    """The inputs of Model/TraceNames.v for every Einsum, read off the real Hardware / Metrics objects
    (built the way HiFiber builds them).  -> list of dicts (plain data)."""
    from teaal.ir.program import Program
    from teaal.ir.hardware import Hardware
    from teaal.ir.metrics import Metrics
    from teaal.ir.component import (BufferComponent, SequencerComponent, IntersectorComponent, LeaderFollowerComponent)
    einsum, mapping, arch, bindings, fmt = parsed_objects(d)
    program = Program(einsum, mapping)
    hardware = Hardware(arch, bindings, program)
    cfgs = []
    for i in range(len(einsum.get_expressions())):
        program.add_einsum(i)
        metrics = Metrics(program, hardware, fmt)
        eq = program.get_equation()
        out = eq.get_output().root_name()
        tensors = [t.root_name() for t in eq.get_tensors()]
        in_tree = set()
        levels = [hardware.get_tree()]
        while levels:
            lv = levels.pop()
            in_tree.update(c.get_name() for c in lv.get_local())
            levels.extend(lv.get_subtrees())
        need = set()
        buffers = []
        for comp in hardware.get_components(out, BufferComponent):
            bs = []
            for b in comp.get_bindings()[out]:
                f = fmt.get_spec(b["tensor"])[b["format"]]
                ty = b["type"]
                d = f.get(b["rank"], {})
                bits = not ((ty in ("coord", "elem") and not d.get("cbits", 0)) or (ty in ("payload", "elem") and not d.get("pbits", 0)))
                bs.append({"tensor": b["tensor"], "rank": b["rank"], "type": ty, "format": b["format"],
                           "root": b["root"] if b.get("style") == "eager" else None, "bits": bool(bits)})
                need.add((b["tensor"], b["rank"]))
            buffers.append({"in_tree": comp.get_name() in in_tree, "bindings": bs, "name": comp.get_name()})
        isects = []
        for comp in hardware.get_components(out, IntersectorComponent):
            for b in comp.get_bindings()[out]:
                isects.append({"lf": isinstance(comp, LeaderFollowerComponent), "leader": b.get("leader", ""), "rank": b["rank"]})
                for t in tensors:
                    need.add((t, b["rank"]))
        ftrace = []
        for t, r in sorted(need):
            for rd in ((True, False) if t == out else (True,)):
                try:
                    ftrace.append((t, r, rd, metrics.get_fiber_trace(t, r, rd)))
                except KeyError:
                    pass
        part = program.get_partitioning()
        final_ranks = {}
        for t in eq.get_tensors():
            if t.root_name() != out:
                final_ranks[t.root_name()] = list(part.partition_ranks(t.get_init_ranks(), part.get_all_parts(), True, True))
        fmt_ranks = []
        for t in tensors:
            for fname, f in fmt.get_spec(t).items():
                fmt_ranks.append((t, fname, [r for r in f if r != "rank-order"]))
        cfgs.append({"prefix": hardware.get_prefix(out), "output": out, "inputs": [t for t in tensors if t != out], "ftrace": ftrace,
                     "loopfmt": dict(metrics.get_loop_formats()), "fmt_ranks": fmt_ranks, "buffers": buffers,
                     "seqs": [list(c.get_ranks(out)) for c in hardware.get_components(out, SequencerComponent)],
                     "isects": isects, "final_ranks": final_ranks})
        program.reset()
    return cfgs


def work(yaml):
    """Runs in a worker process: compile with the real compiler, read the model inputs off the real objects."""
    from teaal.parse.yaml import YamlParser
    from teaal.trans.hifiber import HiFiber
    try:
        d = YamlParser.parse_str(yaml)
        einsum, mapping, arch, bindings, fmt = parsed_objects(d)
        text = str(HiFiber(einsum, mapping, arch, bindings, fmt))
        outs = [str(next(x.find_data("output")).children[0]) for x in einsum.get_expressions()]
    except Exception as e:
        return {"error": type(e).__name__ + ": " + str(e)[:48]}
    res = {"text": text, "outs": outs}
    try:
        res["cfgs"] = extract_cfgs(d)
    except Exception as e:
        res["cfgs"] = None
        res["cfg_error"] = type(e).__name__ + ": " + str(e)[:80]
    return res


def compile_all(yamls):
    import multiprocessing
    nw = max(1, min(8, vlib.NPROC))
    if nw == 1 or len(yamls) < 4:
        return [work(y) for y in yamls]
    with multiprocessing.get_context("fork").Pool(nw) as pool:
        return pool.map(work, yamls, chunksize=4)


def coq_cfg(c):
    def b(x):
        return "true" if x else "false"

    def binding(d):
        ty = {"coord": "Coord", "payload": "Payload", "elem": "Elem"}[d["type"]]
        return "(mkB %s %s %s %s %s %s)" % (cstr(d["tensor"]), cstr(d["rank"]), ty, cstr(d["format"]),
                                            "None" if d["root"] is None else "(Some %s)" % cstr(d["root"]), b(d["bits"]))
    return "(mkCfg %s %s %s %s %s %s %s %s %s %s)" % (
        cstr(c["prefix"]), cstr(c["output"]), clist(map(cstr, c["inputs"])),
        clist("((%s, %s, %s), %s)" % (cstr(t), cstr(r), b(rd), cstr(l)) for t, r, rd, l in c["ftrace"]),
        clist("(%s, %s)" % (cstr(t), cstr(f)) for t, f in c["loopfmt"].items()),
        clist("((%s, %s), %s)" % (cstr(t), cstr(f), clist(map(cstr, rs))) for t, f, rs in c["fmt_ranks"]),
        clist("(mkBuf %s %s)" % (b(bf["in_tree"]), clist(map(binding, bf["bindings"]))) for bf in c["buffers"]),
        clist(clist(map(cstr, rs)) for rs in c["seqs"]),
        clist("(mkI %s %s %s)" % (b(i["lf"]), cstr(i["leader"]), cstr(i["rank"])) for i in c["isects"]),
        clist("(%s, %s)" % (cstr(t), clist(map(cstr, rs))) for t, rs in c["final_ranks"].items()))


# ----------------------------------------------------------------------------------------------------
# T-val: the cross-reference evaluated inside coqc
# ----------------------------------------------------------------------------------------------------

_LIT = re.compile(r'"(?:[^"]|"")*"%string|\d+%positive|\(-?\d+\)%Z')


def eval_interned(tag, exprs, shard=320, timeout=1500):
    """Evaluate Gallina terms of type string under coqc (vm_compute), one result string per term.

    Differences from vlib.coq_eval_lines, both for speed on a loaded machine where loading the standard library
    costs far more than the evaluation itself: few large shards, and every distinct string / number literal of a
    shard is bound once by a Definition (Coq interprets a literal by running a conversion function, which otherwise
    dominates the elaboration of large generated terms).  Results are printed one per term (a single concatenated
    string of megabytes overflows the printer's stack)."""
    import os
    import subprocess
    from concurrent.futures import ThreadPoolExecutor
    os.makedirs(vlib.GENDIR, exist_ok=True)
    groups = [exprs[i:i + shard] for i in range(0, len(exprs), shard)]

    def one(arg):
        k, group = arg
        table = {}

        def sub(m):
            lit = m.group(0)
            if lit not in table:
                table[lit] = "l%d_" % len(table)
            return table[lit]
        bodies = [_LIT.sub(sub, e) for e in group]
        name = "g_%s_%d_%d" % (tag, os.getpid(), k)
        path = os.path.join(vlib.GENDIR, name + ".v")
        with open(path, "w") as f:
            f.write("From Coq Require Import String List ZArith.\n")
            for m in COQ_IMPORTS:
                f.write("Require Import %s.\n" % m)
            f.write("Import ListNotations.\nOpen Scope string_scope.\nSet Printing Width 1000000.\nSet Printing Depth 10000000.\n")
            for lit, v in table.items():
                f.write("Definition %s := %s.\n" % (v, lit))
            for b in bodies:
                f.write("Eval vm_compute in (%s).\n" % b)
        pr = subprocess.run(["timeout", str(timeout), "coqc", "-q", "-Q", vlib.COQDIR, "TV", "-w", "-all", path], cwd=vlib.GENDIR,
                            stdout=subprocess.PIPE, stderr=subprocess.STDOUT, text=True, preexec_fn=vlib._big_stack)
        out = pr.stdout
        chunks = out.split("\n     : string\n")
        vals = []
        for ch in chunks[:-1]:
            i = ch.find('     = "')
            if i < 0 or not ch.endswith('"'):
                vals = None
                break
            vals.append(ch[i + len('     = "'):-1].replace('""', '"'))
        if pr.returncode != 0 or vals is None or len(vals) != len(bodies):
            raise vlib.CoqBuildError("coqc failed on generated case file %s" % path, out[-3000:])
        for ext in (".v", ".vo", ".vok", ".vos", ".glob"):
            try:
                os.remove(os.path.join(vlib.GENDIR, name + ext))
            except OSError:
                pass
        try:
            os.remove(os.path.join(vlib.GENDIR, "." + name + ".aux"))
        except OSError:
            pass
        return vals
    with ThreadPoolExecutor(max_workers=max(1, min(vlib.NPROC, 12))) as ex:
        parts = list(ex.map(one, enumerate(groups)))
    return [r for part in parts for r in part]


def xref_expr(text, n):
    prog, names = py2coq.translate(text)
    return "(xref_report %s %s %s)" % (clist(map(cstr, names)), cnat(n), prog)


def parse_report(r):
    fails, evs = r.split("#", 1)
    return [f for f in fails.split("|") if f], evs.split(";") if evs else []


# ----------------------------------------------------------------------------------------------------
# structural keys of failures (from the specification and the emitted text, not from the failure alone)
# ----------------------------------------------------------------------------------------------------

def _lit(n):
    return ast.literal_eval(n)


def _calls(node):
    for e in ast.walk(node):
        if isinstance(e, ast.Call) and isinstance(e.func, ast.Attribute) and isinstance(e.func.value, ast.Name):
            yield e.func.value.id, e.func.attr, e


def consumers_of(text):
    """{section index: [(file, consumer kind, binding dicts that name it)]} read off the dump statements."""
    out = {}
    sec = -1
    env = {}
    filt = {}

    def value(e):
        if isinstance(e, ast.Name):
            return env.get(e.id)
        try:
            return _lit(e)
        except Exception:
            return None

    def visit(stmts):
        nonlocal sec, filt
        for st in stmts:
            if isinstance(st, ast.For):
                visit(st.body)
                continue
            if isinstance(st, ast.If):
                visit(st.body)
                visit(st.orelse)
                continue
            for o, m, e in _calls(st):
                if (o, m) == ("Metrics", "beginCollect"):
                    sec += 1
                    filt = {}
                    out[sec] = []
                elif (o, m) == ("Traffic", "filterTrace"):
                    a = [_lit(x) for x in e.args]
                    filt[a[2]] = (a[0], a[1])
                elif (o, m) == ("Compute", "numIters"):
                    out[sec].append((_lit(e.args[0]), "sequencer", []))
                elif o == "Traffic" and m in ("buffetTraffic", "cacheTraffic"):
                    bindings = value(e.args[0]) or []
                    for (t, r, ty, rw), f in (value(e.args[2]) or {}).items():
                        bs = [b for b in bindings if b["tensor"] == t and b["rank"] == r and b["type"] == ty]
                        for g in [f] + list(filt.get(f, ())):
                            out[sec].append((g, "traffic", bs))
            if isinstance(st, ast.Assign) and isinstance(st.targets[0], ast.Name):
                try:
                    env[st.targets[0].id] = _lit(st.value)
                except Exception:
                    env.pop(st.targets[0].id, None)
    visit(ast.parse(text).body)
    return out


def discordant(pspec, einsum, tensor, fname):
    """Is format `fname` of `tensor` not in the order of the loop nest of `einsum`?  None when this cannot be said from
    the specification alone (a format rank that is not a loop rank)."""
    loop = ((pspec.get("mapping") or {}).get("loop-order") or {}).get(einsum)
    try:
        order = pspec["format"][tensor][fname]["rank-order"]
    except Exception:
        return None
    if loop is None or any(r not in loop for r in order):
        return None
    return [r for r in loop if r in order] != list(order)


def failure_keys(outs, pspec, text, fails):
    """one structural key per failure string"""
    keys = []
    try:
        cons = consumers_of(text)
    except Exception:
        cons = None
    for f in fails:
        if f.startswith("unproduced: file "):
            fn = f[len("unproduced: file "):]
            key = {"kind": "consumed-unregistered", "consumer": None, "binding_format_discordant": None}
            if cons is not None:
                hits = [(s, kind, bs) for s, lst in cons.items() for (g, kind, bs) in lst if g == fn]
                if hits:
                    kinds = sorted(set(k for _, k, _ in hits))
                    key["consumer"] = "+".join(kinds)
                    ds = []
                    for s, kind, bs in hits:
                        if kind != "traffic" or not bs or s >= len(outs):
                            ds.append(None)
                        for b in bs:
                            ds.append(discordant(pspec, outs[s], b["tensor"], b["format"]))
                    key["binding_format_discordant"] = True if ds and all(d is True for d in ds) else (False if any(d is False for d in ds) else None)
            keys.append(key)
        elif f.startswith("unproduced: trace "):
            keys.append({"kind": "consumed-unregistered", "consumer": "intersector", "binding_format_discordant": None})
        else:
            keys.append({"kind": f.split(":")[0]})
    return keys


# ----------------------------------------------------------------------------------------------------
# population
# ----------------------------------------------------------------------------------------------------

def population(ctx):
    rng = ctx.rng
    q = ctx.quick()
    items = []
    for it in popgen.accelerators():
        items.append({"yaml": it["yaml"], "kind": it["kind"], "meta": {}})
    for _ in range(40 if q else 400):
        y, meta = specgen_metrics.gen(rng)
        items.append({"yaml": y, "kind": "generated-c11", "meta": meta})
    for it in popgen.compute_only(rng, 10 if q else 100):
        items.append({"yaml": it["yaml"], "kind": "compute-only", "meta": {}})
    for _ in range(400 if q else 3000):
        y, meta = specgen_c12.gen(rng)
        items.append({"yaml": y, "kind": "generated-c12", "meta": meta})
    for _ in range(40 if q else 300):
        y, meta = specgen_c12.gen_sigma(rng)
        items.append({"yaml": y, "kind": "generated-c12-sigma", "meta": meta})
    return items


def count(d, k, n=1):
    d[k] = d.get(k, 0) + n


def sections_of(evs):
    """event strings of one program -> list of sections (lists of event strings, Begin excluded)"""
    secs = []
    for e in evs:
        if e.startswith("Begin "):
            secs.append([])
        elif secs:
            secs[-1].append(e)
    return secs


def canon_dump(evs):
    """order-insensitive view of the trace-consuming part of a section's dump"""
    out = []
    for e in evs:
        if e.startswith("Traffic "):
            out.append("Traffic " + ",".join(sorted(set(e[len("Traffic "):].split(",")))))
        elif e.startswith(("Filter ", "NumIters ")):
            out.append(e)
    return sorted(set(out))


def compare_names1(sec, model):
    hyp, regs, dump, feed = model.split("#")
    diffs = []
    t_regs = sorted(set(e[4:] for e in sec if e.startswith("Reg ")))
    m_regs = sorted(set(x for x in regs.split(";") if x))
    if t_regs != m_regs:
        diffs.append("registrations: only in text %s, only in model %s" % (sorted(set(t_regs) - set(m_regs)), sorted(set(m_regs) - set(t_regs))))
    t_dump = canon_dump(sec)
    m_dump = canon_dump([x for x in dump.split(";") if x])
    if t_dump != m_dump:
        diffs.append("dump: only in text %s, only in model %s" % (sorted(set(t_dump) - set(m_dump)), sorted(set(m_dump) - set(t_dump))))
    t_feed = sorted(set(e for e in sec if e.startswith("Consume ")))
    m_feed = sorted(set(x for x in feed.split(";") if x))
    if t_feed != m_feed:
        diffs.append("intersector feeds: only in text %s, only in model %s" % (sorted(set(t_feed) - set(m_feed)), sorted(set(m_feed) - set(t_feed))))
    return hyp == "T", diffs


def compare_names(sec, model):
    """section of the emitted text vs Model/TraceNames.v on the inputs read off the real objects.  The model is evaluated
    as the compiler stands and with the proposed repair of F8; the section must follow one of the two.
    -> (hypothesis of the matching variant holds, differences (to the as-is variant when neither matches), variant)"""
    pinned, repaired = model.split("@")
    h1, d1 = compare_names1(sec, pinned)
    if not d1:
        return h1, [], "as-is"
    h2, d2 = compare_names1(sec, repaired)
    if not d2:
        return h2, [], "repaired"
    return h1, d1, "neither"


def evaluate(progs, tag):
    """progs: list of work() results that compiled -> [(failures, events, [(hyp, diffs) per Einsum] or None)]"""
    exprs = []
    slots = []
    for r in progs:
        a = len(exprs)
        exprs.append(xref_expr(r["text"], len(r["outs"])))
        n = 0
        if r.get("cfgs") is not None:
            for c in r["cfgs"]:
                exprs.append("(names_report %s)" % coq_cfg(c))
                n += 1
        slots.append((a, n))
    res = eval_interned(tag, exprs)
    out = []
    for r, (a, n) in zip(progs, slots):
        fails, evs = parse_report(res[a])
        names = None
        if r.get("cfgs") is not None:
            secs = sections_of(evs)
            if len(secs) == n:
                names = [compare_names(sec, res[a + 1 + k]) for k, sec in enumerate(secs)]
        out.append((fails, evs, names))
    return out


# the specification of theorem C12_names_unselected_format_refuted (Proofs/TraceNamesProofs.v, f8_cfg), replayed on the implementation
F8_WITNESS = json.dumps({
    "einsum": {"declaration": {"A": ["K", "M"], "B": ["K", "N"], "Z": ["M", "N"]}, "expressions": ["Z[m, n] = A[k, m] * B[k, n]"]},
    "mapping": {"rank-order": {"A": ["M", "K"], "B": ["K", "N"], "Z": ["M", "N"]}, "loop-order": {"Z": ["M", "K", "N"]},
                "spacetime": {"Z": {"space": [], "time": ["M", "K", "N"]}}},
    "format": {"A": {"default": {"rank-order": ["K", "M"], "K": {"format": "C", "cbits": 32, "pbits": 32}, "M": {"format": "C", "cbits": 32, "pbits": 64}}},
               "B": {"default": {"rank-order": ["K", "N"], "K": {"format": "C", "cbits": 32, "pbits": 32}, "N": {"format": "C", "cbits": 32, "pbits": 64}}},
               "Z": {"default": {"rank-order": ["M", "N"], "M": {"format": "U", "pbits": 32}, "N": {"format": "C", "cbits": 32, "pbits": 64}}}},
    "architecture": {"Accel": [{"name": "System", "attributes": {"clock_frequency": 1000},
                                "local": [{"name": "Memory", "class": "DRAM", "attributes": {"bandwidth": 512}}],
                                "subtree": [{"name": "PE", "local": [{"name": "RegFile", "class": "Buffet", "attributes": {"width": 64, "depth": 128}},
                                                                     {"name": "Mul", "class": "compute", "attributes": {"type": "mul"}}]}]}]},
    "bindings": {"Z": [{"config": "Accel", "prefix": "tmp/Z"},
                       {"component": "RegFile", "bindings": [{"tensor": "A", "rank": "K", "type": "payload", "format": "default", "evict-on": "root"}]},
                       {"component": "Mul", "bindings": [{"op": "mul"}]}]}}, indent=1)


def run(ctx):
    items = population(ctx)
    items.insert(0, {"yaml": F8_WITNESS, "kind": "witness-F8", "meta": {}})
    stats = {"by_kind": {}, "rejected": {}, "template": {}, "intersector": {}, "einsums": {}, "features": {}, "model_inputs_unreadable": {}}
    results = compile_all([it["yaml"] for it in items])
    progs = []
    for it, r in zip(items, results):
        if "error" in r:
            count(stats["rejected"], r["error"])
            continue
        count(stats["by_kind"], it["kind"].split(":")[0])
        m = it["meta"]
        if "template" in m:
            count(stats["template"], str(m["template"]))
        if isinstance(m.get("intersector"), list):
            for ty in m["intersector"]:
                count(stats["intersector"], ty)
            for f in ("eager", "lazy", "cache", "sequencer", "partitioned", "two_formats", "discordant_format", "elem"):
                if m.get(f):
                    count(stats["features"], f)
        elif "intersector" in m:
            count(stats["intersector"], str(m["intersector"]))
        count(stats["einsums"], str(len(r["outs"])))
        if r.get("cfgs") is None:
            count(stats["model_inputs_unreadable"], r.get("cfg_error", "?"))
        r["item"] = it
        progs.append(r)
    evald = evaluate(progs, "c12")
    ev_counts = {}
    n_fail = 0
    fail_kinds = {}
    samples = []
    teq = {"sections_compared": 0, "agree": 0, "hypothesis_holds": 0, "hypothesis_fails": 0, "disagree": 0, "not_compared": 0}
    witness_seen = False
    for r, (fails, evs, names) in zip(progs, evald):
        it, text = r["item"], r["text"]
        for e in evs:
            count(ev_counts, e.split(" ")[0])
        if len(samples) < 2 and len(evs) > 25 and not fails:
            samples.append({"kind": it["kind"], "events": evs[:60]})
        if it["kind"] == "witness-F8":
            witness_seen = any(f == "unproduced: file tmp/Z-K-intersect_0.csv" for f in fails)
        # ---- T-eq: the model of the name derivations against the emitted section ---------------------
        if names is None:
            teq["not_compared"] += 1
        else:
            for k, (hyp, diffs, variant) in enumerate(names):
                count(teq, "follows_" + variant)
                teq["sections_compared"] += 1
                teq["hypothesis_holds" if hyp else "hypothesis_fails"] += 1
                if not diffs:
                    teq["agree"] += 1
                    if hyp and any(f.startswith("unproduced: file") for f in fails) and len(names) == 1:
                        ctx.violation({"kind": "model-inconsistent"}, "Model/TraceNames.v agrees with the emitted section and its hypothesis holds, yet the cross-reference "
                                      "finds an unproduced file: %s" % fails[:3], {"yaml": it["yaml"], "text": text, "failures": fails}, no_input=True)
                    continue
                teq["disagree"] += 1
                if not fails:
                    ctx.violation({"kind": "model-correspondence"},
                                  "Model/TraceNames.v and the compiler derive different trace names for Einsum %s (the emitted program itself passes the cross-reference, "
                                  "so theorems C12_names_* no longer cover the code): %s" % (r["outs"][k], "; ".join(diffs)[:400]),
                                  {"yaml": it["yaml"], "text": text, "einsum": r["outs"][k], "differences": diffs, "model_inputs": r["cfgs"][k],
                                   "correspondence": "T-eq Model/TraceNames.v registered/dump_events/feed_events vs the events of the emitted section"}, no_input=True)
        # ---- T-val: the cross-reference ----------------------------------------------------------------
        if not fails:
            continue
        n_fail += 1
        pspec = parse_spec(it["yaml"])
        keys = failure_keys(r["outs"], pspec, text, fails)
        seen = set()
        for f, key in zip(fails, keys):
            count(fail_kinds, key["kind"])
            ks = json.dumps(key, sort_keys=True)
            if ks in seen:
                continue
            seen.add(ks)
            same = [g for g, k2 in zip(fails, keys) if k2 == key]
            ctx.violation(key, "metrics-mode program (%s): %s" % (it["kind"], "; ".join(same[:4])),
                          {"yaml": it["yaml"], "text": text, "failures": fails, "key": key, "witness": f})
    if not witness_seen and "witness-F8" in stats["by_kind"]:
        ctx.notes.append("the witness of theorem C12_names_unselected_format_refuted no longer fails on the implementation (F8 fixed?)")
    consumptions = sum(ev_counts.get(k, 0) for k in ("Traffic", "Filter", "NumIters", "Consume"))
    ctx.coverage.update({
        "programs": len(progs), "evaluations": len(progs) + teq["sections_compared"], "disagreements_checked": n_fail + teq["disagree"],
        "distinct_nontrivial": len(set(r["text"] for r in progs if "Traffic." in r["text"] or "Intersector()" in r["text"] or "numIters" in r["text"])),
        "specifications_generated": len(items),
        "events": ev_counts, "consuming_events": consumptions, "failing_programs": n_fail, "failures_by_kind": fail_kinds,
        "name_model_correspondence": teq, "f8_witness_fails_on_implementation": witness_seen,
        "population": stats,
        "rule": "five accelerator YAMLs + C11's generated architectures + compute-only cascades + tools/specgen_c12.py: 11 Einsum templates (1-2 Einsums, up to 4 loop ranks, 2- and 3-way intersections, multi-character tensor names) x loop orders x "
                "rank orders x optional shape partitioning x 1-2 formats per tensor (concordant with the loop order or not, cbits/pbits present, zero or absent, interleaved "
                "layouts) x {DRAM, optional cache, optional second buffet, buffet} with lazy and eager bindings and evict-on ranks x 0-2 intersectors of each type (any leader) "
                "x optional sequencer; non-trivial = the dump hands at least one trace to a model",
        "samples": samples,
        "trusted_base": ["Coq 8.16.1 kernel + VM (vm_compute)", "tools/py2coq.py (fail-closed ast -> Model/Py.v)", "CPython ast.parse",
                         "Model/XRef.v `events` (which calls of the emitted text are registrations / consumptions) and `prog_ok` (the reading of the property)",
                         "tools/props/c12.py extract_cfgs (reads the inputs of Model/TraceNames.v off Hardware/Metrics objects) and failure_keys (chooses the structural key of an established failure)",
                         "tools/specgen_c12.py (seeded generator; rejected specifications are counted in population.rejected)"],
    })
    ctx.assumptions += [
        "the file a registration Metrics.trace(rank, type_=t) writes is <prefix>-<rank>-<t>.csv with the prefix of the open beginCollect (fibertree behaviour, modelled as `fname`)",
        "traces whose type starts with eager_ are written only by an emitted <fiber>.trace(type); all other types are written by fibertree's iteration itself once registered",
        "'fed inside the loops' is read as: addTraces stands at the exit of a loop (closest loop bracket before it closes a loop) inside the collection window - for the outermost loop rank that is after the nest, before endCollect",
    ]


def replay(ctx, rep):
    r = rep["replay"]
    w = work(r["yaml"])
    if "error" in w:
        print("specification no longer compiles:", w["error"])
        return 0
    (fails, evs, names), = evaluate([w], "c12r")
    print(w["text"])
    print("events:", "; ".join(evs))
    print("failures:", fails)
    print("name model (hypothesis holds, differences) per Einsum:", names)
    want = rep.get("key") or r.get("key")
    if want and want.get("kind") in ("model-correspondence", "model-inconsistent"):
        bad = (names is None or any(d for _, d, _ in names)) if want["kind"] == "model-correspondence" else bool(fails)
        if bad:
            print("VIOLATION property=C12 replay=<given file> %s" % want["kind"])
            return 1
        return 0
    keys = failure_keys(w["outs"], parse_spec(r["yaml"]), w["text"], fails)
    hit = [f for f, k in zip(fails, keys) if want is None or k == want]
    if hit:
        print("VIOLATION property=C12 replay=<given file> %s" % hit[0])
        return 1
    return 0
