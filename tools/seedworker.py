"""Compile a list of specifications under the current PYTHONHASHSEED (C08).
usage: seedworker.py <in.json> <out.json>   ; in: [{"yaml":..., "arch": bool}]"""
import json
import os
import sys

sys.path.insert(0, os.path.dirname(os.path.abspath(__file__)))
import vlib  # noqa

vlib.setup_repo_path()
import runlib  # noqa

# VERIF_PERMSET=k: every set the compiler builds with `set(...)` iterates in an order that is a fixed pseudo-random
# permutation (keyed by k) of its elements - iteration orders CPython's hash seeds alone would rarely produce.  The name
# `set` is shadowed in the globals of every teaal module (no change to the repository).
PERM = os.environ.get("VERIF_PERMSET")
if PERM:
    import hashlib
    import importlib
    import pkgutil
    import teaal

    class PermSet(set):
        def __iter__(self):
            items = list(set.__iter__(self))
            items.sort(key=lambda x: hashlib.md5((repr(x) + "#" + PERM).encode()).digest())
            return iter(items)

    for m in pkgutil.walk_packages(teaal.__path__, "teaal."):
        try:
            mod = importlib.import_module(m.name)
        except Exception:
            continue
        if "set" not in vars(mod):
            mod.set = PermSet

items = json.load(open(sys.argv[1]))
out = []
for it in items:
    try:
        spec = runlib.Spec(it["yaml"])
        if it.get("arch", False):
            # all five sections parsed ONCE; the same parsed objects are handed to the translator twice
            from teaal.parse import Architecture, Bindings, Format
            from teaal.trans.hifiber import HiFiber
            parsed = (spec.einsum, spec.mapping, Architecture.from_str(it["yaml"]), Bindings.from_str(it["yaml"]), Format.from_str(it["yaml"]))
            compile_ = lambda: str(HiFiber(*parsed))
        else:
            compile_ = lambda: spec.compile(arch=False)
        t1 = compile_()
        # same objects compiled twice in one process
        try:
            t2 = compile_()
            out.append({"text": t1, "twice_equal": t1 == t2})
        except Exception as e2:
            out.append({"text": t1, "twice_equal": False, "second_error": type(e2).__name__ + ": " + str(e2)[:100]})
    except Exception as e:
        out.append({"error": type(e).__name__ + ": " + str(e)[:100]})
json.dump(out, open(sys.argv[2], "w"))
