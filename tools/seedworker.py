"""Compile a list of specifications under the current PYTHONHASHSEED (C08).
usage: seedworker.py <in.json> <out.json>   ; in: [{"yaml":..., "arch": bool}]"""
import json
import os
import sys

sys.path.insert(0, os.path.dirname(os.path.abspath(__file__)))
import vlib  # noqa

vlib.setup_repo_path()
import runlib  # noqa

items = json.load(open(sys.argv[1]))
out = []
for it in items:
    try:
        spec = runlib.Spec(it["yaml"])
        t1 = spec.compile(arch=it.get("arch", False))
        # same objects compiled twice in one process
        t2 = spec.compile(arch=it.get("arch", False))
        out.append({"text": t1, "twice_equal": t1 == t2})
    except Exception as e:
        out.append({"error": type(e).__name__ + ": " + str(e)[:100]})
json.dump(out, open(sys.argv[2], "w"))
