"""Kernel evaluation of the certified rank-id checker (coq/Model/RankTy.v) on emitted programs.

`analyse(items, tag)`: items = [(spec, text, syms)], returns one dict per item:
   verdict   'OK' | 'BAD' | 'UNBOUND' | 'NAME' | 'MISSING' | 'UNTRANSLATABLE' | 'SYNTAXERROR'
   detail    the reason / the offending variable
   final     {variable name: ('U',) | ('M'|'m', [ids]) | ('T',) | ('N',) | ('D',)}   (tensor-named variables, abstract final state)
The context handed to the checker is computed from the specification alone:
   inputs    <T>_<rank order> -> rank order, for every declared tensor that no Einsum produces
   globals   the API names of runlib.API_NAMES
   others    declared rank names (extents), scalar operands, symbolic sizes
   names     every identifier of the program spelled <T>_<Ranks>[_flat] with T declared: <Ranks> as spelled, and the exact
             rank list when the identifier is <T>_<declared-or-rank-order ranks> (there the specification fixes the list)
   required  <T>_<declared-or-rank-order ranks> of every declared tensor (inputs and results must be bound at the end)
"""
import vlib
from vlib import cstr, clist, copt
import py2coq
import runlib

COQ_IMPORTS = ["TV.Model.Show", "TV.Model.Py", "TV.Model.RankTy"]


def sym_names(spec):
    syms = set()
    for out, parts in (spec.mapping.get_partitioning() or {}).items():
        for key, dirs in parts.items():
            for d in dirs:
                for sz in d.find_data("str_sz"):
                    syms.add(str(sz.children[0]))
    return syms


def build_ctx(spec, text, syms=None):
    """-> (Coq term of type rctx, Coq term of the program, names table, list of tensor-named identifiers)"""
    prog, names = py2coq.translate(text)
    tr = py2coq.Translator(names)
    present = set(names)
    inputs = [(t, spec.var_name(t)) for t in spec.inputs()]
    in_vars = set(v for _, v in inputs)
    c_inputs = clist("(%s, %s)" % (tr.ident(v), clist(map(cstr, spec.order(t)))) for t, v in inputs)
    c_globals = clist("(%s, %s)" % (tr.ident(n), cstr(n)) for n in names if n in runlib.API_NAMES and n not in in_vars)
    others = set(r for rs in spec.decl.values() for r in rs) | set(spec.scalars) | set(syms or {}) | sym_names(spec)
    c_others = clist(tr.ident(n) for n in sorted(others) if n in present and n not in in_vars and n not in runlib.API_NAMES)
    exact = {spec.var_name(t): list(spec.order(t)) for t in spec.decl}
    named = []
    for n in list(tr.names):
        m = runlib.NAME_RE.match(n)
        if m and m.group(1) in spec.decl:
            named.append(n)
    for v in exact:
        if v not in named:
            named.append(v)
    c_names = clist("(%s, (%s, %s))" % (tr.ident(n), cstr(runlib.NAME_RE.match(n).group(2)),
                                        copt(clist(map(cstr, exact[n])) if n in exact else None)) for n in named)
    c_required = clist(tr.ident(v) for v in exact)
    ctx = "(mkCtx %s %s %s %s %s)" % (c_inputs, c_globals, c_others, c_names, c_required)
    return ctx, prog, tr.names, named


def parse_final(s, names):
    out = {}
    for item in s.split(" "):
        if not item:
            continue
        idx, _, rest = item.partition(":")
        n = names[int(idx) - 1]
        if rest[:2] in ("M:", "m:"):
            out[n] = (rest[0], [x for x in rest[2:].split(",") if x != ""])
        else:
            out[n] = (rest,)
    return out


def parse_report(r, names):
    head, _, fin = r.partition("|")
    d = {"raw": r, "final": parse_final(fin, names) if fin else {}}
    if head == "OK":
        d["verdict"], d["detail"] = "OK", ""
    elif head.startswith("BAD:"):
        d["verdict"], d["detail"] = "BAD", r[4:]
        d["final"] = {}
    elif head.startswith("UNBOUND:"):
        d["verdict"], d["detail"] = "UNBOUND", names[int(head[8:]) - 1]
    elif head.startswith("NAME:"):
        d["verdict"], d["detail"] = "NAME", names[int(head[5:]) - 1]
    elif head.startswith("MISSING:"):
        d["verdict"], d["detail"] = "MISSING", names[int(head[8:]) - 1]
    else:
        d["verdict"], d["detail"] = "BAD", "unparsable checker output: " + r[:80]
    return d


def analyse(items, tag, shard=40):
    exprs, ok, out = [], [], [None] * len(items)
    for k, (spec, text, syms) in enumerate(items):
        try:
            ctx, prog, names, named = build_ctx(spec, text, syms)
        except SyntaxError as e:
            out[k] = {"verdict": "SYNTAXERROR", "detail": str(e), "final": {}}
            continue
        except py2coq.Unsupported as e:
            out[k] = {"verdict": "UNTRANSLATABLE", "detail": str(e), "final": {}}
            continue
        exprs.append("(rankty_report %s %s)" % (ctx, prog))
        ok.append((k, names))
    res = vlib.coq_eval_lines(tag, COQ_IMPORTS, "", exprs, shard=shard)
    for (k, names), r in zip(ok, res):
        out[k] = parse_report(r, names)
    return out
