"""Occupancy partitioning whose levels have DIFFERENT leaders (K: [uniform_occupancy(A.4), uniform_occupancy(B.2)]): the
follower of one level is the leader of the next, so which tensor is split by `splitEqual` and which by
`splitNonUniform`, and which fiber carries the intermediate name `K1I`, changes from level to level.  The shared
`specgen.occupancy_mapping` draws one leader per rank."""
import specgen


def multi_leader_occupancy(rng, tries=20):
    """-> dict(yaml, syms, kind, es, mapping) or None"""
    for _ in range(tries):
        es = specgen.gen_product_einsum(rng, max_ranks=3, max_factors=3)
        cands = [r for r in es["ranks"] if len(specgen.holders(es, r)) >= 2]
        if not cands:
            continue
        m = specgen.random_mapping(rng, es, loop_order_p=0.0)
        out = es["out"]
        r = rng.choice(cands)
        hs = specgen.holders(es, r)
        n = rng.choice([2, 2, 3])
        ds = []
        if rng.random() < 0.25:
            ds.append("uniform_shape(%d)" % rng.randint(3, 6))
        size = rng.randint(2, 5)
        prev = None
        for i in range(n):
            leader = rng.choice([h for h in hs if h != prev])
            prev = leader
            ds.append("uniform_occupancy(%s.%d)" % (leader, size))
            size = max(1, size // 2)
        m["partitioning"] = {out: {r: ds}}
        outr = es["decl"][out]
        units = [specgen.levels_of(r, len(ds)) if x == r else [x] for x in list(outr) + [x for x in es["ranks"] if x not in outr]]
        rng.shuffle(units)
        seqs = [list(u) for u in units]
        loop = []
        while any(seqs):
            s = rng.choice([q for q in seqs if q])
            loop.append(s.pop(0))
        m["loop-order"] = {out: loop}
        return {"yaml": specgen.yaml_of(es["decl"], [es["expr"]], m), "syms": {}, "kind": "occupancy-leaders", "es": es, "mapping": m}
    return None
