"""Consistent renaming of the rank names of a generated specification (the shared generators in specgen.py only ever use
J, K, M, N).  Works on the YAML text and on the small metadata the property modules keep (loop orders, spacetimes):
every token made of the letters J, K, M, N optionally followed by level digits (`K`, `K1`, `MK0`, `KMJ2`) is a rank, a
partition level, or a flattened rank (concatenation of its constituents) and is rewritten letter by letter; inside the
brackets of the Einsum expressions the index variables j, k, m, n are rewritten likewise.  Symbolic size names (`KUS0`,
`MWS1`: contain U/W/S) and tensor names (never J, K, M, N in the generators) are left alone.

New names include names that are also common tensor names (I, O, T, U, L), names ending in I (the compiler's marker of
an intermediate level, `K1I`) and two-letter names; no chosen name is a concatenation of other chosen names."""
import re

SINGLE = ["I", "X", "Y", "W", "V", "T", "U", "L", "O"]
MULTI = ["KI", "NB", "MI", "JI", "NI"]
_TOKEN = re.compile(r'\b([JKMN]+)(\d*)\b')


def make_map(rng, keep_p=0.25):
    """letter -> new name for J, K, M, N (each letter keeps its name with probability keep_p)"""
    singles = rng.sample(SINGLE, 4)
    multi = rng.choice(MULTI) if rng.random() < 0.6 else None
    m = {}
    for i, c in enumerate("JKMN"):
        m[c] = c if rng.random() < keep_p else singles[i]
    if multi is not None:
        # the kept letters must not spell the two-letter name when flattened together (K + I = KI)
        c = rng.choice("JKMN")
        others = set(v for k, v in m.items() if k != c)
        if not (multi[0] in others and multi[1] in others):
            m[c] = multi
    if len(set(m.values())) < 4:
        return make_map(rng, keep_p)
    return m


def token(t, m):
    """`K1` -> `X1`, `MK0` -> `YX0`, `K1.coord` -> `X1.coord`; anything else unchanged"""
    head, dot, style = t.partition(".")
    mm = re.match(r'^([JKMN]+)(\d*)$', head)
    if not mm:
        return t
    return "".join(m[c] for c in mm.group(1)) + mm.group(2) + dot + style


def yaml_text(y, m):
    out = []
    for line in y.split("\n"):
        if line.lstrip().startswith("- ") and "=" in line:
            # an Einsum expression: index variables inside brackets
            def br(mo):
                return "[" + re.sub(r'\b([jkmn])\b', lambda v: m[v.group(1).upper()].lower(), mo.group(1)) + "]"
            line = re.sub(r'\[([^\]]*)\]', br, line)
        else:
            line = _TOKEN.sub(lambda mo: "".join(m[c] for c in mo.group(1)) + mo.group(2), line)
        out.append(line)
    return "\n".join(out)


def spacetime(st, m):
    st2 = {"space": [token(x, m) for x in st["space"]], "time": [token(x, m) for x in st["time"]]}
    if st.get("opt"):
        st2["opt"] = st["opt"]
    return st2


def mapping(mp, m):
    """rename a generator's mapping dict (rank-order / partitioning / loop-order / spacetime)"""
    out = {}
    for sec, v in mp.items():
        if sec in ("rank-order", "loop-order"):
            out[sec] = {t: [token(r, m) for r in rs] for t, rs in v.items()}
        elif sec == "partitioning":
            out[sec] = {}
            for t, parts in v.items():
                out[sec][t] = {}
                for r, ds in parts.items():
                    r2 = "(%s)" % ", ".join(token(x.strip(), m) for x in r[1:-1].split(",")) if r.startswith("(") else token(r, m)
                    out[sec][t][r2] = [_TOKEN.sub(lambda mo: "".join(m[c] for c in mo.group(1)) + mo.group(2), d) for d in ds]
        elif sec == "spacetime":
            out[sec] = {t: spacetime(st, m) for t, st in v.items()}
        else:
            out[sec] = v
    return out
