"""Kernel-evaluated execution of emitted programs for populations of
specifications (shared by C01-C08, C11, C16)."""
import re

import vlib
import runlib
import py2coq


class Case:
    def __init__(self, spec, text, extents, data, scal, meta=None, extra_ints=None, check_outputs=True):
        self.spec = spec
        self.text = text
        self.extents = extents
        self.data = data
        self.scal = scal
        self.meta = meta or {}
        self.extra_ints = extra_ints or {}
        self.check_outputs = check_outputs
        self.names = None
        self.result = None

    def replay(self):
        return {"yaml": self.spec.yaml, "text": self.text, "extents": self.extents,
                "inputs": {t: {",".join(map(str, k)): v for k, v in d.items()} for t, d in self.data.items()},
                "scalars": self.scal, "extra_ints": self.extra_ints, "meta": self.meta, "result": self.result}


def parse_report(r, names):
    if r.startswith("ERR "):
        d = {"status": "ERR", "err": r[4:]}
        m = re.match(r'unbound:(\d+)', r[4:])
        if m:
            d["unbound"] = names[int(m.group(1)) - 1]
        return d
    parts = r.split(";")
    return {"status": "RAN", "out": parts[1], "inp": parts[2], "names": parts[3], "extra": parts[4:]}


def evaluate(cases, tag, expr_fn=None, shard=40, imports=None):
    """Translate and run all cases inside coqc. Fills case.result (dict)."""
    exprs = []
    ok = []
    for c in cases:
        try:
            term, names = runlib.build_case(c.spec, c.text, c.extents, c.data, c.scal, c.extra_ints, c.check_outputs)
        except py2coq.Unsupported as e:
            c.result = {"status": "UNTRANSLATABLE", "err": str(e)}
            continue
        except SyntaxError as e:
            c.result = {"status": "SYNTAXERROR", "err": str(e)}
            continue
        c.names = names
        exprs.append((expr_fn or (lambda t: "(report %s)" % t))(term))
        ok.append(c)
    res = vlib.coq_eval_lines(tag, runlib.COQ_IMPORTS + list(imports or []), "", exprs, shard=shard)
    for c, r in zip(ok, res):
        c.raw = r
        c.result = parse_report(r, c.names)
    return cases


def parse_data(s):
    """'0,1=3 2,0=4' -> {('0','1'): 3.0, ...} (coordinates kept as strings; rank-0: '=5')."""
    d = {}
    for item in s.split(" "):
        if not item:
            continue
        cs, _, v = item.rpartition("=")
        try:
            val = float(v)
        except ValueError:
            val = float("nan")
        d[tuple(cs.split(",")) if cs else ()] = val
    return d


def diff_class(out, ranks, extents):
    """Classify a `DIFF got[..] exp[..]` report: -> dict(out_of_extent, diff) where diff is
       'out-of-extent-only' (every point inside the declared extents is right, extra points lie outside),
       'under' / 'over' (every wrong in-extent point is smaller / larger than the Einsum defines; inputs are positive,
       so these are lost / repeated contributions), or 'mixed'."""
    m = re.match(r'DIFF got\[(.*?)\] exp\[(.*?)\]$', out)
    if not m:
        return {"out_of_extent": False, "diff": "other"}
    got, exp = parse_data(m.group(1)), parse_data(m.group(2))

    def inside(p):
        for c, r in zip(p, ranks):
            try:
                v = float(c)
            except ValueError:
                return False
            if v != int(v) or v < 0 or v >= extents[r]:
                return False
        return True
    ooe = any(not inside(p) for p in got)
    lo = hi = 0
    for p in set(got) | set(exp):
        if not inside(p):
            continue
        g, e = got.get(p, 0.0), exp.get(p, 0.0)
        if g < e:
            lo += 1
        elif g > e:
            hi += 1
        elif g != e:
            lo += 1
            hi += 1
    if lo == 0 and hi == 0:
        cls = "out-of-extent-only" if ooe else "other"
    elif hi == 0:
        cls = "under"
    elif lo == 0:
        cls = "over"
    else:
        cls = "mixed"
    return {"out_of_extent": ooe, "diff": cls}
