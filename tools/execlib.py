"""Kernel-evaluated execution of emitted programs for populations of
specifications (shared by C01-C08, C11, C16)."""
import re

import vlib
import runlib
import py2coq


class Case:
    def __init__(self, spec, text, extents, data, scal, meta=None, extra_ints=None, check_outputs=True):
        self.spec = spec
        self.text = text
        self.extents = extents
        self.data = data
        self.scal = scal
        self.meta = meta or {}
        self.extra_ints = extra_ints or {}
        self.check_outputs = check_outputs
        self.names = None
        self.result = None

    def replay(self):
        return {"yaml": self.spec.yaml, "text": self.text, "extents": self.extents,
                "inputs": {t: {",".join(map(str, k)): v for k, v in d.items()} for t, d in self.data.items()},
                "scalars": self.scal, "extra_ints": self.extra_ints, "meta": self.meta, "result": self.result}


def parse_report(r, names):
    if r.startswith("ERR "):
        d = {"status": "ERR", "err": r[4:]}
        m = re.match(r'unbound:(\d+)', r[4:])
        if m:
            d["unbound"] = names[int(m.group(1)) - 1]
        return d
    parts = r.split(";")
    return {"status": "RAN", "out": parts[1], "inp": parts[2], "names": parts[3], "extra": parts[4:]}


def evaluate(cases, tag, expr_fn=None, shard=40):
    """Translate and run all cases inside coqc. Fills case.result (dict)."""
    exprs = []
    ok = []
    for c in cases:
        try:
            term, names = runlib.build_case(c.spec, c.text, c.extents, c.data, c.scal, c.extra_ints, c.check_outputs)
        except py2coq.Unsupported as e:
            c.result = {"status": "UNTRANSLATABLE", "err": str(e)}
            continue
        except SyntaxError as e:
            c.result = {"status": "SYNTAXERROR", "err": str(e)}
            continue
        c.names = names
        exprs.append((expr_fn or (lambda t: "(report %s)" % t))(term))
        ok.append(c)
    res = vlib.coq_eval_lines(tag, runlib.COQ_IMPORTS, "", exprs, shard=shard)
    for c, r in zip(ok, res):
        c.raw = r
        c.result = parse_report(r, c.names)
    return cases
