"""Named populations of specifications shared by several properties (C06, C07, C08, C09, C10, C16...).
Each item: dict(yaml=..., syms=..., kind=..., arch=bool, meta=...)."""
import glob
import os

import specgen
import specgen_fusion
import vlib


def plain(rng, n):
    for _ in range(n):
        es = specgen.gen_plain_einsum(rng, out_only_p=0.12)
        mp = specgen.random_mapping(rng, es)
        yield {"yaml": specgen.yaml_of(es["decl"], [es["expr"]], mp), "syms": {}, "kind": "plain", "es": es, "mapping": mp}


def shape(rng, n):
    for _ in range(n):
        es = specgen.gen_plain_einsum(rng, max_terms=1, max_factors=3, take_p=0.0)
        mp, syms = specgen.shape_partitioned_mapping(rng, es)
        yield {"yaml": specgen.yaml_of(es["decl"], [es["expr"]], mp), "syms": syms, "kind": "shape", "es": es, "mapping": mp}


def occupancy(rng, n):
    k = 0
    while k < n:
        # 4-5 ranks: room for two flatten()s and a further, independently partitioned rank
        x = rng.random()
        es = specgen.gen_product_einsum(rng, max_ranks=5 if x < 0.12 else (4 if x < 0.35 else 3), pool=specgen.RANK_POOL + ["L"])
        mp, syms = specgen.occupancy_mapping(rng, es)
        if mp is None:
            continue
        k += 1
        yield {"yaml": specgen.yaml_of(es["decl"], [es["expr"]], mp), "syms": syms or {}, "kind": "occupancy", "es": es, "mapping": mp}


def affine(rng, n):
    for _ in range(n):
        es = specgen.gen_affine_einsum(rng)
        mp, kind, syms = specgen.affine_mapping(rng, es)
        yield {"yaml": specgen.yaml_of(es["decl"], [es["expr"]], mp), "syms": syms, "kind": "affine", "es": es, "mapping": mp}


def affine_rich(rng, n):
    """index math with further operands (one holding Q or S directly, a second tensor through the same affine access,
    sums of convolutions), mostly shape-partitioned: several fibers co-iterated at the partition-level loops"""
    for _ in range(n):
        es = specgen.gen_affine_einsum(rng, extra_p=0.6, same_p=0.15, sum_p=0.1)
        mp, kind, syms = specgen.affine_mapping(rng, es, part_p=0.85)
        yield {"yaml": specgen.yaml_of(es["decl"], [es["expr"]], mp), "syms": syms, "kind": "affine-rich", "es": es, "mapping": mp}


def affine_occ(rng, n):
    """index math with an occupancy-partitioned filter rank"""
    for _ in range(n):
        es = specgen.gen_affine_einsum(rng)
        mp, kind, syms = specgen.affine_occupancy_mapping(rng, es)
        yield {"yaml": specgen.yaml_of(es["decl"], [es["expr"]], mp), "syms": syms, "kind": "affine-occ", "es": es, "mapping": mp}


def cascade(rng, n):
    for _ in range(n):
        decl, exprs, mp, syms, per = specgen.gen_cascade(rng)
        yield {"yaml": specgen.yaml_of(decl, exprs, mp), "syms": syms, "kind": "cascade", "mapping": mp, "decl": decl, "exprs": exprs}


def with_spacetime(rng, items):
    """Add a spacetime stamping every loop rank to single-Einsum items that have an explicit loop order."""
    for it in items:
        mp = it["mapping"]
        es = it.get("es")
        if es is None:
            continue
        out = es["out"]
        loop = (mp.get("loop-order") or {}).get(out)
        if loop is None:
            if mp.get("partitioning"):
                continue
            loop = specgen.default_loop(es)
        mp = {k: (dict(v) if isinstance(v, dict) else v) for k, v in mp.items()}
        st = specgen.add_spacetime(rng, mp, out, loop)
        it2 = dict(it)
        it2["mapping"] = mp
        it2["yaml"] = specgen.yaml_of(es["decl"], [es["expr"]], mp)
        it2["kind"] = it["kind"] + "+spacetime"
        it2["spacetime"] = st
        yield it2


def accelerators():
    """The accelerator specifications shipped with the repository (read as data)."""
    out = []
    for name in ("gamma", "extensor", "extensor-energy", "outerspace", "sigma"):
        p = os.path.join(vlib.REPO, "tests", "integration", name + ".yaml")
        if os.path.exists(p):
            out.append({"yaml": open(p).read(), "syms": {}, "kind": "accelerator:" + name, "arch": True})
    return out


def compute_only(rng, n):
    for _ in range(n):
        h = [specgen_fusion.random_feature(rng) for _ in range(rng.randint(1, 4))]
        for f in h:
            f["empty"] = []
            if not f["comps"]:
                f["comps"] = [specgen_fusion.CONFIGS[f["config"]]["comps"][0][0]]
        yield {"yaml": specgen_fusion.to_yaml(h), "syms": {}, "kind": "compute-only", "arch": True, "hist": h}
