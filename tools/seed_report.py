#!/usr/bin/env python3
"""Markdown table of the seeded property-breaking changes and which checks catch them (from seeded/*/meta.json, result.json)."""
import glob, json, os
V = os.path.dirname(os.path.dirname(os.path.abspath(__file__)))
rows = []
for d in sorted(glob.glob(os.path.join(V, "seeded", "*")), key=lambda x: (x.split("/")[-1].split("-")[0], int(x.split("-")[-1]))):
    sid = os.path.basename(d)
    try:
        m = json.load(open(os.path.join(d, "meta.json")))
    except Exception:
        continue
    r = {}
    if os.path.exists(os.path.join(d, "result.json")):
        r = json.load(open(os.path.join(d, "result.json")))
    by = ",".join(r.get("detected_by", [])) or ("-" if r else "not run")
    what = ""
    if r.get("detected"):
        c = r["checks"].get(r["detected_by"][0], {})
        what = ("no-failing-input-found: " if c.get("no_failing_input_only") else "") + c.get("first_what", "").replace("what: ", "")[:110]
    title = str(m.get("title", ""))[:90].replace("|", "/")
    needs = str(m.get("needs_to_manifest", ""))[:140].replace("|", "/").replace("\n", " ")
    rows.append("| %s | %s | %s | %s | %s |" % (sid, title, needs, by, what.replace("|", "/")))
print("| seed | change | needs to manifest | caught by | first report |\n|---|---|---|---|---|")
print("\n".join(rows))
