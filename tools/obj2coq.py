"""teaal.hifiber object tree -> Gallina term of type TV.Model.HAst.hstmt (fail-closed).
Identifiers are interned with the SAME table as py2coq's translation of the emitted text."""
from vlib import cstr, clist, cz


class Unsupported(Exception):
    pass


class Dumper:
    def __init__(self, translator):
        self.tr = translator

    def ident(self, s):
        if not isinstance(s, str) or not s.isidentifier():
            raise Unsupported("not an identifier: %r" % (s,))
        return self.tr.ident(s)

    def op(self, o):
        n = type(o).__name__
        m = {"OAdd": "HAdd", "OAnd": "HAnd", "ODiv": "HDiv", "OEqEq": "HEqEq", "OFDiv": "HFDiv", "OIn": "HIn", "OLt": "HLt",
             "OLtLt": "HLtLt", "OMod": "HMod", "OMul": "HMul", "ONotIn": "HNotIn", "OOr": "HOr", "OSub": "HSub"}
        if n not in m:
            raise Unsupported("operator " + n)
        return m[n]

    def args(self, args):
        out = []
        for a in args:
            n = type(a).__name__
            if n == "AJust":
                out.append("(None, %s)" % self.expr(a.expr))
            elif n == "AParam":
                if not a.name.isidentifier():
                    raise Unsupported("keyword " + a.name)
                out.append("(Some %s, %s)" % (cstr(a.name), self.expr(a.expr)))
            else:
                raise Unsupported("argument " + n)
        return clist(out)

    def expr(self, e):
        n = type(e).__name__
        if n == "EAccess":
            return "(HAccess %s %s)" % (self.expr(e.obj), self.expr(e.ind))
        if n == "EBinOp":
            return "(HBinOp %s %s %s)" % (self.expr(e.expr1), self.op(e.op), self.expr(e.expr2))
        if n == "EBool":
            return "(HBool %s)" % ("true" if e.bool else "false")
        if n == "EComp":
            return "(HComp %s %s %s)" % (self.expr(e.elem), self.ident(e.var), self.expr(e.iter))
        if n == "EDict":
            return "(HDict %s)" % clist("(%s, %s)" % (self.expr(k), self.expr(v)) for k, v in e.dict.items())
        if n == "EField":
            if not e.field.isidentifier():
                raise Unsupported("field " + e.field)
            return "(HField %s %s)" % (self.ident(e.obj), cstr(e.field))
        if n == "EFloat":
            if e.float == float("inf"):
                return "(HFloatInf false)"
            if e.float == -float("inf"):
                return "(HFloatInf true)"
            if isinstance(e.float, float) and e.float == e.float:
                return "(HFloatLit %s)" % cstr(e.float.hex())
            raise Unsupported("float literal %r" % e.float)
        if n == "EFunc":
            return "(HFunc %s %s)" % (self.ident(e.name), self.args(e.args))
        if n == "EInt":
            if not isinstance(e.int, int) or isinstance(e.int, bool):
                raise Unsupported("EInt holding %r" % (e.int,))
            return "(HInt %s)" % cz(e.int)
        if n == "ELambda":
            return "(HLambda %s %s)" % (clist(self.ident(a) for a in e.args), self.expr(e.body))
        if n == "EList":
            return "(HList %s)" % clist(self.expr(x) for x in e.list)
        if n == "EMethod":
            if not e.name.isidentifier():
                raise Unsupported("method " + e.name)
            return "(HMethod %s %s %s)" % (self.expr(e.obj), cstr(e.name), self.args(e.args))
        if n == "EParens":
            return "(HParens %s)" % self.expr(e.expr)
        if n == "EString":
            return "(HString %s)" % cstr(e.string)
        if n == "ETuple":
            return "(HTuple %s)" % clist(self.expr(x) for x in e.elems)
        if n == "EVar":
            if e.name == "None":
                return "HNone"
            if e.name in ("True", "False"):
                return "(HBool %s)" % ("true" if e.name == "True" else "false")
            return "(HVar %s)" % self.ident(e.name)
        raise Unsupported("expression " + n)

    def assn(self, a):
        n = type(a).__name__
        if n == "AAccess":
            return "(HAAccess %s %s)" % (self.expr(a.obj), self.expr(a.ind))
        if n == "AField":
            return "(HAField %s %s)" % (self.ident(a.obj), cstr(a.field))
        if n == "AVar":
            return "(HAVar %s)" % self.ident(a.name)
        raise Unsupported("assignable " + n)

    def payload(self, p):
        n = type(p).__name__
        if n == "PVar":
            return "(HPVar %s)" % self.ident(p.var)
        if n == "PTuple":
            return "(HPTuple %s)" % clist(self.payload(x) for x in p.payloads)
        raise Unsupported("payload " + n)

    def stmt(self, s):
        n = type(s).__name__
        if n == "SAssign":
            return "(HSAssign %s %s)" % (self.assn(s.assn), self.expr(s.expr))
        if n == "SBlock":
            return "(HSBlock %s)" % clist(self.stmt(x) for x in s.stmts)
        if n == "SExpr":
            return "(HSExpr %s)" % self.expr(s.expr)
        if n == "SFor":
            return "(HSFor %s %s %s)" % (self.payload(s.payload), self.expr(s.expr), self.stmt(s.stmt))
        if n == "SIAssign":
            return "(HSIAssign %s %s %s)" % (self.assn(s.assn), self.op(s.op), self.expr(s.expr))
        if n == "SIf":
            elifs = clist("(%s, %s)" % (self.expr(c), self.stmt(b)) for c, b in s.elifs)
            els = "None" if s.else_ is None else "(Some %s)" % self.stmt(s.else_)
            return "(HSIf %s %s %s %s)" % (self.expr(s.if_[0]), self.stmt(s.if_[1]), elifs, els)
        raise Unsupported("statement " + n)
