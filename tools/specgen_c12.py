"""Specifications in metrics mode for C12: architectures with DRAM, caches, buffets (lazy and eager
bindings), the three intersector types, sequencers; one or two formats per tensor (concordant with the
loop order or not); shape partitioning; one- and two-Einsum cascades.

`gen(rng)` returns (yaml_text, meta).  The YAML is written in flow (JSON) style, which the ruamel
parser behind teaal.parse accepts.  Many generated specifications are rejected by the compiler
(that is counted, not hidden)."""
import json

# (declaration, [expressions], per-Einsum loop ranks)
TEMPLATES = [
    ("matmul", {"A": ["K", "M"], "B": ["K", "N"], "Z": ["M", "N"]}, ["Z[m, n] = A[k, m] * B[k, n]"]),
    ("elem", {"A": ["M"], "B": ["M"], "Z": ["M"]}, ["Z[m] = A[m] * B[m]"]),
    ("matvec", {"A": ["M", "K"], "B": ["K"], "Z": ["M"]}, ["Z[m] = A[m, k] * B[k]"]),
    ("three", {"A": ["K", "M"], "B": ["K", "N"], "C": ["M", "N"], "Z": ["M", "N"]}, ["Z[m, n] = A[k, m] * B[k, n] * C[m, n]"]),
    ("mttkrp", {"AX": ["I", "K", "L"], "B": ["K", "J"], "C": ["L", "J"], "ZO": ["I", "J"]}, ["ZO[i, j] = AX[i, k, l] * B[k, j] * C[l, j]"]),
    ("elem3", {"A": ["M"], "B": ["M"], "C": ["M"], "Z": ["M"]}, ["Z[m] = A[m] * B[m] * C[m]"]),
    ("sum", {"A": ["M"], "B": ["M"], "Z": ["M"]}, ["Z[m] = A[m] + B[m]"]),
    ("dot", {"A": ["K"], "B": ["K"], "Z": []}, ["Z[] = A[k] * B[k]"]),
    ("cascade", {"A": ["K", "M"], "BT": ["K", "N"], "C": ["N"], "T0": ["M", "N"], "Z": ["M"]},
     ["T0[m, n] = A[k, m] * BT[k, n]", "Z[m] = T0[m, n] * C[n]"]),
    ("cascade2", {"A": ["M"], "B": ["M"], "C": ["M"], "T": ["M"], "Z": ["M"]},
     ["T[m] = A[m] * B[m]", "Z[m] = T[m] * C[m]"]),
]

INTERSECTORS = ["two-finger", "leader-follower", "skip-ahead"]


def _einsum_info(decl, expr):
    out = expr.split("=")[0].strip().split("[")[0]
    rhs = expr.split("=")[1]
    ins = []
    for tok in rhs.replace("+", "*").split("*"):
        ins.append(tok.strip().split("[")[0])
    ranks = []
    for t in [out] + ins:
        for r in decl[t]:
            if r not in ranks:
                ranks.append(r)
    return out, ins, ranks


def gen(rng, force=None):
    name, decl, exprs = rng.choice(TEMPLATES) if force is None else [t for t in TEMPLATES if t[0] == force][0]
    decl = {k: list(v) for k, v in decl.items()}
    meta = {"template": name, "einsums": len(exprs), "intersector": [], "eager": 0, "lazy": 0, "cache": False, "sequencer": False,
            "partitioned": False, "two_formats": 0, "discordant_format": 0, "elem": 0}
    spec = {"einsum": {"declaration": decl, "expressions": exprs}, "mapping": {"rank-order": {}, "loop-order": {}, "spacetime": {}},
            "format": {}, "architecture": {}, "bindings": {}}
    infos = [_einsum_info(decl, e) for e in exprs]
    # ---- mapping ---------------------------------------------------------------------------------
    part_rank = None
    if len(exprs) == 1 and infos[0][2] and rng.random() < 0.3:
        part_rank = rng.choice(infos[0][2])
        meta["partitioned"] = True
        spec["mapping"]["partitioning"] = {infos[0][0]: {part_rank: ["uniform_shape(%d)" % rng.choice([2, 3, 4])]}}

    def final(rs):
        out = []
        for r in rs:
            out += [r + "1", r + "0"] if r == part_rank else [r]
        return out

    loops = {}
    for out, ins, ranks in infos:
        loop = final(ranks)
        rng.shuffle(loop)
        if part_rank is not None:
            # the upper level must come before the lower one
            i1, i0 = loop.index(part_rank + "1"), loop.index(part_rank + "0")
            if i1 > i0:
                loop[i1], loop[i0] = loop[i0], loop[i1]
        loops[out] = loop
        spec["mapping"]["loop-order"][out] = loop
        k = rng.randint(0, len(loop))
        space = loop[len(loop) - k:] if rng.random() < 0.7 else rng.sample(loop, k)
        spec["mapping"]["spacetime"][out] = {"space": space, "time": [r for r in loop if r not in space]}
    first_use = {}
    for out, ins, ranks in infos:
        for t in [out] + ins:
            first_use.setdefault(t, out)
    for t, rs in decl.items():
        p = list(rs)
        loop0 = loops[first_use[t]]
        r = rng.random()
        if r < 0.65 and part_rank is None:
            p = [x for x in loop0 if x in rs]
        elif r < 0.85:
            rng.shuffle(p)
        spec["mapping"]["rank-order"][t] = p
    # ---- formats -----------------------------------------------------------------------------------
    fmt_names = {}
    for t, rs in decl.items():
        spec["format"][t] = {}
        loop0 = loops[first_use[t]]
        nfmt = 2 if rng.random() < 0.2 and len(final(rs)) >= 2 else 1
        if nfmt == 2:
            meta["two_formats"] += 1
        fmt_names[t] = []
        for fi in range(nfmt):
            fname = ["default", "alt"][fi]
            conc = [x for x in loop0 if x in final(rs)]
            first_conc = fi == 1 and spec["format"][t]["default"]["rank-order"] == conc
            if len(conc) < 2 or (fi == 0 and rng.random() < 0.88) or (fi == 1 and not first_conc and rng.random() < 0.7):
                order = conc
            else:
                order = list(conc)
                while order == conc:
                    rng.shuffle(order)
                meta["discordant_format"] += 1
            f = {"rank-order": order}
            for r in order:
                d = {"format": rng.choice(["C", "U"])}
                q = rng.random()
                if q < 0.18:
                    d["layout"] = "interleaved"
                    d["cbits"] = rng.choice([16, 32])
                    d["pbits"] = rng.choice([32, 64])
                    meta["elem"] += 1
                else:
                    if rng.random() < 0.7:
                        d["cbits"] = rng.choice([0, 16, 32, 32])
                    if rng.random() < 0.85:
                        d["pbits"] = rng.choice([0, 32, 64, 64])
                f[r] = d
            spec["format"][t][fname] = f
            fmt_names[t].append(fname)
    # ---- architecture ------------------------------------------------------------------------------
    has_cache = rng.random() < 0.4
    has_llb = rng.random() < 0.4
    n_isect = rng.choice([0, 1, 1, 2])
    has_seq = rng.random() < 0.5
    meta["cache"] = has_cache
    n_pe = rng.choice([1, 4, 16])
    chip_local = []
    if has_cache:
        chip_local.append({"name": "L2", "class": "Cache", "attributes": {"width": 64, "depth": 1024, "bandwidth": 2048}})
    if has_llb:
        chip_local.append({"name": "LLB", "class": "Buffet", "attributes": {"width": 64, "depth": 4096, "bandwidth": 4096}})
    if has_seq:
        longest = max(len(l) for l in loops.values())
        seq_ranks = rng.choice([1, 2, 3, max(longest, 1), max(longest, 1)])
        chip_local.append({"name": "Seq", "class": "Sequencer", "attributes": {"num_ranks": seq_ranks}})
    pe_local = [{"name": "RegFile", "class": "Buffet", "attributes": {"width": 64, "depth": 128}}]
    isect_types = []
    for i in range(n_isect):
        ty = rng.choice(INTERSECTORS)
        isect_types.append(ty)
        pe_local.append({"name": "Isect%d" % i, "class": "Intersector", "attributes": {"type": ty}})
    pe_local.append({"name": "Mul", "class": "compute", "attributes": {"type": "mul"}})
    pe_local.append({"name": "Add", "class": "compute", "attributes": {"type": "add"}})
    spec["architecture"]["Accel"] = [{
        "name": "System", "attributes": {"clock_frequency": rng.choice([1000, 1000000])},
        "local": [{"name": "Memory", "class": "DRAM", "attributes": {"bandwidth": rng.choice([512, 4096])}}],
        "subtree": [{"name": "Chip", "local": chip_local,
                     "subtree": [{"name": "PE" if n_pe == 1 else "PE[0..%d]" % (n_pe - 1), "local": pe_local}]}]}]
    # ---- bindings ----------------------------------------------------------------------------------
    for ei, (out, ins, ranks) in enumerate(infos):
        loop = loops[out]
        tensors = [out] + ins
        bl = [{"config": "Accel", "prefix": "tmp/" + name + "_" + out}]

        def pick_format(t):
            return fmt_names[t][0] if rng.random() < 0.85 else rng.choice(fmt_names[t])

        def types_of(t, fname, r):
            d = spec["format"][t][fname].get(r, {})
            if d.get("layout") == "interleaved":
                return ["elem"]
            return ["coord", "payload"]

        llb_tensors = [t for t in tensors if rng.random() < 0.5] if has_llb else []

        def mem_bindings(p, only=None):
            bs = []
            for t in (tensors if only is None else only):
                fname = pick_format(t)
                for r in spec["format"][t][fname]["rank-order"]:
                    for ty in types_of(t, fname, r):
                        if rng.random() < p:
                            bs.append({"tensor": t, "rank": r, "type": ty, "format": fname})
            return bs

        def buffet_bindings(p_tensor, p, only=None):
            bs = []
            for t in (tensors if only is None else only):
                if rng.random() > p_tensor:
                    continue
                fname = pick_format(t)
                order = spec["format"][t][fname]["rank-order"]
                eager_root = None
                if order and rng.random() < 0.4:
                    eager_root = rng.choice(order)
                    if eager_root in loop and loop.index(eager_root) == 0 and rng.random() < 0.9:
                        eager_root = None
                for r in order:
                    if eager_root is not None and order.index(r) > order.index(eager_root):
                        break
                    for ty in types_of(t, fname, r):
                        if r == eager_root:
                            if ty == "payload":
                                continue
                        elif rng.random() > p:
                            continue
                        above = loop[:loop.index(r)] if r in loop else []
                        if r == eager_root and above and rng.random() < 0.97:
                            ev = rng.choice(above)      # an eager binding evicted on "root" makes the compiler crash
                        else:
                            ev = rng.choice(above + ["root"]) if above and rng.random() < 0.85 else "root"
                        b = {"tensor": t, "rank": r, "type": ty, "format": fname, "evict-on": ev}
                        if r == eager_root:
                            b["style"] = "eager"
                            meta["eager"] += 1
                        else:
                            if rng.random() < 0.5:
                                b["style"] = "lazy"
                            meta["lazy"] += 1
                        bs.append(b)
            return bs
        bs = mem_bindings(0.8)
        if bs:
            bl.append({"component": "Memory", "bindings": bs})
        if has_cache and rng.random() < 0.8:
            bs = [b for b in mem_bindings(0.5, [t for t in tensors if t not in llb_tensors]) if rng.random() < 0.7]
            if bs:
                bl.append({"component": "L2", "bindings": bs})
        if has_llb and rng.random() < 0.8:
            bs = buffet_bindings(0.9, 0.6, llb_tensors)
            if bs:
                bl.append({"component": "LLB", "bindings": bs})
        if rng.random() < 0.85:
            bs = buffet_bindings(0.6, 0.7)
            if bs:
                bl.append({"component": "RegFile", "bindings": bs})
        if has_seq and rng.random() < 0.85:
            k = min(len(loop), seq_ranks) if loop else 0
            if k and rng.random() < 0.5:
                k = rng.randint(1, k)
            if k:
                meta["sequencer"] = True
                picked = rng.sample(loop, k)
                if part_rank is not None and rng.random() < 0.5:
                    # the binding written against the Einsum's own rank name although the mapping partitions it
                    picked = list(dict.fromkeys(part_rank if r in (part_rank + "1", part_rank + "0") else r for r in picked))
                    meta["sequencer_on_partitioned_root"] = True
                bl.append({"component": "Seq", "bindings": [{"rank": r} for r in picked]})
        shared = [r for r in loop if sum(1 for x in ins if r in final(decl[x])) >= 2]
        used_ranks = set()
        for i, ty in enumerate(isect_types):
            cand = [r for r in (shared if rng.random() < 0.95 else loop) if r not in used_ranks]
            if not cand or rng.random() < 0.15:
                continue
            nb = 2 if len(cand) > 1 and rng.random() < 0.2 else 1
            bs = []
            for r in rng.sample(cand, nb):
                used_ranks.add(r)
                b = {"rank": r}
                if ty == "leader-follower":
                    holders = [x for x in ins if r in final(decl[x])] or ins
                    b["leader"] = rng.choice(holders)
                bs.append(b)
            meta["intersector"].append(ty)
            bl.append({"component": "Isect%d" % i, "bindings": bs})
        bl.append({"component": "Mul", "bindings": [{"op": "mul"}]})
        if rng.random() < 0.7:
            bl.append({"component": "Add", "bindings": [{"op": "add"}]})
        spec["bindings"][out] = bl
    meta["loops"] = loops
    return json.dumps(spec, indent=1), meta


def gen_sigma(rng):
    """SIGMA-style mappings: K shape-split, (M, K0) flattened, optionally MK0 occupancy-split; B (not part of the
    flattening) is read through getPayload() on K0.  Buffer bindings on B's ranks incl. K0 (lazy/eager, coord/payload)."""
    ksz = rng.choice([2, 4, 128])
    occ = rng.random() < 0.6
    part = {"K": ["uniform_shape(%d)" % ksz], "(M, K0)": ["flatten()"]}
    if occ:
        part["MK0"] = ["uniform_occupancy(A.%d)" % rng.choice([2, 4, 16384])]
        inner = ["MK01", "MK00"]
    else:
        inner = ["MK0"]
    loop = ["K1"] + inner
    loop.insert(rng.randint(2 if occ else 2, len(loop)), "N")
    space = [loop[-1]] if rng.random() < 0.6 else []
    border = rng.choice([["K1", "N", "K0"], ["K1", "K0", "N"]])
    fmtB = {"rank-order": border}
    for r in border:
        d = {"format": rng.choice(["U", "C"])}
        if rng.random() < 0.8:
            d["pbits"] = rng.choice([32, 64])
        if d["format"] == "C" and rng.random() < 0.8:
            d["cbits"] = 32
        fmtB[r] = d
    n_pe = rng.choice([1, 8, 128])
    spec = {"einsum": {"declaration": {"A": ["K", "M"], "B": ["K", "N"], "Z": ["M", "N"]}, "expressions": ["Z[m, n] = A[k, m] * B[k, n]"]},
            "mapping": {"rank-order": {"A": ["K", "M"], "B": ["K", "N"], "Z": ["M", "N"]}, "partitioning": {"Z": part},
                        "loop-order": {"Z": loop}, "spacetime": {"Z": {"space": space, "time": [r for r in loop if r not in space]}}},
            "format": {"B": {"partitioned": fmtB}},
            "architecture": {"Accelerator": [{"name": "System", "attributes": {"clock_frequency": 1000},
                                              "local": [{"name": "MainMemory", "class": "DRAM", "attributes": {"bandwidth": 4096}}],
                                              "subtree": [{"name": "PE" if n_pe == 1 else "PE[0..%d]" % (n_pe - 1),
                                                           "local": [{"name": "RegFile", "class": "Buffet", "attributes": {"width": 32, "depth": 256}},
                                                                     {"name": "Multiplier", "class": "Compute", "attributes": {"type": "mul"}}]}]}]},
            "bindings": {}}
    mem, buf = [], []
    for r in border:
        for ty in ("coord", "payload"):
            if ty == "coord" and "cbits" not in fmtB[r]:
                continue
            if ty == "payload" and "pbits" not in fmtB[r]:
                continue
            if rng.random() < 0.75:
                mem.append({"tensor": "B", "rank": r, "type": ty, "format": "partitioned"})
                if rng.random() < 0.7:
                    above = loop[:loop.index(r)] if r in loop else [x for x in loop if x != loop[-1]]
                    b = {"tensor": "B", "rank": r, "type": ty, "format": "partitioned",
                         "evict-on": rng.choice(above + ["root"]) if above else "root"}
                    if rng.random() < 0.7:
                        b["style"] = "lazy"
                    buf.append(b)
    bl = [{"config": "Accelerator", "prefix": "tmp/sigma"}]
    if mem:
        bl.append({"component": "MainMemory", "bindings": mem})
    if buf:
        bl.append({"component": "RegFile", "bindings": buf})
    bl.append({"component": "Multiplier", "bindings": [{"op": "mul"}]})
    spec["bindings"]["Z"] = bl
    meta = {"template": "sigma-like", "einsums": 1, "intersector": [], "eager": 0, "lazy": len(buf), "cache": False, "sequencer": False,
            "partitioned": True, "two_formats": 0, "discordant_format": 0, "elem": 0, "loops": {"Z": loop}}
    return json.dumps(spec, indent=1), meta
