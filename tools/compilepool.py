"""Compile many specifications with the tree under test in a pool of forked workers (compilation only; used where a
check compares texts of many compilations: cascade vs stand-alone, with vs without display).  Results are returned in
input order, so a run stays reproducible from VERIF_SEED."""
import multiprocessing

import vlib
import runlib


def _one(job):
    y, arch = job
    try:
        return ("T", runlib.Spec(y).compile(arch=arch))
    except Exception as e:          # the failure itself is the observation
        return ("E", type(e).__name__ + ": " + str(e)[:300])


def compile_many(yamls, arch=False, nproc=None):
    """-> list of ("T", text) | ("E", "ExceptionType: message")"""
    jobs = [(y, arch) for y in yamls]
    nproc = min(nproc or vlib.NPROC, 16, max(1, len(jobs) // 8))
    if nproc <= 1:
        return [_one(j) for j in jobs]
    ctx = multiprocessing.get_context("fork")
    with ctx.Pool(nproc) as pool:
        return pool.map(_one, jobs, chunksize=8)
