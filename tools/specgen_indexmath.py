"""Index-math Einsums with partitioning declared on ANY rank of the affine relation (C09; reusable by C04/C02).

specgen.gen_affine_einsum/affine_mapping only ever partition the un-strided output rank Q with the strided input rank W
following it, so the step expression substituted into the follower's coordinate expression is always scaled by a positive
integer.  Here the relation  BIG = c1*v1 + c2*v2 (+ c3*v3)  is generated with arbitrary small coefficients (also negative,
also a single strided variable A[c*k]), over varied rank names, and the partitioning (stacks of nway_shape / uniform_shape,
literal or symbolic sizes) is declared on the big rank or on any variable rank, every other rank of the relation following
it with some probability - so fractional (1/c), negative and integer scalings of compound and atomic steps all occur, and
the loop order picks, level by level, either the partitioned rank's level or a follower's.
Specifications the compiler rejects are simply not counted by the caller.  Every choice comes from `rng`."""
import specgen

BIG = ["W", "H", "X"]
VARS = ["Q", "S", "K", "M", "P", "R", "J", "N"]


def _term(c, v):
    return v if c == 1 else "%d*%s" % (c, v)


def gen(rng):
    """-> item dict(yaml, kind='indexmath', syms, meta)."""
    big = rng.choice(BIG)
    nv = rng.choice([1, 2, 2, 2, 3])
    vs = rng.sample(VARS, nv + 1)
    free = vs[nv]                       # a rank outside the relation
    vs = vs[:nv]
    coefs = []
    for i in range(nv):
        c = rng.choice([1, 1, 2, 2, 3, 4])
        if i > 0 and rng.random() < 0.15:
            c = -c
        coefs.append(c)
    if nv == 1 and coefs[0] == 1:
        coefs[0] = rng.choice([2, 3, 4])
    idx = " + ".join(_term(c, v.lower()) for c, v in zip(coefs, vs))
    decl = {"I": [big]}
    facs = ["I[%s]" % idx]
    names = iter(["F", "G", "B", "C"])
    # operands holding the variable ranks directly (the last variable always; the first usually is the output's)
    out_ranks = []
    for i, v in enumerate(vs):
        holds = (i > 0) or nv == 1 or rng.random() < 0.3
        if holds:
            t = next(names)
            decl[t] = [v]
            facs.append("%s[%s]" % (t, v.lower()))
        if i == 0 and (nv > 1 or rng.random() < 0.4):
            out_ranks.append(v)
    if rng.random() < 0.3:
        t = next(names)
        decl[t] = [free]
        facs.append("%s[%s]" % (t, free.lower()))
        out_ranks.append(free)
        extra = [free]
    else:
        extra = []
    if rng.random() < 0.5:
        rng.shuffle(facs)
    rng.shuffle(out_ranks)
    decl["O"] = list(out_ranks)
    expr = "O[%s] = %s" % (", ".join(r.lower() for r in out_ranks), " * ".join(facs))
    # which n of the n+1 ranks of the relation are iterated (the remaining one, d, is derived); output ranks must be
    rel = [big] + vs
    cands = [r for r in rel if r not in out_ranks]
    d = rng.choice(cands) if cands else big
    if big in cands and rng.random() < 0.6:
        d = big
    iterated = [r for r in rel if r != d]
    c = rng.choice(iterated)                       # the iterated rank whose partitions the loop nest walks
    root = c if rng.random() < 0.5 else d          # the rank the partitioning is declared on
    depth = rng.choice([1, 1, 1, 2])
    ds, syms = [], {}
    size = rng.randint(2, 6)
    for lvl in range(depth):
        nway = rng.random() < 0.55
        val = rng.randint(2, 4) if nway else size
        if rng.random() < 0.35:
            nm = "%s%sZ%d" % (root, "W" if nway else "U", lvl)
            syms[nm] = val
            arg = nm
        else:
            arg = str(val)
        ds.append(("nway_shape(%s)" if nway else "uniform_shape(%s)") % arg)
        size = max(1, size // 2)
    part = {root: ds}
    other = d if root == c else c
    followers = []
    if root == d or rng.random() < 0.85:
        part[other] = ["follow(%s)" % root]
        followers.append(other)
    # loop order: the levels of c (sometimes, level by level, those of d when d is partitioned too) + the other iterated ranks
    chain = specgen.levels_of(c, depth)
    if (d == root or d in followers) and rng.random() < 0.25:
        dl = specgen.levels_of(d, depth)
        chain = [dl[i] if (i > 0 and rng.random() < 0.5) else chain[i] for i in range(depth + 1)]
    others = [r for r in iterated if r != c] + extra
    loop = list(chain)
    if rng.random() < 0.12 and others and root == c:
        # both the innermost level of c and of d are iterated and one of the other variables is derived from them
        if d == root or d in followers:
            others = others[1:]
            loop.append(specgen.levels_of(d, depth)[-1])
    for o in others:
        loop.insert(rng.randint(0, len(loop)), o)
    mp = {"rank-order": {}, "partitioning": {"O": part}, "loop-order": {"O": loop}}
    exprs = [expr]
    if out_ranks and rng.random() < 0.2:
        # a cascade: a second Einsum consumes the index-math result (its own, unpartitioned loop nest)
        r2 = rng.choice(out_ranks)
        decl["L"] = [r2]
        keep = [r for r in out_ranks if rng.random() < 0.6]
        decl["Z"] = keep
        exprs.append("Z[%s] = O[%s] * L[%s]" % (", ".join(r.lower() for r in keep), ", ".join(r.lower() for r in out_ranks), r2.lower()))
        lo = list(out_ranks)
        rng.shuffle(lo)
        mp["loop-order"]["Z"] = lo
    return {"yaml": specgen.yaml_of(decl, exprs, mp), "syms": syms, "kind": "indexmath",
            "meta": {"expr": expr, "root": root, "big": big, "coefs": coefs, "dirs": ds, "followers": followers, "loop": loop,
                     "derived": d, "chain_rank": c}}
