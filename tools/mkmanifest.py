#!/usr/bin/env python3
"""Regenerates /verif/MANIFEST.json from the table below (keeps it valid at all times)."""
import json
import os

VERIF = os.path.dirname(os.path.dirname(os.path.abspath(__file__)))
props = [json.loads(l) for l in open(os.path.join(VERIF, "properties.jsonl"))]

EXEC_NOTE = ("Trusted: Coq kernel + VM; the modelled fibertree runtime Model/Rt.v and interpreter Model/Interp.v (fibertree is absent from the sandbox); "
             "tools/py2coq.py (fail-closed ast translator); Model/Einsum.v dense oracle; generated populations (seeded). ")

CHECKS = {
 "C01": ("translation_validation",
         "Coq theorems (Props/C01.v): C01_nest_sound_partial (unbounded induction over the loop order: the co-iteration nest with unions, intersections and structural defaults contributes sum-of-products at every point, for all inputs); C01_nest_full_okb_sound_partial (certified validator of one emitted sum-of-products program: rank structure, per-level co-iteration AND the update statement - operands multiplied per term, `<<=` only without reduction - accepted => for ALL inputs the nest as the text writes it leaves what the Einsum defines); C01_nest_take_full_okb_sound_partial / C01_nest_take1_full_okb_sound_partial (the same with take() terms, any inputs with non-zero stored leaves; side condition read off the rank structure: the selected operand holds every loop rank, not needed for a single term); C01_take_in_sum_refuted (finding F7 at model level: the side condition is necessary). The validator is evaluated by the kernel on the structure read off EVERY plain program (each is certified or is F7-shaped). + per emitted program translation validation: every program of a generated population (plain Einsums incl. repeated scalars, output-only ranks, scalars inside take(), unpartitioned index math) x loop orders x rank orders is compiled by the current tree, translated fail-closed to a Gallina AST and EXECUTED in the kernel VM on several inputs against the dense oracle. The text-to-nest abstraction (tools/nestview.py) is not a theorem, hence translation_validation rather than proof.",
         EXEC_NOTE + "tools/nestview.py (fail-closed reading of the nest structure off the text).", "Rocq theorems (nest induction, certified validator evaluated per program) + kernel-evaluated execution of every emitted program vs the Gallina dense oracle", "DESIGN.md section 0A / 6 C01"),
 "C02": ("translation_validation",
         "Coq theorems (Props/C02.v): arithmetic of splitting by any positive step in stacks of any depth (exactly one partition chain per coordinate, n-way step bounds, merge recovers the coordinate); laws of the runtime model's own operations for fibers of any size (split_uniform partitions, split then merge1 = identity incl. at depth d, halo characterisation, swizzle lookup/inverse); C02_partitioned_nest_sound_partial / _two_levels_partial: for ANY loop order over the levels the loop nest over shape-partitioned tensors contributes at every consistent point exactly the Einsum's value at the original point and nothing elsewhere, each original point having exactly one representative. Per program: the certified nest validator of C01 is evaluated by the kernel on the PARTITIONED nest read off every shape-partitioned product/take program together with the static side conditions of the partition theorems (same step and level names for every tensor holding the rank; the footer merges exactly the level chain) + kernel-evaluated execution of every emitted partitioned program (any loop order over the levels, literal/symbolic sizes not dividing or exceeding the extent, identical adjacent directives, index-math Einsums with W following Q) against the dense oracle; static side condition eager_inputs_aligned with targeted failing-input search.",
         EXEC_NOTE + "tools/nestview.py, tools/patterns.py (fail-closed readings of the text).", "Rocq theorems (lia over Z, list induction, nest-level partition theorem, certified validator per program) + kernel-evaluated execution vs oracle", "DESIGN.md section 0A / 6 C02"),
 "C03": ("translation_validation",
         "Coq theorems (Props/C03.v): the interpreter's own splitEqual (chunks concatenate back, sizes), the leader/follower boundary law, laws of the runtime model's operations for fibers of any size (split_equal/split_nonuniform then merge1 = identity incl. at depth d, flatten1 then unflatten1 = identity, paths and lexicographic order preserved); and occupancy partitioning in the loop nest (17 C03_nest_* theorems over Model/NestOcc.v): for ANY loop order over the levels the nest over the leader cut into chunks of n and the followers cut at the leader's boundaries contributes at every consistent point the product term's value at the original point and nothing elsewhere; every non-zero original point has exactly one representative (none separated, none met twice); the DYNAMIC position (the cut happens when the nest reaches the rank, boundaries depend on the reached state); stacks (occupancy beneath shape / beneath occupancy, shape beneath occupancy); the nest-level cuts ARE Rt.split_nonuniform / Rt.split_equal under the embedding of nest tries. + kernel-evaluated execution of every emitted program with occupancy partitioning (1-3 levels, leader per level, beneath shape levels) / flattening (tuples from any tensor, second flatten, flatten + shape split) / renamed ranks / pairs of partitioned Einsums against the dense oracle; a static leader/follower validator over the emitted text with targeted failing-input search; any rejection outside two structurally recognised classes is a violation.",
         EXEC_NOTE + "tools/patterns_occ.py (data-flow reading of the emitted text), tools/specgen_wide.py rejection_class.", "Rocq theorems (runtime-model laws, nest-level occupancy theorems) + kernel-evaluated execution vs oracle + static leader/follower validator", "DESIGN.md section 0A / 6 C03"),
 "C04": ("translation_validation",
         "Coq theorems over Z (access inversion, halo of a tile contains every needed input, tiles partition [0,Q), interval clipping), a kernel-computed refutation of exactness in binary64 (finding F11) and a finite exactness sweep for power-of-two denominators + kernel-evaluated execution (PrimFloat = Python floats) of every emitted affine program against the dense oracle with out-of-extent detection. Four known findings (F4, F5, F11, F12) are keyed structurally on the emitted text.",
         EXEC_NOTE + "PrimFloat/PrimInt63 kernel primitives appear under Print Assumptions of the two float theorems.", "Rocq theorems (lia; vm_compute float witnesses) + kernel-evaluated execution vs oracle", "DESIGN.md section 6 C04"),
 "C05": ("translation_validation",
         "Coq theorems on the Tensor state machine (reset restores the initial state after ANY history; histories before a reset are irrelevant; init ranks never written), tied to teaal.ir.tensor.Tensor by T-eq on random operation sequences + kernel-evaluated execution of whole cascades against the chained dense oracle + implementation-vs-implementation: the text of Einsum i inside every cascade equals its stand-alone compilation up to temporary numbering, for every prefix.",
         EXEC_NOTE, "Rocq theorems (state machine) + model/code correspondence + kernel-evaluated execution + section-vs-standalone text", "DESIGN.md section 6 C05"),
 "C06": ("proof",
         "Coq theorems C06_da_sound / C06_da_block_sound / C06_da_block_complete: the definite-assignment analysis da (Model/Closed.v) accepts a program iff on EVERY path (loops zero or more times, either branch of an if) no statement reads an unbound name (all-paths name semantics; loop targets do not flow out). Certified validation (T-val): every program emitted by the current tree for the C01-C05 populations, the same with spacetime (graphics mode) and the accelerator/compute-only specifications (metrics mode) is parsed by CPython's ast, translated fail-closed and da_block (user_names spec) evaluated by the kernel; user_names is computed from the specification alone. With da_sound each accepted program is proved closed on all paths.",
         "Trusted: Coq kernel+VM; tools/py2coq.py; CPython ast.parse as the definition of 'parses as Python'; the harness's user_names; the all-paths abstraction (values ignored, every branch possible). Theorems closed under the global context.",
         "Rocq proof of a definite-assignment checker (sound+complete for all-paths semantics) evaluated by the kernel on every emitted program", "DESIGN.md section 6 C06"),
 "C07": ("translation_validation",
         "Coq theorems: C07_rankty_sound (a certified static checker on an abstract rank-id semantics of emitted programs - tensor object = location, rank ids, who allocated it, whose data it holds; all paths, any number of loop iterations, aliasing, setRankIds mutating in place: an accepted program has no bad execution and every terminating execution ends with every <Name>_<Ranks> variable truthful, inputs and results bound, user objects never renamed/populated/updated), C07_rankty_chk_sound, C07_rankty_leb_sound, C07_rankty_user_objects_kept, C07_rankty_straight_line_complete; every tensor-producing operation of the modelled runtime only allocates (fresh_ops_frame), setRankIds writes only its receiver, the compiler-side tensor name spells its active ranks. The checker is evaluated by the kernel on EVERY emitted program (a rejection is a broken obligation with a failing-input search) and its predicted final rank ids are compared with the interpreter's on every executed case + kernel-evaluated post-conditions on the final state of every execution (names, result under its declared name/rank order/original coordinates vs the oracle, inputs unchanged).",
         EXEC_NOTE + "The abstract rank-id semantics Model/RankTy.v is trusted and tied to Model/Interp.v through the rank ids of the final state of every executed case (Model/RankTyTie.v).", "Rocq proof of a rank-id/alias checker evaluated per program + frame theorems on the runtime model + kernel-evaluated post-conditions on every execution", "DESIGN.md section 0A / 6 C07"),
 "C15": ("translation_validation",
         "Correspondence-heavy (partial): deep snapshots of the five parsed objects around HiFiber(...) must be equal; a second compilation from the same objects must succeed with identical text; three compilation orders in fresh processes must give identical text per specification; Model/BindStore.v (buffet defaults + eager expansion, with/without sharing) is tied by T-eq to the real BuffetComponent. Theorems: with a private copy any sequence of component constructions leaves the store unchanged and is repeatable; the pinned tree's sharing is refuted with a witness (finding F2, fixed).",
         "Trusted: Coq kernel+VM; the snapshot function (observable state = recursive vars() of parsed objects); sampled compilation orders.", "snapshot/recompile/order correspondence + Rocq model of the bindings store tied by T-eq", "DESIGN.md section 6 C15"),
 "C16": ("translation_validation",
         "Coq theorems: the emitted slip counter discipline yields pairwise distinct stamps for any sequence (slip_unique), one per activity; canvas/metrics API calls of the modelled runtime are observation-only + kernel-evaluated execution of graphics-mode programs with a recording canvas: tensors equal the oracle, one activity per executed update, point arities, distinct stamps for well-ordered loop orders.",
         EXEC_NOTE, "Rocq theorems (list induction; frame) + kernel-evaluated execution with a recording canvas", "DESIGN.md section 6 C16"),
 "C08": ("translation_validation",
         "CPython's hash-seeded iteration order is sampled (worker processes under 6/24 PYTHONHASHSEEDs plus 4/16 forced pseudo-random iteration orders of every set the compiler builds with set()), not modelled. Every distinct text emitted for one specification is decided closed by the verified (sound and complete) da checker and executed in the kernel VM on identical inputs against the oracle; every process also compiles each specification twice and the texts must be identical. Theorem part: exactness of the closedness verdict per variant (C08_variant_closedness_decided_partial); order-independence of hoisting is C10's theorem.",
         EXEC_NOTE + "Hash seeds are sampled, not enumerated.", "seed-sampled variants, each decided by the proved da checker + kernel-evaluated execution on identical inputs", "DESIGN.md section 6 C08"),
 "C09": ("translation_validation",
         "Per-tree translation validation with CPython's own parser as the definition of what the text denotes: the object tree the translator built is dumped constructor-for-constructor (EParens included) into Model/HAst.v, the emitted text is parsed by CPython's ast into Model/Py.v, and inside coqc norm(strip(tree)) = norm(parse(text)) is decided by a sumbool equality (sound by construction) - same statements, nesting, operators, operands, tuple arities, keyword arguments, up to re-association of + chains and * chains only. Coq theorems: norm preserves the integer value of every arithmetic expression, is idempotent, its image is exactly the normal forms; the check returns OK iff the normalised trees are equal. Populations: all statement trees of C01-C05/C16/C11 + every expression CoordAccess.build_expr produces from generated affine sympy expressions.",
         "Trusted: Coq kernel+VM; CPython ast.parse; tools/py2coq.py and tools/obj2coq.py (fail-closed, cross-checking each other); reading EVar('None'/'True'/'False') as constants.",
         "tree-vs-CPython-parse structural validation decided in the kernel + Rocq theorems on the re-association normal form", "DESIGN.md section 6 C09"),
 "C11": ("translation_validation",
         "Coq theorems about the modelled runtime (API calls other than Tensor only allocate/log; explicit shape and trace= are irrelevant) + pairwise kernel-evaluated execution: every specification with architecture/bindings/format (5 accelerator YAMLs, generated architectures with DRAM/cache/buffet/intersectors of each type/compute, compute-only cascades) is compiled with and without the hardware sections and both programs executed on identical inputs; tensors must equal each other and the oracle.",
         EXEC_NOTE + "Fiber.intersection(style=leader-follower) is modelled as intersection with payloads in argument order.", "Rocq frame/inertness lemmas + paired kernel-evaluated execution (metrics vs plain) vs oracle", "DESIGN.md section 6 C11"),
 "C13": ("proof",
         "Coq theorems (coq/Props/C13.v): for every history of Einsums with any features, the fusion automaton yields a legal ordered partition (C13_fusion_legal, induction over the history with the invariant that components_used covers the open block); verified sound+complete decision procedure legal_blocks_b. Tied to the current tree on every run by driving the real Program/Hardware/Fusion objects and the emitted metrics[\"blocks\"] with generated histories, comparing with the model (T-eq) and evaluating the verified checker on the code's own blocks (T-ref) inside coqc.",
         "Trusted: Coq kernel+VM; the harness's feature extraction from generated YAML; hand-written model Model/Fusion.v tied by correspondence on ~1000 (quick) generated histories. All theorems closed under the global context.",
         "Rocq proof (induction over histories) + executable correspondence of the model with teaal.ir.fusion + verified checker on the code's output", "DESIGN.md section 6 C13"),
}

# properties built in their own branch register themselves through tools/props/<id>.meta.json
import glob
for mf in sorted(glob.glob(os.path.join(VERIF, "tools", "props", "*.meta.json"))):
    md = json.load(open(mf))
    CHECKS[md["property_id"]] = (md["category"], md["text"], md["note"], md["technique"], md.get("design_ref", "DESIGN.md section 0A"))

NA_REASONS = {}   # property id -> reason, for properties deliberately not claimed

checks = []
for pid in sorted(CHECKS):
    cat, text, note, tech, ref = CHECKS[pid]
    checks.append({
        "property_id": pid,
        "quick_cmd": "/venv/bin/python tools/check.py %s --tier quick" % pid,
        "thorough_cmd": "/venv/bin/python tools/check.py %s --tier thorough" % pid,
        "evidence_file": "/verif/evidence/%s.json" % pid,
        "replay_cmd_template": "/venv/bin/python tools/check.py %s --replay {path}" % pid,
        "engine": "coq",
        "level_claimed": {"category": cat, "text": text, "design_ref": ref},
        "level_note": note,
        "technique": tech,
    })
claimed = set(CHECKS)
m = {
 "version": 1,
 "setup_cmd": "cd /verif/coq && coq_makefile -f _CoqProject -o Makefile && timeout 3000 make -j16",
 "hooks": {"guard": "TEAAL_VERIF",
           "enable": "no hooks are needed: every object the checks observe is reachable through public constructors/attributes; checks import teaal from /repo's working tree (PYTHONPATH=/repo)",
           "baseline_off_cmd": "cd /repo && /venv/bin/python -m pytest -q -p no:cacheprovider", "source_commits": [], "add_only": True},
 "engines": [{"name": "coq", "path": "/verif/coq", "serves_properties": sorted(claimed),
              "kind_free_text": "Coq 8.16.1 development (Model/, Proofs/, Props/) + per-run generated case files evaluated with vm_compute"}],
 "checks": checks,
 "notes": "See DESIGN.md. fix: commits in /repo: 0f7a07c (F1), 4072179 (F10). known_findings.json lists open findings.",
 "not_applicable": [{"property_id": p["id"], "reason": NA_REASONS.get(p["id"], "check not built yet in this round (work in progress; see DESIGN.md section 8 for the order)")}
                    for p in props if p["id"] not in claimed],
}
json.dump(m, open(os.path.join(VERIF, "MANIFEST.json"), "w"), indent=1)
print("claimed:", sorted(claimed))
