"""Populations of specifications (DESIGN.md 3.1).  Every choice comes from the
`rng` handed in, so a run is reproducible from VERIF_SEED."""
import itertools

RANK_POOL = ["J", "K", "M", "N"]
TENSOR_POOL = ["A", "B", "C", "D", "E", "F", "G", "H"]


def _idx(ranks):
    return "[" + ", ".join(r.lower() for r in ranks) + "]"


def gen_plain_einsum(rng, max_ranks=3, max_terms=2, max_factors=2, take_p=0.25, scalar_p=0.15, rank0_p=0.1,
                     out_only_p=0.0):
    """One Einsum as a dict {decl, expr, out, ranks, shape} (products, sums, take, scalars, rank-0)."""
    nr = rng.randint(1, max_ranks)
    ranks = rng.sample(RANK_POOL, nr)
    nterms = rng.randint(1, max_terms)
    names = iter(TENSOR_POOL)
    decl = {}
    terms = []
    shape = {"terms": nterms, "take": 0, "scalar": 0, "rank0": 0, "out_only": 0}
    for _ in range(nterms):
        is_take = rng.random() < take_p
        nf = rng.randint(2, max(2, max_factors)) if is_take else rng.randint(1, max_factors)
        facs = []
        for _ in range(nf):
            if rng.random() < rank0_p:
                facs.append([])
            else:
                k = rng.randint(1, nr)
                facs.append(rng.sample(ranks, k))
        # make the term cover all ranks
        missing = [r for r in ranks if not any(r in f for f in facs)]
        for r in missing:
            f = rng.choice(facs)
            f.insert(rng.randint(0, len(f)), r)
        strs = []
        for f in facs:
            n = next(names)
            decl[n] = list(f)
            if not f:
                shape["rank0"] += 1
            strs.append(n + _idx(f))
        if is_take:
            sel = rng.randrange(len(strs))
            terms.append("take(" + ", ".join(strs) + ", %d)" % sel)
            shape["take"] += 1
        else:
            if rng.random() < scalar_p:
                strs.insert(rng.randint(0, len(strs)), rng.choice(["a", "b"]))
                shape["scalar"] += 1
            terms.append(" * ".join(strs))
    nout = rng.randint(0, nr)
    out = rng.sample(ranks, nout)
    decl["Z"] = list(out)
    expr = "Z" + _idx(out) + " = " + " + ".join(terms)
    return {"decl": decl, "expr": expr, "out": "Z", "ranks": ranks, "shape": shape}


def yaml_of(decl, exprs, mapping=None):
    y = "einsum:\n  declaration:\n"
    for t, rs in decl.items():
        y += "    %s: [%s]\n" % (t, ", ".join(rs))
    y += "  expressions:\n"
    for e in exprs:
        y += "  - %s\n" % e
    if mapping:
        y += "mapping:\n"
        for sec in ("rank-order", "partitioning", "loop-order", "spacetime"):
            if sec in mapping and mapping[sec]:
                y += "  %s:\n" % sec
                for k, v in mapping[sec].items():
                    if sec in ("rank-order", "loop-order"):
                        y += "    %s: [%s]\n" % (k, ", ".join(v))
                    elif sec == "partitioning":
                        y += "    %s:\n" % k
                        for r, ds in v.items():
                            y += "      %s: [%s]\n" % (r, ", ".join(ds))
                    else:
                        y += "    %s:\n" % k
                        y += "      space: [%s]\n" % ", ".join(v["space"])
                        y += "      time: [%s]\n" % ", ".join(v["time"])
                        if v.get("opt"):
                            y += "      opt: %s\n" % v["opt"]
    return y


def random_mapping(rng, es, rank_order_p=0.7, loop_order_p=0.9):
    """Random rank orders for the tensors and a random loop order for a plain Einsum."""
    m = {"rank-order": {}, "loop-order": {}}
    for t, rs in es["decl"].items():
        if len(rs) > 1 and rng.random() < rank_order_p:
            p = list(rs)
            rng.shuffle(p)
            m["rank-order"][t] = p
    if rng.random() < loop_order_p:
        out = es["decl"][es["out"]]
        allr = list(out) + [r for r in es["ranks"] if r not in out]
        rng.shuffle(allr)
        m["loop-order"][es["out"]] = allr
    return m


def take_selected_lacks_rank(struct):
    """Structural predicate of finding F7: a take() that is one term of a multi-term sum and whose
    selected operand does not hold every rank held by the other operands of the take."""
    if len(struct["terms"]) < 2:
        return False
    for t in struct["terms"]:
        if t["take"] is None:
            continue
        facs = t["factors"]
        sel = facs[t["take"]]
        selr = set(v for a in (sel[2] if sel[0] == "T" else []) for _, v in a)
        others = set()
        for i, f in enumerate(facs):
            if i != t["take"] and f[0] == "T":
                others |= set(v for a in f[2] for _, v in a)
        if not others <= selr:
            return True
    return False


def has_take(struct):
    return any(t["take"] is not None for t in struct["terms"])
