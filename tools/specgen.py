"""Populations of specifications (DESIGN.md 3.1).  Every choice comes from the
`rng` handed in, so a run is reproducible from VERIF_SEED."""
import itertools

RANK_POOL = ["J", "K", "M", "N"]
TENSOR_POOL = ["A", "B", "C", "D", "E", "F", "G", "H", "P", "Q", "R", "S"]


def _idx(ranks):
    return "[" + ", ".join(r.lower() for r in ranks) + "]"


def gen_plain_einsum(rng, max_ranks=3, max_terms=2, max_factors=2, take_p=0.25, scalar_p=0.3, rank0_p=0.1,
                     out_only_p=0.0, pool=None):
    """One Einsum as a dict {decl, expr, out, ranks, shape} (products, sums, take, scalars, rank-0)."""
    nr = rng.randint(1, max_ranks)
    ranks = rng.sample(pool or RANK_POOL, nr)
    nterms = rng.randint(1, max_terms)
    names = iter(TENSOR_POOL)
    decl = {}
    terms = []
    shape = {"terms": nterms, "take": 0, "scalar": 0, "rank0": 0, "out_only": 0}
    for _ in range(nterms):
        is_take = rng.random() < take_p
        nf = rng.randint(2, max(2, max_factors)) if is_take else rng.randint(1, max_factors)
        facs = []
        for _ in range(nf):
            if rng.random() < rank0_p:
                facs.append([])
            else:
                k = rng.randint(1, nr)
                facs.append(rng.sample(ranks, k))
        # make the term cover all ranks
        missing = [r for r in ranks if not any(r in f for f in facs)]
        for r in missing:
            f = rng.choice(facs)
            f.insert(rng.randint(0, len(f)), r)
        strs = []
        for f in facs:
            n = next(names)
            decl[n] = list(f)
            if not f:
                shape["rank0"] += 1
            strs.append(n + _idx(f))
        if is_take:
            if rng.random() < 0.2:
                # a scalar among the operands of take()
                strs.insert(rng.randint(0, len(strs)), rng.choice(["a", "b"]))
                shape["scalar"] += 1
            sel = rng.randrange(len(strs))
            terms.append("take(" + ", ".join(strs) + ", %d)" % sel)
            shape["take"] += 1
        else:
            if rng.random() < scalar_p:
                # scalar factors; the same scalar may occur several times in one product and in several terms
                for _ in range(1 if rng.random() < 0.6 else 2):
                    strs.insert(rng.randint(0, len(strs)), rng.choice(["a", "b"]))
                    shape["scalar"] += 1
            terms.append(" * ".join(strs))
    nout = rng.randint(0, nr)
    out = rng.sample(ranks, nout)
    spare = [r for r in RANK_POOL if r not in ranks]
    if spare and rng.random() < out_only_p:
        # an output-only (broadcast) rank: held by the output and by no input
        out.insert(rng.randint(0, len(out)), rng.choice(spare))
        shape["out_only"] += 1
    decl["Z"] = list(out)
    expr = "Z" + _idx(out) + " = " + " + ".join(terms)
    return {"decl": decl, "expr": expr, "out": "Z", "ranks": ranks, "shape": shape}


def yaml_of(decl, exprs, mapping=None):
    y = "einsum:\n  declaration:\n"
    for t, rs in decl.items():
        y += "    %s: [%s]\n" % (t, ", ".join(rs))
    y += "  expressions:\n"
    for e in exprs:
        y += "  - %s\n" % e
    if mapping:
        y += "mapping:\n"
        for sec in ("rank-order", "partitioning", "loop-order", "spacetime"):
            if sec in mapping and mapping[sec]:
                y += "  %s:\n" % sec
                for k, v in mapping[sec].items():
                    if sec in ("rank-order", "loop-order"):
                        y += "    %s: [%s]\n" % (k, ", ".join(v))
                    elif sec == "partitioning":
                        y += "    %s:\n" % k
                        for r, ds in v.items():
                            y += "      %s: [%s]\n" % (r, ", ".join(ds))
                    else:
                        y += "    %s:\n" % k
                        y += "      space: [%s]\n" % ", ".join(v["space"])
                        y += "      time: [%s]\n" % ", ".join(v["time"])
                        if v.get("opt"):
                            y += "      opt: %s\n" % v["opt"]
    return y


def random_mapping(rng, es, rank_order_p=0.7, loop_order_p=0.9):
    """Random rank orders for the tensors and a random loop order for a plain Einsum."""
    m = {"rank-order": {}, "loop-order": {}}
    for t, rs in es["decl"].items():
        if len(rs) > 1 and rng.random() < rank_order_p:
            p = list(rs)
            rng.shuffle(p)
            m["rank-order"][t] = p
    if rng.random() < loop_order_p:
        out = es["decl"][es["out"]]
        allr = list(out) + [r for r in es["ranks"] if r not in out]
        rng.shuffle(allr)
        m["loop-order"][es["out"]] = allr
    return m


def take_selected_lacks_rank(struct):
    """Structural predicate of finding F7: a take() that is one term of a multi-term sum and whose
    selected operand does not hold every rank held by the other operands of the take."""
    if len(struct["terms"]) < 2:
        return False
    for t in struct["terms"]:
        if t["take"] is None:
            continue
        facs = t["factors"]
        sel = facs[t["take"]]
        selr = set(v for a in (sel[2] if sel[0] == "T" else []) for _, v in a)
        others = set()
        for i, f in enumerate(facs):
            if i != t["take"] and f[0] == "T":
                others |= set(v for a in f[2] for _, v in a)
        if not others <= selr:
            return True
    return False


def has_take(struct):
    return any(t["take"] is not None for t in struct["terms"])


# ----------------------------------------------------------------------------
# partitioning
# ----------------------------------------------------------------------------

def gen_shape_stack(rng, rank, depth, sym_p=0.3, nway_p=0.35):
    """A stack of `depth` shape directives for `rank` (outermost first) and the symbolic sizes used."""
    dirs, syms = [], {}
    size = rng.randint(3, 7)
    for lvl in range(depth):
        if dirs and rng.random() < 0.15:
            # two adjacent levels written with the identical directive (same kind, same literal or symbolic size)
            dirs.append(dirs[-1])
            continue
        nway = rng.random() < nway_p
        val = rng.randint(1, 4) if nway else max(1, size)
        if rng.random() < sym_p:
            nm = "%s%sS%d" % (rank, "W" if nway else "U", lvl)
            syms[nm] = val
            arg = nm
        else:
            arg = str(val)
        dirs.append(("nway_shape(%s)" if nway else "uniform_shape(%s)") % arg)
        size = max(1, size // 2) if rng.random() < 0.8 else rng.randint(1, 7)
    return dirs, syms


def levels_of(rank, n):
    return ["%s%d" % (rank, i) for i in range(n, -1, -1)]


def shape_partitioned_mapping(rng, es, max_part_ranks=2, max_depth=3, well_ordered_p=0.3):
    """Random rank orders + shape partitioning of a subset of ranks + a loop order over all levels."""
    m = random_mapping(rng, es, loop_order_p=0.0)
    out = es["out"]
    k = rng.randint(1, min(max_part_ranks, len(es["ranks"])))
    prs = rng.sample(es["ranks"], k)
    part, syms, lv = {}, {}, {}
    for r in prs:
        depth = rng.choice([1, 1, 2, 2, 3][:max(1, 2 * max_depth - 1)])
        depth = min(depth, max_depth)
        part[r], s = gen_shape_stack(rng, r, depth)
        syms.update(s)
        lv[r] = levels_of(r, depth)
    m["partitioning"] = {out: part}
    outr = es["decl"][out]
    allr = list(outr) + [r for r in es["ranks"] if r not in outr]
    loop = []
    for r in allr:
        loop.extend(lv.get(r, [r]))
    if rng.random() >= well_ordered_p:
        rng.shuffle(loop)
    else:
        # keep each rank's levels outermost-to-innermost, shuffle the interleaving
        keyed = [(rng.random(), x) for x in loop]
        order = sorted(range(len(loop)), key=lambda i: keyed[i][0])
        slots = {}
        for r in allr:
            slots[r] = sorted(order.index(i) for i, x in enumerate(loop) if x in lv.get(r, [r]))
        new = [None] * len(loop)
        for r in allr:
            for pos, x in zip(slots[r], lv.get(r, [r])):
                new[pos] = x
        loop = new
    m["loop-order"] = {out: loop}
    return m, syms


def gen_product_einsum(rng, max_ranks=3, max_factors=3, pool=None):
    """A single product term (C03's class)."""
    return gen_plain_einsum(rng, max_ranks=max_ranks, max_terms=1, max_factors=max_factors, take_p=0.0,
                            scalar_p=0.1, rank0_p=0.0, pool=pool)


def holders(es, rank):
    return [t for t, rs in es["decl"].items() if rank in rs and t != es["out"]]


def occupancy_mapping(rng, es, flatten_p=0.45, shape_above_p=0.3, shape_beside_flatten_p=0.5, second_flatten_p=0.6):
    """uniform_occupancy (1-2 levels, alone or beneath a shape split) and/or flatten() of 2-3 ranks of one tensor
    (+ occupancy of the flattened rank), with a well-ordered loop order.  Beside a flatten(): a second, disjoint
    flatten() of two further ranks of an input tensor (4-rank Einsums), and/or an independent partitioning of another rank
    of the flattened tensor that is either an occupancy stack or a PURE shape stack (uniform_shape / nway_shape only)."""
    m = random_mapping(rng, es, loop_order_p=0.0)
    out = es["out"]
    part, syms, lv = {}, {}, {}
    ranks = list(es["ranks"])
    outr = es["decl"][out]
    flat = None
    flat2 = None
    if len(ranks) >= 2 and rng.random() < flatten_p:
        # flatten 2-3 ranks held together by one input tensor
        cands = [t for t, rs in es["decl"].items() if t != out and len(rs) >= 2]
        if cands:
            t = rng.choice(cands)
            k = rng.randint(2, min(3, len(es["decl"][t])))
            fr = rng.sample(es["decl"][t], k)
            name = "".join(fr)
            part["(%s)" % ", ".join(fr)] = ["flatten()"]
            flat = (fr, name, t)
            if rng.random() < 0.7:
                n = rng.choice([1, 1, 2])
                ds = []
                size = rng.randint(2, 5)
                for i in range(n):
                    ds.append("uniform_occupancy(%s.%d)" % (t, size))
                    size = max(1, size // 2)
                part[name] = ds
                lv[name] = levels_of(name, n)
            else:
                lv[name] = [name]
            # the flattened tensor must hold the flattened ranks adjacently, in this order, at the bottom?  let the
            # compiler decide: put them last in its rank order
            rest = [r for r in es["decl"][t] if r not in fr]
            m["rank-order"][t] = rest + fr
            # a second flatten() of two further ranks, held together by an input tensor (the same one or another)
            left = [r for r in ranks if r not in fr]
            c2 = [t2 for t2, rs in es["decl"].items() if t2 != out and len([r for r in rs if r in left]) >= 2]
            if c2 and rng.random() < second_flatten_p:
                t2 = rng.choice(c2)
                fr2 = rng.sample([r for r in es["decl"][t2] if r in left], 2)
                name2 = "".join(fr2)
                part["(%s)" % ", ".join(fr2)] = ["flatten()"]
                lv[name2] = [name2]
                flat2 = (fr2, name2, t2)
                if t2 != t:
                    m["rank-order"][t2] = [r for r in es["decl"][t2] if r not in fr2] + fr2
                else:
                    m["rank-order"][t] = [r for r in es["decl"][t] if r not in fr and r not in fr2] + fr2 + fr
    free = [r for r in ranks if (not flat or r not in flat[0]) and (not flat2 or r not in flat2[0])]
    if flat and free and rng.random() < shape_beside_flatten_p:
        # an independent PURE shape split (no occupancy level) of another rank, preferably of the flattened tensor itself
        same = [r for r in free if r in es["decl"][flat[2]]]
        r = rng.choice(same or free)
        depth = rng.choice([1, 1, 2])
        part[r], s = gen_shape_stack(rng, r, depth)
        syms.update(s)
        lv[r] = levels_of(r, depth)
        free = []
    if free and (not flat or rng.random() < 0.6):
        r = rng.choice(free)
        hs = holders(es, r)
        if hs:
            ds = []
            if rng.random() < shape_above_p:
                ds.append("uniform_shape(%d)" % rng.randint(3, 6))
            n = rng.choice([1, 1, 2])
            size = rng.randint(2, 4)
            leader = rng.choice(hs)
            for i in range(n):
                ds.append("uniform_occupancy(%s.%d)" % (leader, size))
                size = max(1, size // 2)
            part[r] = ds
            lv[r] = levels_of(r, len(ds))
    if not part:
        return None, None
    m["partitioning"] = {out: part}
    # loop order: units = flattened rank (as one unit) and other ranks; well-ordered interleaving
    units = []
    for r in list(outr) + [r for r in ranks if r not in outr]:
        fl = flat if (flat and r in flat[0]) else (flat2 if (flat2 and r in flat2[0]) else None)
        if fl:
            if fl[1] not in units:
                units.append(fl[1])
        else:
            units.append(r)
    rng.shuffle(units)
    seqs = [list(lv.get(u, [u])) for u in units]
    loop = []
    while any(seqs):
        s = rng.choice([q for q in seqs if q])
        loop.append(s.pop(0))
    m["loop-order"] = {out: loop}
    return m, syms


# ----------------------------------------------------------------------------
# affine index expressions (C04)
# ----------------------------------------------------------------------------

def _term(c, v):
    if c == 1:
        return v
    return "%d*%s" % (c, v)


def _aff_str(terms):
    return " + ".join(_term(c, v) for c, v in terms)


def gen_affine_einsum(rng, neg_p=0.15, two_d_p=0.25, extra_p=0.25, same_p=0.1, sum_p=0.1, single_p=0.1):
    """O[q] = I[a*q + b*s] * F[s] and 2-D variants; returns dict with access coefficients."""
    if rng.random() < single_p:
        # a single-variable (strided / renamed) access: O[q] = I[a*q] (* G[q]); the loop may be written over Q or over W
        a = rng.choice([1, 2, 2, 3])
        decl = {"I": ["W"], "O": ["Q"]}
        expr = "O[q] = I[%s]" % _aff_str([(a, "q")])
        if rng.random() < 0.5:
            decl = {"I": ["W"], "G": ["Q"], "O": ["Q"]}
            expr += " * G[q]"
        return {"decl": decl, "expr": expr, "out": "O", "ranks": ["Q"], "acc": {"W": [(a, "q")]}, "a": a, "b": 0,
                "shape": {"terms": 1, "take": 0, "scalar": 0, "rank0": 0}}
    a = rng.choice([1, 1, 1, 2, 2, 3, 4])
    b = rng.choice([1, 1, 1, 2, 2, 3, 4])
    if rng.random() < neg_p:
        b = -b
    acc = {"W": [(a, "q"), (b, "s")]}
    if rng.random() < 0.3:
        order = [(b, "s"), (a, "q")]
    else:
        order = [(a, "q"), (b, "s")]
    if rng.random() < two_d_p:
        # second, plain convolution dimension
        decl = {"I": ["H", "W"], "F": ["R", "S"], "O": ["P", "Q"]}
        expr = "O[p, q] = I[p + r, %s] * F[r, s]" % _aff_str(order)
        acc["H"] = [(1, "p"), (1, "r")]
        out_ranks = ["P", "Q"]
        ranks = ["P", "Q", "R", "S"]
    else:
        decl = {"I": ["W"], "F": ["S"], "O": ["Q"]}
        expr = "O[q] = I[%s] * F[s]" % _aff_str(order)
        x = rng.random()
        if x < extra_p:
            # a further operand holding Q or S directly (co-iterated with the projected tensor)
            r = rng.choice(["Q", "S"])
            decl = {"I": ["W"], "F": ["S"], "G": [r], "O": ["Q"]}
            expr += " * G[%s]" % r.lower()
        elif x < extra_p + same_p:
            # a second tensor read through the same affine expression (two projections meet in one intersection)
            decl = {"I": ["W"], "J": ["W"], "F": ["S"], "O": ["Q"]}
            expr = "O[q] = I[%s] * J[%s] * F[s]" % (_aff_str(order), _aff_str(order))
        elif x < extra_p + same_p + sum_p:
            # a sum of two convolutions: projections inside a union
            decl = {"I": ["W"], "J": ["W"], "F": ["S"], "G": ["S"], "O": ["Q"]}
            expr = "O[q] = I[%s] * F[s] + J[%s] * G[s]" % (_aff_str(order), _aff_str(order))
        out_ranks = ["Q"]
        ranks = ["Q", "S"]
    return {"decl": decl, "expr": expr, "out": "O", "ranks": ranks, "acc": acc, "a": a, "b": b,
            "shape": {"terms": 1, "take": 0, "scalar": 0, "rank0": 0}}


def affine_extents(rng, es, qmax=7, smax=3):
    ext = {}
    for r in es["ranks"]:
        ext[r] = rng.randint(1, qmax if r in ("P", "Q") else smax)
    for big, terms in es["acc"].items():
        hi = sum(c * (ext[v.upper()] - 1) for c, v in terms if c > 0)
        ext[big] = hi + 1
    return ext


def affine_mapping(rng, es, part_p=0.5, derive_s_p=0.33, split_s_p=0.2):
    """loop order over {Q or W, S} (and {P or H, R}); optional shape partitioning of Q with W following."""
    out = es["out"]
    m = {"rank-order": {}, "loop-order": {}}
    part = {}
    qlv = ["Q"]
    wlv = ["W"]
    kind = "none"
    syms = {}
    if rng.random() < part_p:
        depth = rng.choice([1, 1, 1, 2])
        ds = []
        size = rng.randint(2, 4)
        for i in range(depth):
            nway = rng.random() < 0.25
            if rng.random() < 0.5:
                nm = "Q%sS%d" % ("W" if nway else "U", i)
                syms[nm] = rng.randint(2, 3) if nway else size
                ds.append(("nway_shape(%s)" if nway else "uniform_shape(%s)") % nm)
            else:
                ds.append("nway_shape(%d)" % rng.randint(2, 3) if nway else "uniform_shape(%d)" % size)
            size = max(1, size // 2)
        part["Q"] = ds
        part["W"] = ["follow(Q)"]
        qlv = levels_of("Q", depth)
        wlv = levels_of("W", depth)
        kind = "%d:%s" % (depth, ",".join(d.split("(")[0] for d in ds))
    # per level choose to loop over the output level or the input level
    loop = []
    nq = len(qlv) if rng.random() < 0.6 else rng.randint(0, len(qlv))
    for i, (ql, wl) in enumerate(zip(qlv, wlv)):
        loop.append(ql if i < nq else wl)
    others = ["S"] if "S" in es["ranks"] else []
    if others and rng.random() < derive_s_p:
        # iterate both the output's and the input's innermost level and derive S from them (q = (w - b*s)/a solved for s)
        inner = loop[-1]
        others = [wlv[-1] if inner == qlv[-1] else qlv[-1]]
        kind += "+derivedS"
    if "P" in es["ranks"]:
        others += [rng.choice(["P", "H"]), "R"]
    # the filter rank may be shape-partitioned as well (its levels outermost-to-innermost, anywhere in the nest)
    split_s = others == ["S"] and rng.random() < split_s_p
    if split_s:
        part["S"] = ["uniform_shape(%d)" % rng.choice([2, 2, 3])]
        kind += "+splitS"
        others = [o for o in others if o != "S"]
    # interleave: keep Q levels in order, insert others anywhere
    for o in others:
        loop.insert(rng.randint(0, len(loop)), o)
    if split_s:
        i1 = rng.randint(0, len(loop))
        loop.insert(i1, "S1")
        loop.insert(rng.randint(i1 + 1, len(loop)), "S0")
    m["loop-order"][out] = loop
    if part:
        m["partitioning"] = {out: part}
    return m, kind, syms


# ----------------------------------------------------------------------------
# cascades (C05)
# ----------------------------------------------------------------------------

def gen_cascade(rng, n=None, part_p=0.4):
    """2-4 Einsums chained through intermediates, each with its own mapping.
    Returns (decl, exprs, mapping, syms, per_einsum) ."""
    n = n or rng.randint(2, 4)
    pool = ["A", "B", "C", "D", "E", "F", "G", "H", "I", "L", "P", "Q", "R", "S", "X", "Y",
            "AA", "AB", "AC", "AD", "AE", "AF", "AG", "AH", "AI", "AJ"]
    names = iter(pool)
    outs = ["T", "U", "V", "W"][:n - 1] + ["Z"]
    decl, exprs = {}, []
    mapping = {"rank-order": {}, "loop-order": {}, "partitioning": {}}
    syms = {}
    per = []
    prev = {}
    for k in range(n):
        nr = rng.randint(1, 3)
        ranks = rng.sample(RANK_POOL, nr)
        # try to read at least one previous output
        usable = [t for t, rs in prev.items() if set(rs) <= set(ranks) or rng.random() < 0.5]
        if prev and not usable:
            usable = [rng.choice(list(prev))]
        for t in usable:
            for r in prev[t]:
                if r not in ranks:
                    ranks.append(r)
        ranks = ranks[:4] if len(ranks) > 4 else ranks
        usable = [t for t in usable if set(prev[t]) <= set(ranks)]
        nterms = 1 if rng.random() < 0.75 else 2
        terms = []
        used_prev = set()
        for ti in range(nterms):
            nf = rng.randint(1, 2)
            facs = []
            if usable and (ti == 0 or rng.random() < 0.5):
                cand = [t for t in usable if t not in used_prev]
                if cand:
                    t = rng.choice(cand)
                    used_prev.add(t)
                    facs.append((t, list(prev[t])))
            while len(facs) < nf + (1 if facs and facs[0][0] in prev else 0) and len(facs) < 3:
                k2 = rng.randint(1, len(ranks))
                nm = next(names)
                rs = rng.sample(ranks, k2)
                decl[nm] = list(rs)
                facs.append((nm, rs))
            missing = [r for r in ranks if not any(r in f[1] for f in facs)]
            if missing:
                own = [f for f in facs if f[0] not in prev]
                if not own:
                    nm = next(names)
                    decl[nm] = []
                    own = [(nm, decl[nm])]
                    facs.append(own[0])
                for r in missing:
                    f = rng.choice(own)
                    f[1].append(r)
                    decl[f[0]] = list(f[1])
            rng.shuffle(facs)
            terms.append(" * ".join(t + _idx(rs) for t, rs in facs))
        o = outs[k]
        orank = rng.sample(ranks, rng.randint(0 if k == n - 1 else 1, len(ranks)))
        decl[o] = list(orank)
        prev[o] = list(orank)
        exprs.append(o + _idx(orank) + " = " + " + ".join(terms))
        es = {"decl": {t: decl[t] for t in decl}, "out": o, "ranks": ranks}
        # per-Einsum mapping
        allr = list(orank) + [r for r in ranks if r not in orank]
        if rng.random() < part_p:
            pr = rng.choice(ranks)
            depth = rng.choice([1, 1, 2])
            ds, s = gen_shape_stack(rng, pr, depth, sym_p=0.2)
            ds = [d.replace(pr + "WS", o + pr + "WS").replace(pr + "US", o + pr + "US") for d in ds]
            s = {k_.replace(pr + "WS", o + pr + "WS").replace(pr + "US", o + pr + "US"): v for k_, v in s.items()}
            syms.update(s)
            mapping["partitioning"][o] = {pr: ds}
            loop = []
            for r in allr:
                loop.extend(levels_of(r, depth) if r == pr else [r])
            keyed = sorted(range(len(loop)), key=lambda i: rng.random())
            # well-ordered interleaving
            pos = sorted(keyed[:depth + 1])
            lv = levels_of(pr, depth)
            rest = [x for x in loop if x not in lv]
            rng.shuffle(rest)
            new, ri, li = [], 0, 0
            for i in range(len(loop)):
                if i in pos:
                    new.append(lv[li]); li += 1
                else:
                    new.append(rest[ri]); ri += 1
            mapping["loop-order"][o] = new
        elif rng.random() < 0.8:
            rng.shuffle(allr)
            mapping["loop-order"][o] = allr
        per.append({"out": o, "ranks": ranks})
    for t, rs in decl.items():
        if len(rs) > 1 and rng.random() < 0.5:
            p = list(rs)
            rng.shuffle(p)
            mapping["rank-order"][t] = p
    return decl, exprs, mapping, syms, per


# ----------------------------------------------------------------------------
# spacetime (C16) : stamps every loop rank
# ----------------------------------------------------------------------------

def add_spacetime(rng, mapping, out, loop, coord_p=0.35, slip_p=0.3):
    k = rng.randint(0, len(loop))
    space = rng.sample(loop, k)
    time = [r for r in loop if r not in space]
    if rng.random() < 0.5:
        rng.shuffle(time)

    def styled(r):
        x = rng.random()
        if x < coord_p:
            return r + ".coord"
        if x < coord_p + 0.2:
            return r + ".pos"
        return r
    st = {"space": [styled(r) for r in space], "time": [styled(r) for r in time]}
    if rng.random() < slip_p:
        st["opt"] = "slip"
    mapping.setdefault("spacetime", {})[out] = st
    return st


def default_loop(es):
    outr = es["decl"][es["out"]]
    return list(outr) + [r for r in es["ranks"] if r not in outr]


def affine_occupancy_mapping(rng, es):
    """Index-math Einsum with an OCCUPANCY partitioning of the filter rank S (leader F, 1-2 levels): the bottom level of
    a dynamically partitioned rank is reached by projection.  Loop order: the S levels outermost-to-innermost with Q
    inserted anywhere (and the 2-D ranks anywhere)."""
    out = es["out"]
    n = rng.choice([1, 1, 2])
    size = rng.randint(2, 4)
    ds = []
    for i in range(n):
        ds.append("uniform_occupancy(F.%d)" % size)
        size = max(1, size // 2)
    loop = levels_of("S", n)
    loop.insert(rng.randint(0, len(loop)), "Q")
    if "P" in es["ranks"]:
        for o in (rng.choice(["P", "H"]), "R"):
            loop.insert(rng.randint(0, len(loop)), o)
    m = {"rank-order": {}, "loop-order": {out: loop}, "partitioning": {out: {"S": ds}}}
    return m, "occ:%d" % n, {}


def gen_shape_pairs(rng):
    """Two Einsums in ONE specification that read a common input and shape-partition the same rank of it - with the same
    or with different sizes / numbers of levels - each with its own loop order (state kept across Einsums, e.g. a split of
    the shared input made for the first Einsum, must not leak into the second)."""
    decl = {"A": ["K", "M"], "B": ["K", "N"], "C": ["K", "N"], "T": ["M", "N"], "Z": ["M", "N"]}
    exprs = ["T[m, n] = A[k, m] * B[k, n]", "Z[m, n] = A[k, m] * %s[k, n]" % rng.choice(["C", "B", "C"])]
    if rng.random() < 0.3:
        exprs[1] = "Z[m, n] = A[k, m] * T[m, n] * C[k, n]"
    m = {"rank-order": {}, "loop-order": {}, "partitioning": {}}
    syms = {}
    r = rng.choice(["K", "K", "M"])
    base, _ = gen_shape_stack(rng, r, rng.choice([1, 1, 2]), sym_p=0.0)
    for out in ("T", "Z"):
        if rng.random() < 0.45:
            ds = list(base)                                     # identical directives in both Einsums
        else:
            ds, _ = gen_shape_stack(rng, r, len(base) if rng.random() < 0.7 else rng.choice([1, 2]), sym_p=0.0)
        m["partitioning"][out] = {r: ds}
        loop = []
        for x in ["M", "N", "K"]:
            loop.extend(levels_of(x, len(ds)) if x == r else [x])
        rng.shuffle(loop)
        m["loop-order"][out] = loop
    for t in ("A", "B", "C"):
        if rng.random() < 0.4:
            p = list(decl[t])
            rng.shuffle(p)
            m["rank-order"][t] = p
    return decl, exprs, m, syms


def flatten_only_mapping(rng, es):
    """flatten() of two ranks of one input tensor and nothing else (no split of the flattened rank): in particular an output
    rank flattened together with a reduced rank.  Loop order: the flattened rank and the remaining ranks in any order."""
    out = es["out"]
    outr = es["decl"][out]
    cands = [t for t, rs in es["decl"].items() if t != out and len(rs) >= 2]
    if not cands:
        return None
    t = rng.choice(cands)
    rs = list(es["decl"][t])
    mixed = [(a, b) for a in rs for b in rs if a != b and (a in outr) != (b in outr)]
    pair = list(rng.choice(mixed)) if mixed and rng.random() < 0.7 else rng.sample(rs, 2)
    m = random_mapping(rng, es, loop_order_p=0.0)
    rest = [r for r in rs if r not in pair]
    pos = rng.randint(0, len(rest))
    m["rank-order"][t] = rest[:pos] + pair + rest[pos:]
    m["partitioning"] = {out: {"(%s)" % ", ".join(pair): ["flatten()"]}}
    loop = ["".join(pair)] + [r for r in es["ranks"] if r not in pair]
    if rng.random() < 0.8:
        rng.shuffle(loop)
    m["loop-order"] = {out: loop}
    return m


def gen_affine_pair(rng):
    """Two Einsums of ONE specification that read the same input through DIFFERENT affine expressions over the same index
    variables (two strides / dilations of one input), each with its own loop order."""
    def coeffs():
        return rng.choice([1, 1, 2, 3]), rng.choice([1, 1, 2])
    (a1, b1), (a2, b2) = coeffs(), coeffs()
    if (a1, b1) == (a2, b2):
        a2 = a1 + 1
    decl = {"I": ["W"], "F": ["S"], "G": ["S"], "A": ["Q"], "B": ["Q"]}
    exprs = ["A[q] = I[%s] * F[s]" % _aff_str([(a1, "q"), (b1, "s")]), "B[q] = I[%s] * G[s]" % _aff_str([(a2, "q"), (b2, "s")])]
    m = {"rank-order": {}, "loop-order": {}}
    for out in ("A", "B"):
        if rng.random() < 0.85:
            m["loop-order"][out] = rng.choice([["Q", "S"], ["S", "Q"], ["W", "S"], ["S", "W"], ["W", "Q"], ["Q", "W"]])
    acc = {"W": [(max(a1, a2), "q"), (max(b1, b2), "s")]}
    return {"decl": decl, "exprs": exprs, "mapping": m, "ranks": ["Q", "S"], "acc": acc, "coeffs": [(a1, b1), (a2, b2)]}
