"""Generated multi-Einsum specifications with compute-only architectures
(populations of C13 / C14).  A history is a list of per-Einsum feature dicts;
`to_yaml` renders the specification the real compiler consumes."""
import itertools

NAMES = ["T", "U", "V", "W", "X", "Y"]
RANKS = ["M", "K", "N"]
# architecture trees: (level name, instances, [(component, op)], [subtrees])
TREES = {
    "configA": ("System", 1, 1000, [("MulA0", "mul")],
                [("PE", 4, None, [("MulA1", "mul")],
                  [("Lane", 3, None, [("AddA", "add")], [])])]),
    "configB": ("System", 1, 500, [("AddB", "add")],
                [("Tile", 8, None, [("MulB0", "mul")], [])]),
}


def _walk(tree, mult=1):
    name, num, freq, comps, subs = tree
    for c, op in comps:
        yield c, op, mult * num
    for sub in subs:
        yield from _walk(sub, mult * num)


CONFIGS = {cfg: {"freq": t[2], "comps": list(_walk(t))} for cfg, t in TREES.items()}


def _level_yaml(tree, ind):
    name, num, freq, comps, subs = tree
    pad = " " * ind
    nm = name if num == 1 else "%s[0..%d]" % (name, num - 1)
    y = "%s- name: %s\n" % (pad, nm)
    if freq is not None:
        y += "%s  attributes:\n%s    clock_frequency: %d\n" % (pad, pad, freq)
    y += "%s  local:\n" % pad
    for c, op in comps:
        y += "%s  - name: %s\n%s    class: compute\n%s    attributes:\n%s      type: %s\n" % (pad, c, pad, pad, pad, op)
    if subs:
        y += "%s  subtree:\n" % pad
        for sub in subs:
            y += _level_yaml(sub, ind + 2)
    return y


def all_einsum_features(small=True):
    """Enumerate a small but covering set of per-Einsum features."""
    feats = []
    loops = [["M", "K", "N"], ["K", "M", "N"]] if small else [list(p) for p in itertools.permutations(RANKS)]
    for cfg in CONFIGS:
        comps = [c[0] for c in CONFIGS[cfg]["comps"]]
        subsets = [[], [comps[0]], [comps[1]], comps[:2]] if small else \
            [list(s) for k in range(len(comps) + 1) for s in itertools.combinations(comps, k)]
        for loop in loops:
            for space in ([], ["N"], ["N", "K"], ["K"], ["K", "N"]):
                for cs in subsets:
                    feats.append({"config": cfg, "loop": loop, "space": space, "comps": cs, "empty": []})
    return feats


def random_feature(rng):
    cfg = rng.choice(sorted(CONFIGS))
    comps = [c[0] for c in CONFIGS[cfg]["comps"]]
    loop = list(RANKS)
    rng.shuffle(loop)
    k = rng.choice([0, 1, 1, 2, 3])
    space = rng.sample(RANKS, k)
    cs = [c for c in comps if rng.random() < 0.45]
    # components listed in the bindings with an empty binding list: must not count
    empty = [c for c in comps if c not in cs and rng.random() < 0.25]
    return {"config": cfg, "loop": loop, "space": space, "comps": cs, "empty": empty}


def to_yaml(hist):
    """hist: list of feature dicts (one per Einsum, in program order)."""
    n = len(hist)
    names = NAMES[:n]
    y = "einsum:\n  declaration:\n    A: [K, M]\n    B: [K, N]\n"
    for nm in names:
        y += "    %s: [M, N]\n" % nm
    y += "  expressions:\n"
    for nm in names:
        y += "  - %s[m, n] = A[k, m] * B[k, n]\n" % nm
    y += "mapping:\n  loop-order:\n"
    for nm, f in zip(names, hist):
        y += "    %s: [%s]\n" % (nm, ", ".join(f["loop"]))
    y += "  spacetime:\n"
    for nm, f in zip(names, hist):
        time = [r for r in f["loop"] if r not in f["space"]]
        y += "    %s:\n      space: [%s]\n      time: [%s]\n" % (nm, ", ".join(f["space"]), ", ".join(time))
    y += "format:\n  T:\n    default:\n      rank-order: [M, N]\n      M:\n        format: C\n      N:\n        format: C\n        pbits: 32\n"
    y += "architecture:\n"
    for cfg, t in TREES.items():
        y += "  %s:\n" % cfg + _level_yaml(t, 2)
    y += "bindings:\n"
    for nm, f in zip(names, hist):
        y += "  %s:\n  - config: %s\n    prefix: tmp/%s\n" % (nm, f["config"], nm)
        typ = {c[0]: c[1] for c in CONFIGS[f["config"]]["comps"]}
        for c in f["comps"]:
            y += "  - component: %s\n    bindings:\n    - op: %s\n" % (c, typ[c])
        for c in f.get("empty", []):
            y += "  - component: %s\n    bindings: []\n" % c
    return y
