"""Mixed cascades: 2-4 Einsums over ONE small pool of rank names in which every Einsum independently is a plain
sum-of-products, or uses index arithmetic (strided access I[a*q], convolution I[a*q + b*s]), and independently carries
its own loop order / shape partitioning (with follow) / occupancy partitioning / flattening / spacetime.

What the older `specgen.gen_cascade` never produced (the gap shown by seeded C05-2):
  * index arithmetic in a cascade at all (the per-Einsum CoordMath was never observable);
  * the SAME rank names related differently in different Einsums (w = q + s in one, w = 2*q + s in another, w and q
    independent in a third);
  * rank names other than J, K, M, N;
  * occupancy partitioning / flattening / spacetimes on some Einsums of a cascade and not on others.
Everything is drawn from the `rng` handed in."""
import re

import specgen

# rank names: the usual ones, the convolution ones, names that are also common tensor names (I), two-letter names
RANK_NAMES = ["J", "K", "M", "N", "W", "Q", "S", "H", "R", "P", "I", "X", "Y", "C", "V", "KI", "NB"]
TENSOR_NAMES = ["A", "B", "D", "E", "F", "G", "L", "O", "T", "U", "Z", "AA", "AB", "AC", "AD", "AE", "AF", "AG", "AH",
                "BA", "BB", "BC", "BD", "BE", "BF"]


def _idx(ranks):
    return "[" + ", ".join(r.lower() for r in ranks) + "]"


def _term(c, v):
    return v if c == 1 else "%d*%s" % (c, v)


class _Cascade:
    def __init__(self, rng):
        self.rng = rng
        self.decl = {}
        self.exprs = []
        self.mapping = {"rank-order": {}, "loop-order": {}, "partitioning": {}, "spacetime": {}}
        self.syms = {}
        self.outs = []            # names of produced tensors, in order
        self.names = iter(TENSOR_NAMES)
        self.per = []             # per Einsum: dict(out, ranks, kind, relations)
        self.relations = []       # (big, [(coef, small)...]) of every index-math access, for extents

    def tensor_for(self, ranks, reuse_p=0.5, exclude=()):
        """an existing tensor with exactly these ranks (its declared order is kept), or a new one"""
        rng = self.rng
        cands = [t for t, rs in self.decl.items() if sorted(rs) == sorted(ranks) and t not in exclude]
        prod = [t for t in cands if t in self.outs]
        if prod and rng.random() < 0.8:
            return rng.choice(prod)
        if cands and rng.random() < reuse_p:
            return rng.choice(cands)
        t = next(self.names)
        self.decl[t] = list(ranks)
        return t


def _plain_stage(c, pool, out):
    rng = c.rng
    nr = rng.randint(1, min(3, len(pool)))
    ranks = rng.sample(pool, nr)
    nterms = 1 if rng.random() < 0.8 else 2
    terms = []
    used = []
    for _ in range(nterms):
        nf = rng.randint(1, 3)
        facs = []
        for _ in range(nf):
            rs = rng.sample(ranks, rng.randint(1, nr))
            facs.append(rs)
        missing = [r for r in ranks if not any(r in f for f in facs)]
        for r in missing:
            f = rng.choice(facs)
            f.insert(rng.randint(0, len(f)), r)
        strs = []
        here = []
        for rs in facs:
            t = c.tensor_for(rs, exclude=used + here + [out])
            here.append(t)
            strs.append(t + _idx(c.decl[t]))
        used += here
        if len(strs) >= 2 and rng.random() < 0.1:
            terms.append("take(" + ", ".join(strs) + ", %d)" % rng.randrange(len(strs)))
        else:
            if rng.random() < 0.15:
                strs.insert(rng.randint(0, len(strs)), rng.choice(["a", "b"]))
            terms.append(" * ".join(strs))
    orank = rng.sample(ranks, rng.randint(0 if len(c.exprs) >= 1 and rng.random() < 0.2 else 1, nr))
    c.decl[out] = list(orank)
    expr = out + _idx(orank) + " = " + " + ".join(terms)
    return {"out": out, "ranks": ranks, "kind": "plain", "expr": expr, "inputs": used, "acc": {},
            "single_product": nterms == 1 and "take(" not in expr}


def _affine_stage(c, pool, out):
    """O[q] = I[a*q + b*s] * F[s] (* G[q|s]) or the strided O[q] = I[a*q] (* G[q]) over names W, Q, S drawn from the pool."""
    rng = c.rng
    strided = rng.random() < 0.3
    need = 2 if strided else 3
    if len(pool) < need:
        return None
    names = rng.sample(pool, need)
    W, Q = names[0], names[1]
    S = None if strided else names[2]
    a = rng.choice([1, 1, 2, 2, 3]) if not strided else rng.choice([2, 2, 3])
    b = rng.choice([1, 1, 1, 2])
    acc = [(a, Q.lower())] + ([] if strided else [(b, S.lower())])
    if rng.random() < 0.3:
        acc.reverse()
    ti = c.tensor_for([W], exclude=[out])
    facs = [ti + "[" + " + ".join(_term(k, v) for k, v in acc) + "]"]
    used = [ti]
    if not strided:
        tf = c.tensor_for([S], exclude=used + [out])
        used.append(tf)
        facs.append(tf + _idx([S]))
    if rng.random() < 0.35:
        r = rng.choice([Q] if strided else [Q, S])
        tg = c.tensor_for([r], exclude=used + [out])
        used.append(tg)
        facs.append(tg + _idx([r]))
    c.decl[out] = [Q]
    expr = out + _idx([Q]) + " = " + " * ".join(facs)
    c.relations.append((W, [(a, Q)] + ([] if strided else [(b, S)])))
    return {"out": out, "ranks": [Q] + ([] if strided else [S]), "kind": "strided" if strided else "conv", "expr": expr, "inputs": used,
            "acc": {W: acc}, "W": W, "Q": Q, "S": S, "a": a, "b": b}


def _rename_syms(ds, syms, out):
    """symbolic partition sizes are made unique per Einsum (prefix = the output's name)"""
    ren = {k: out + k for k in syms}
    ds2 = [re.sub(r'\(([A-Za-z]\w*)\)', lambda m: "(%s)" % ren.get(m.group(1), m.group(1)), d) for d in ds]
    return ds2, {ren[k]: v for k, v in syms.items()}


def _map_plain(c, st):
    """loop order / shape / occupancy / flatten for a plain stage (re-using the single-Einsum generators on a local view)"""
    rng = c.rng
    out = st["out"]
    local = {t: c.decl[t] for t in st["inputs"]}
    local[out] = c.decl[out]
    es = {"decl": local, "out": out, "ranks": st["ranks"]}
    x = rng.random()
    m, syms = None, {}
    if x < 0.25:
        m, syms = specgen.shape_partitioned_mapping(rng, es, max_part_ranks=1, max_depth=2, well_ordered_p=0.7)
        st["part"] = "shape"
    elif x < 0.5 and st["single_product"]:
        # leader/follower partitioning is C03's class: one product term (under a sum the follower of an absent leader fiber is lost)
        m, syms = specgen.occupancy_mapping(rng, es)
        st["part"] = "occupancy" if m else None
        if m is not None:
            # a flattened tensor needs its own rank order: only when nobody fixed one yet
            for t, ro in m["rank-order"].items():
                if t in c.mapping["rank-order"] and c.mapping["rank-order"][t] != ro and any(len(k) > 1 and k.startswith("(") for k in m["partitioning"][out]):
                    m = None
                    st["part"] = None
                    break
    if m is None:
        m = {"rank-order": {}, "loop-order": {}}
        if rng.random() < 0.8:
            lo = specgen.default_loop(es)
            rng.shuffle(lo)
            m["loop-order"][out] = lo
        syms = {}
    for t, ro in m.get("rank-order", {}).items():
        c.mapping["rank-order"].setdefault(t, ro)
    if m.get("partitioning"):
        part = {}
        allsyms = {}
        for r, ds in m["partitioning"][out].items():
            ds2, s2 = _rename_syms(ds, {k: v for k, v in (syms or {}).items() if any(k in d for d in ds)}, out)
            part[r] = ds2
            allsyms.update(s2)
        c.mapping["partitioning"][out] = part
        c.syms.update(allsyms)
    if out in m.get("loop-order", {}):
        c.mapping["loop-order"][out] = m["loop-order"][out]
    return es


def _map_affine(c, st):
    """loop order over {Q or W levels, S}; optional shape partitioning of Q with W following (1-2 levels)"""
    rng = c.rng
    out, W, Q, S = st["out"], st["W"], st["Q"], st["S"]
    qlv, wlv = [Q], [W]
    if rng.random() < 0.45:
        depth = rng.choice([1, 1, 1, 2])
        ds = []
        size = rng.randint(2, 4)
        for i in range(depth):
            if rng.random() < 0.3:
                nm = "%s%sUS%d" % (out, Q, i)
                c.syms[nm] = size
                ds.append("uniform_shape(%s)" % nm)
            else:
                ds.append("uniform_shape(%d)" % size)
            size = max(1, size // 2)
        c.mapping["partitioning"][out] = {Q: ds, W: ["follow(%s)" % Q]}
        qlv, wlv = specgen.levels_of(Q, depth), specgen.levels_of(W, depth)
        st["part"] = "shape+follow:%d" % depth
    loop = []
    nq = len(qlv) if rng.random() < 0.85 else rng.randint(0, len(qlv))
    for i, (ql, wl) in enumerate(zip(qlv, wlv)):
        loop.append(ql if i < nq else wl)
    if S is not None:
        loop.insert(rng.randint(0, len(loop)), S)
    for r in st["ranks"]:
        if r not in (Q, S):
            loop.insert(rng.randint(0, len(loop)), r)
    if "part" in st or rng.random() < 0.8:
        c.mapping["loop-order"][out] = loop
    local = {t: c.decl[t] for t in st["inputs"]}
    local[out] = c.decl[out]
    return {"decl": local, "out": out, "ranks": st["ranks"]}


def gen_mixed_cascade(rng, n=None, affine_p=0.45, spacetime_p=0.25, pool_size=None):
    """-> dict(decl, exprs, mapping, syms, per, relations, yaml)"""
    c = _Cascade(rng)
    n = n or rng.randint(2, 4)
    pool = rng.sample(RANK_NAMES, pool_size or rng.randint(3, 5))
    outs = [next(c.names) for _ in range(n)]
    want_affine = [rng.random() < affine_p for _ in range(n)]
    if not any(want_affine) and rng.random() < 0.6:
        want_affine[rng.randrange(n)] = True
    for k in range(n):
        out = outs[k]
        st = None
        if want_affine[k]:
            st = _affine_stage(c, pool, out)
        if st is None:
            st = _plain_stage(c, pool, out)
        c.exprs.append(st["expr"])
        c.outs.append(out)
        if st["kind"] == "plain":
            es = _map_plain(c, st)
        else:
            es = _map_affine(c, st)
        lo = c.mapping["loop-order"].get(out)
        if lo is not None and rng.random() < spacetime_p:
            specgen.add_spacetime(rng, c.mapping, out, lo)
            st["spacetime"] = c.mapping["spacetime"][out]
        c.per.append(st)
    for t, rs in c.decl.items():
        if len(rs) > 1 and t not in c.mapping["rank-order"] and rng.random() < 0.4:
            p = list(rs)
            rng.shuffle(p)
            c.mapping["rank-order"][t] = p
    return {"decl": c.decl, "exprs": c.exprs, "mapping": c.mapping, "syms": c.syms, "per": c.per, "relations": c.relations,
            "pool": pool, "yaml": specgen.yaml_of(c.decl, c.exprs, c.mapping)}


def mixed_extents(rng, item, lo=1, hi=4, cap=9, max_points=300):
    """extents of every rank; a rank addressed through index arithmetic is made large enough for the accesses of the cascade
    (up to `cap`: beyond it the access simply falls outside the tensor); no tensor has more than `max_points` points"""
    ranks = []
    for t, rs in item["decl"].items():
        for r in rs:
            if r not in ranks:
                ranks.append(r)
    small = set(v for _, terms in item["relations"] for _, v in terms)
    ext = {r: rng.randint(lo, min(hi, 3) if r in small else hi) for r in ranks}
    for _ in range(2):
        for big, terms in item["relations"]:
            need = sum(k * (ext[v] - 1) for k, v in terms) + 1
            if ext.get(big, 0) < need:
                ext[big] = min(need, cap)
    for t, rs in item["decl"].items():
        while rs:
            n = 1
            for r in rs:
                n *= ext[r]
            if n <= max_points:
                break
            r = max(rs, key=lambda x: ext[x])
            ext[r] -= 1
    return ext


def gen_iterative_cascade(rng):
    """Iterative / in-place update patterns: an EARLIER Einsum reads a tensor that a LATER Einsum of the same specification
    writes (P = A*X ; X = B*P ; ...).  Compared as text only (the first read needs a user-supplied X)."""
    r1, r2 = rng.sample(["M", "K", "N", "J", "I"], 2)
    a, b = r1.lower(), r2.lower()
    decl = {"A": [r1, r2], "B": [r2, r1], "P": [r1], "X": [r2], "V": [r2]}
    exprs = ["P[%s] = A[%s, %s] * X[%s]" % (a, a, b, b), "X[%s] = B[%s, %s] * P[%s]" % (b, b, a, a)]
    outs = ["P", "X"]
    ranks = [[r1, r2], [r2, r1]]
    if rng.random() < 0.5:
        decl["Q"] = [r1]
        exprs.append("Q[%s] = A[%s, %s] * X[%s] * V[%s]" % (a, a, b, b, b))
        outs.append("Q")
        ranks.append([r1, r2])
    if rng.random() < 0.3:
        exprs[0] = "P[%s] = A[%s, %s] * X[%s] * V[%s]" % (a, a, b, b, b)
    if rng.random() < 0.45:
        # the same output written by two Einsums of the specification (its mapping entries are then used twice)
        exprs.append("P[%s] = B[%s, %s] * X[%s]" % (a, b, a, b))
        outs.append("P")
        ranks.append([r1, r2])
    m = {"rank-order": {}, "loop-order": {}, "partitioning": {}}
    seen_out = set()
    for o, rs in zip(outs, ranks):
        if o in seen_out:
            continue
        seen_out.add(o)
        if rng.random() < 0.6:
            lo = list(rs)
            rng.shuffle(lo)
            if rng.random() < 0.4:
                pr = rng.choice(lo)
                m["partitioning"][o] = {pr: ["uniform_shape(%d)" % rng.choice([2, 3, 4])]}
                i = lo.index(pr)
                lo[i:i + 1] = [pr + "1", pr + "0"]
            m["loop-order"][o] = lo
    for t in ("A", "B"):
        if rng.random() < 0.4:
            p = list(decl[t])
            rng.shuffle(p)
            m["rank-order"][t] = p
    if not m["partitioning"]:
        del m["partitioning"]
    per = [{"out": o, "kind": "plain", "ranks": rs} for o, rs in zip(outs, ranks)]
    return {"decl": decl, "exprs": exprs, "mapping": m, "syms": {}, "per": per, "relations": [], "pool": [r1, r2], "iterative": True,
            "yaml": specgen.yaml_of(decl, exprs, m)}
