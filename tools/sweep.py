#!/venv/bin/python
"""Run every registered check on the unchanged tree for several VERIF_SEEDs (evidence/replays redirected to a scratch
directory) and report anything that is not a clean pass:  sweep.py [--seeds 1,2,3] [--tier quick] [--props C01,C02] [--nproc 8]"""
import argparse, json, os, subprocess, sys, time
V = os.path.dirname(os.path.dirname(os.path.abspath(__file__)))
ap = argparse.ArgumentParser()
ap.add_argument("--seeds", default="1,2,3")
ap.add_argument("--tier", default="quick")
ap.add_argument("--props", default="")
ap.add_argument("--nproc", default="8")
ap.add_argument("--out", default="/root/logs/sweep")
a = ap.parse_args()
m = json.load(open(os.path.join(V, "MANIFEST.json")))
props = [x for x in a.props.split(",") if x] or [c["property_id"] for c in m["checks"]]
bad = 0
for s in a.seeds.split(","):
    for p in props:
        env = dict(os.environ, VERIF_SEED=s, VERIF_NPROC=a.nproc, VERIF_EVIDENCE_DIR="%s/ev_%s" % (a.out, s), VERIF_REPLAY_DIR="%s/rep_%s" % (a.out, s))
        t0 = time.time()
        r = subprocess.run(["/venv/bin/python", os.path.join(V, "tools", "check.py"), p, "--tier", a.tier], cwd=V, env=env,
                           stdout=subprocess.PIPE, stderr=subprocess.STDOUT, text=True)
        lines = [l for l in r.stdout.splitlines() if "conda" not in l and not l.startswith("KNOWN-FINDING")]
        ok = r.returncode == 0 and not any(l.startswith("VIOLATION") for l in lines)
        print("%s seed=%s %s %.0fs" % (p, s, "ok" if ok else "FAIL rc=%d" % r.returncode, time.time() - t0), flush=True)
        if not ok:
            bad += 1
            print("\n".join("    " + l[:400] for l in lines[-8:]), flush=True)
sys.exit(1 if bad else 0)
